"""iff_tie.py — correspondence of the Lean model of ID3 chunks in IFF-style files
(lean/MutagenModel/Model/Container/Iff.lean: AIFF, WAVE, DSDIFF) with IffID3.save / _WaveID3.save /
the delete functions and methods, and the statements of the container properties (C02, C03, C08,
C09) on the real output for synthesised well-formed layouts
[root header][form type][chunks][ID3 chunk?][chunks].

The model is asked through the compiled driver (`iff fmt=… op=save|delete …`); when the environment
variable VERIF_IFF_DRIVER holds a command line, that command is run instead (one request per line on
stdin, one answer per line on stdout)."""
import io, os, shlex, struct, subprocess
from vcheck import hx
from guards import timed

DIALECTS = {
    "aiff": dict(w=4, big=True, root=b"FORM", forms=[b"AIFF", b"AIFC"], id3=[b"ID3 "], new=b"ID3 ",
                 containers={b"FORM": 4}, other=[b"COMM", b"SSND", b"NAME", b"ANNO", b"(c) ", b"FVER"],
                 samples=["with-id3.aif", "8k-1ch-1s-silence.aif", "48k-2ch-s16-silence.aif"]),
    "wave": dict(w=4, big=False, root=b"RIFF", forms=[b"WAVE"], id3=[b"id3 ", b"ID3 "], new=b"id3 ",
                 containers={b"LIST": 4, b"RIFF": 4}, other=[b"fmt ", b"data", b"fact", b"cue ", b"bext", b"JUNK"],
                 samples=["silence-2s-PCM-16000-08-ID3v23.wav", "silence-2s-PCM-16000-08-notags.wav"]),
    "dsdiff": dict(w=8, big=True, root=b"FRM8", forms=[b"DSD "], id3=[b"ID3 "], new=b"ID3 ",
                   containers={b"FRM8": 4, b"PROP": 4, b"DST ": 0}, other=[b"FVER", b"DSD ", b"COMT", b"DIIN", b"MANF"],
                   samples=["2822400-1ch-0s-silence.dff", "5644800-2ch-s01-silence-dst.dff", "5644800-2ch-s01-silence.dff"]),
}


def enc(d, n):
    return n.to_bytes(d["w"], "big" if d["big"] else "little")


def dec(d, b):
    return int.from_bytes(b, "big" if d["big"] else "little")


def render_chunk(d, c):
    cid, data, pad = c
    return cid + enc(d, len(data)) + data + pad


def render_file(d, form, chunks):
    body = form + b"".join(render_chunk(d, c) for c in chunks)
    return d["root"] + enc(d, len(body)) + body


def strict_parse(d, f):
    """the format's rules and nothing else: -> (form, [(id, data, pad)]) or None"""
    hs = 4 + d["w"]
    if len(f) < hs + 4 or f[:4] != d["root"] or dec(d, f[4:hs]) != len(f) - hs:
        return None
    form, pos, out = f[hs:hs + 4], hs + 4, []
    while pos < len(f):
        if len(f) - pos < hs:
            return None
        n = dec(d, f[pos + 4:pos + hs])
        if len(f) - pos - hs < n + n % 2:
            return None
        out.append((f[pos:pos + 4], f[pos + hs:pos + hs + n], f[pos + hs + n:pos + hs + n + n % 2]))
        pos += hs + n + n % 2
    return form, out


def rbytes(rng, n):
    return bytes(rng.randrange(256) for _ in range(n))


SIZES = [0, 1, 2, 3, 10, 11, 18, 50, 255, 256, 1000, 1001]


def gen_chunk(rng, d, cid=None, size=None):
    cid = cid or rng.choice(d["other"])
    n = rng.choice(SIZES) if size is None else size
    data = rbytes(rng, n)
    ns = d["containers"].get(cid)
    if ns:      # a container sub-chunk (LIST, nested FORM, PROP): ASCII name, room for it
        data = rng.choice([b"INFO", b"adtl", b"SND ", b"AIFF"]) + data
    return (cid, data, b"\0" * (len(data) % 2) if rng.random() < 0.9 else rbytes(rng, len(data) % 2))


def id3_blob(rng):
    """something that looks like what a tagger left in the chunk (save never reads it)"""
    n = rng.choice([0, 1, 10, 11, 45, 46, 300, 1034, 1035, 2500, 12000])
    if n < 10:
        return rbytes(rng, n)
    body = n - 10
    return b"ID3" + bytes([rng.choice([3, 4]), 0, 0, (body >> 21) & 127, (body >> 14) & 127, (body >> 7) & 127, body & 127]) + \
        rbytes(rng, min(body, 20)) + b"\0" * (body - min(body, 20))


def gen_plain(rng, d):
    before = [gen_chunk(rng, d) for _ in range(rng.choice([0, 1, 1, 2, 3]))]
    after = [gen_chunk(rng, d) for _ in range(rng.choice([0, 0, 1, 2]))]
    if rng.random() < 0.25 and len(d["containers"]) > 1:
        cid = rng.choice(list(d["containers"]))
        (before if rng.random() < 0.5 else after).append(gen_chunk(rng, d, cid))
    id3 = None
    where = rng.choice(["none", "first", "middle", "last", "middle", "only"])
    if where != "none":
        blob = id3_blob(rng)
        id3 = (rng.choice(d["id3"]), blob, b"\0" * (len(blob) % 2))
        if where == "first":
            after, before = before + after, []
        elif where == "last":
            before, after = before + after, []
        elif where == "only":
            before, after = [], []
    else:
        before, after = before + after, []
    form = rng.choice(d["forms"])
    return dict(form=form, before=before, id3=id3, after=after, where=where)


def all_chunks(lay):
    return lay["before"] + ([lay["id3"]] if lay["id3"] else []) + lay["after"]


IFF_KINDS = ["plain"] * 8 + ["sample", "no-final-pad", "truncated-last", "root-small", "root-big", "garbage-after",
                                      "invalid-id", "container-bad", "multi-id3", "odd-ids", "tiny", "bad-root", "bad-form",
                                      "root-size-lt4", "huge-chunk-size", "root-odd", "id3-pad-nonzero", "root-cut", "root-short"]


def gen_file(rng, dname, kind=None):
    """-> (bytes, kind, layout or None); layout only for the well-formed kinds; `kind` forces what is otherwise drawn"""
    d = DIALECTS[dname]
    hs = 4 + d["w"]
    kind = kind or rng.choice(IFF_KINDS)
    lay = gen_plain(rng, d)
    data = render_file(d, lay["form"], all_chunks(lay))
    if kind == "plain":
        return data, kind, lay
    if kind == "sample":
        name = rng.choice(d["samples"])
        with open(os.path.join("/repo/tests/data", name), "rb") as h:
            return h.read(), "sample:" + name, None
    if kind == "no-final-pad":
        cs = all_chunks(lay)
        if not cs or not cs[-1][2]:
            cs = cs + [(rng.choice(d["other"] + d["id3"]), rbytes(rng, rng.choice([1, 3, 11, 45])), b"\0")]
        full = render_file(d, lay["form"], cs)
        # the file lacks the pad byte; the root size says it is there, or not
        data = full[:-1] if rng.random() < 0.5 else d["root"] + enc(d, len(full) - hs - 1) + full[hs:-1]
        return data, kind, dict(damaged=kind, chunks=cs[:-1] + [(cs[-1][0], cs[-1][1], b"")])
    if kind == "truncated-last":
        cs = all_chunks(lay) + [(rng.choice(d["other"] + d["id3"]), rbytes(rng, rng.choice([10, 40, 200])), b"")]
        full = render_file(d, lay["form"], cs)
        return full[:len(full) - rng.choice([1, 2, 5, 9])], kind, None
    if kind in ("root-small", "root-big", "root-odd"):
        body = len(data) - hs
        delta = {"root-small": -rng.choice([1, 2, 4, hs, hs + 2, 30]), "root-big": rng.choice([1, 2, 8, 100, 1 << 20]),
                 "root-odd": rng.choice([-1, 1, 3])}[kind]
        n = max(0, body + delta)
        return d["root"] + enc(d, n) + data[hs:], kind, (dict(damaged=kind, chunks=all_chunks(lay)) if kind != "root-odd" else None)
    if kind == "garbage-after":
        return data + rng.choice([b"\0", b"\0" * 7, rbytes(rng, 40), b"ID3 " + enc(d, 4) + b"abcd", d["new"] + enc(d, 0)]), kind, \
            dict(damaged=kind, chunks=all_chunks(lay))
    if kind == "invalid-id":
        bad = (rng.choice([b"\0\0\0\0", b"ab\x01c", b"    ", b"\xffabc", b"a\x7fbc", b"\n\n\n\n"]), rbytes(rng, 4), b"")
        cs = all_chunks(lay)
        cs.insert(rng.randrange(len(cs) + 1), bad)
        return render_file(d, lay["form"], cs), kind, None
    if kind == "container-bad":
        cid = rng.choice(list(d["containers"]))
        c = rng.choice([(cid, b"\xe9\xe9\xe9\xe9rest", b""), (cid, b"ab", b""), (cid, b"", b""), (cid, b"abc", b"\0"), (cid, b"IN\x80O", b"")])
        cs = all_chunks(lay)
        cs.insert(rng.randrange(len(cs) + 1), c)
        return render_file(d, lay["form"], cs), kind, None
    if kind == "multi-id3":
        cs = all_chunks(lay)
        for _ in range(rng.choice([1, 2])):
            blob = id3_blob(rng)
            cs.insert(rng.randrange(len(cs) + 1), (rng.choice([b"ID3 ", b"id3 "]), blob, b"\0" * (len(blob) % 2)))
        return render_file(d, lay["form"], cs), kind, None
    if kind == "odd-ids":
        cs = all_chunks(lay)
        for _ in range(rng.choice([1, 2])):
            blob = id3_blob(rng)
            cid = rng.choice([b"ID3\n", b"ID3\0", b"Id3 ", b"id3\t", b"ID3\x1f", b"iD3 ", b" ID3", b"ID3 ", b"id3 ", b"ID 3", b"I   ", b"ID3\x85"])
            cs.insert(rng.randrange(len(cs) + 1), (cid, blob, b"\0" * (len(blob) % 2)))
        return render_file(d, lay["form"], cs), kind, None
    if kind == "tiny":
        return data[:rng.choice([0, 1, 4, hs - 1, hs, hs + 1, hs + 3, hs + 4, hs + 5, hs + 4 + hs - 1])], kind, None
    if kind == "root-cut":
        # the file ends inside the form type; the root size says more
        return d["root"] + enc(d, rng.choice([4, 6, 100])) + lay["form"][:rng.choice([0, 1, 2, 3])], kind, None
    if kind == "root-short":
        # the root ends inside (or right after) the first chunk header; what follows is outside the root
        tail = rng.choice([data[hs + 4:], b"AB" + d["new"] + enc(d, 0) + data[hs + 4:], rbytes(rng, 3) + b"I" + data[hs + 4:], b"LISTID3 " + data[hs + 4:]])
        return d["root"] + enc(d, rng.randrange(4, 5 + 2 * hs)) + data[hs:hs + 4] + tail, kind, None
    if kind == "bad-root":
        rid = rng.choice([b"FORM", b"RIFF", b"FRM8", b"LIST", b"PROP", b"DST ", b"form", b"RIFX", b"FOR\xff"])
        return rid + data[4:], kind, None
    if kind == "bad-form":
        return data[:hs] + rng.choice([b"wave", b"WAV\xc9", b"\xff\xff\xff\xff", b"WAVE", b"AIFF", b"    "]) + data[hs + 4:], kind, None
    if kind == "root-size-lt4":
        return d["root"] + enc(d, rng.choice([0, 1, 3])) + data[hs:], kind, None
    if kind == "huge-chunk-size":
        cs = all_chunks(lay)
        big = (1 << (8 * d["w"])) - rng.choice([1, 2, 9])
        blob = render_file(d, lay["form"], cs)
        extra = rng.choice(d["other"] + d["id3"]) + enc(d, big) + rbytes(rng, rng.choice([0, 5, 30]))
        full = blob + extra
        n = rng.choice([len(full) - hs, (1 << (8 * d["w"])) - rng.choice([1, 2, hs])])
        return d["root"] + enc(d, n) + full[hs:], kind, None
    if kind == "id3-pad-nonzero":
        if lay["id3"] and len(lay["id3"][1]) % 2:
            lay["id3"] = (lay["id3"][0], lay["id3"][1], b"\x55")
        return render_file(d, lay["form"], all_chunks(lay)), "plain", lay
    raise AssertionError(kind)


PADS = ["default", "default", "keep", "0", "1", "777", "20000", "-1"]


def pad_arg_z(choice):
    if choice == "default":
        return None
    if choice == "keep":
        return lambda info: max(info.padding, 0)
    return lambda info: int(choice)


def classify(exc):
    from mutagen import MutagenError
    if isinstance(exc, MutagenError):
        return "err mutagen"
    return "err " + {"ValueError": "value", "IndexError": "index", "error": "struct", "KeyError": "key",
                     "AssertionError": "assertion", "OverflowError": "overflow", "TypeError": "type",
                     "MemoryError": "memory"}.get(type(exc).__name__, type(exc).__name__)


def ask_model(ctx, lines):
    cmd = os.environ.get("VERIF_IFF_DRIVER")
    if cmd:
        out = []
        for i in range(0, len(lines), 400):
            p = subprocess.run(shlex.split(cmd), input=("\n".join(lines[i:i + 400]) + "\n").encode(), stdout=subprocess.PIPE,
                               stderr=subprocess.PIPE, timeout=7200)
            got = p.stdout.decode().split("\n")
            if got and got[-1] == "":
                got.pop()
            if p.returncode != 0 or len(got) != len(lines[i:i + 400]):
                raise RuntimeError("VERIF_IFF_DRIVER protocol error: rc=%s, %d answers for %d requests; stderr=%s" % (
                    p.returncode, len(got), len(lines[i:i + 400]), p.stderr.decode()[-400:]))
            out.extend(got)
        return out
    if not ctx.model_ok():
        return None
    return ctx.driver.ask(lines)


def tag_classes():
    from mutagen import aiff, wave, dsdiff
    return {"aiff": (aiff._IFFID3, aiff.delete), "wave": (wave._WaveID3, wave.delete), "dsdiff": (dsdiff._DSDIFFID3, dsdiff.delete)}


def file_classes():
    from mutagen import aiff, wave, dsdiff
    return {"aiff": (aiff.AIFFFile, "ID3"), "wave": (wave._WaveFile, "id3"), "dsdiff": (dsdiff.DSDIFFFile, "ID3")}


def real_walk(dname, data):
    """what the real chunk walker sees: root data_size, (raw id, offset, data_size) of the sub-chunks, index of the ID3 chunk"""
    cls, key = file_classes()[dname]
    f = io.BytesIO(data)
    iff = cls(f)
    subs = iff.root.subchunks()
    try:
        c = iff[key]
        idx = [i for i, x in enumerate(subs) if x is c][0]
    except KeyError:
        idx = -1
    # the id as the file has it (WAVE renames the chunk object of an "ID3" chunk)
    desc = ",".join("%s@%d:%d" % (data[x.offset:x.offset + 4].decode("ascii").rstrip().encode().hex(), x.offset, x.data_size) for x in subs)
    return "ok root=%d chunks=%s id3=%d" % (iff.root.data_size, desc or "-", idx)


def read_answer(d, data):
    """the answer expected from the specification-side walker for `data`"""
    parsed = strict_parse(d, data)
    if parsed is None:
        return "ok wellformed=0"
    return "ok wellformed=1 name=%s chunks=%s" % (hx(parsed[0]), ",".join("%s:%d:%d" % (c[0].hex(), len(c[1]), len(c[2])) for c in parsed[1]) or "-")


def looks_id3(cid):
    return cid.strip().upper() == b"ID3"


def check_damaged(ctx, dname, d, lay, op, out, vmaj, frames, case):
    """mildly damaged files (final pad byte missing, root size off, bytes behind the root chunk) that the
    code accepts: what a save or delete must not do to them.  Independent of the model."""
    hs = 4 + d["w"]
    key = "iff:%s:%s:" % (dname, op)
    # (1) every other chunk (header and data) is still there in one piece, in order
    pos = 0
    for c in lay["chunks"]:
        if looks_id3(c[0]):
            continue
        blob = c[0] + enc(d, len(c[1])) + c[1]
        at = out.find(blob, pos)
        if at < 0:
            ctx.violation(key + "foreign-chunk-broken", "chunk %r (%d bytes) is no longer in the file in one piece (input: %s)" % (
                c[0], len(c[1]), lay["damaged"]), case)
            return
        pos = at + len(blob)
    # (2) after a save a reader that follows the format's rule (next chunk at offset + header + size + size % 2)
    # from the first chunk to the end of the file finds an ID3 chunk holding what was saved
    if op == "save":
        pos, found = hs + 4, False
        while pos + hs <= len(out):
            n = dec(d, out[pos + 4:pos + hs])
            body = out[pos + hs:pos + hs + n]
            if looks_id3(out[pos:pos + 4]) and body[:3] == b"ID3" and body[3:4] == bytes([vmaj]) and body[10:10 + len(frames)] == frames:
                found = True
                break
            pos += hs + n + n % 2
        if not found:
            ctx.violation(key + "tag-unreachable", "the saved ID3 chunk is not found by walking the chunks of the saved file (input: %s)" % lay["damaged"], case)


def check_save(ctx, dname, d, lay, out, vmaj, frames, pad, offered, case):
    """the container statements on the output of a save over a well-formed layout"""
    key = "iff:%s:save:" % dname
    parsed = strict_parse(d, out)
    if parsed is None:
        ctx.violation(key + "malformed", "the saved file is not a well-formed chunk file (root size / chunk sizes / pad bytes "
                      "do not match the extents)", case)
        return
    form, chunks = parsed
    others = lay["before"] + lay["after"]
    if lay["id3"]:
        idx, cid = len(lay["before"]), lay["id3"][0]
    else:
        idx, cid = len(others), d["new"]
    if form != lay["form"] or chunks[:idx] + chunks[idx + 1:] != others:
        ctx.violation(key + "foreign-chunk-changed", "the other chunks are not byte-identical and in order after save", case)
        return
    c = chunks[idx]
    if c[0] != cid:
        ctx.violation(key + "id3-chunk-id", "the ID3 chunk is not where it was / has another id: %r" % (c[0],), case)
        return
    body = c[1]
    if c[2] not in (b"", b"\0"):
        ctx.violation(key + "pad-byte-not-zero", "the pad byte written after the ID3 data is %r" % (c[2],), case)
    if len(body) < 10 or body[:3] != b"ID3" or body[3] != vmaj or any(b & 0x80 for b in body[6:10]):
        ctx.violation(key + "no-id3-header", "the chunk data does not start with an ID3v2.%d header" % vmaj, case)
        return
    size = (body[6] << 21) | (body[7] << 14) | (body[8] << 7) | body[9]
    if size != len(body) - 10:
        ctx.violation(key + "id3-size-vs-chunk-size", "ID3 header announces %d bytes, the chunk holds %d after the header" % (size, len(body) - 10), case)
    if body[10:10 + len(frames)] != frames or body[10 + len(frames):].strip(b"\0"):
        ctx.violation(key + "tag-body", "the chunk data is not header, frames, zero padding", case)
        return
    got_pad = len(body) - 10 - len(frames)
    # C09: what the callback was offered, and that its answer is what is in the file
    old_n = len(lay["id3"][1]) if lay["id3"] else 0
    follow = (len(lay["id3"][2]) + sum(len(render_chunk(d, x)) for x in lay["after"])) if lay["id3"] else 0
    if offered:
        if offered[0] != (old_n - (len(frames) + 10), follow):
            ctx.violation(key + "callback-offer", "the padding callback was offered (padding=%d, size=%d), expected (%d, %d)" % (
                offered[0][0], offered[0][1], old_n - (len(frames) + 10), follow), case)
        if len(offered) != 1:
            ctx.violation(key + "callback-count", "the padding callback was called %d times" % len(offered), case)
        want = {"keep": max(offered[0][0], 0)}.get(pad)
        if want is None:
            want = int(pad)
        if got_pad != want:
            ctx.violation(key + "padding-not-obeyed", "callback answered %d, the file has %d bytes of padding" % (want, got_pad), case)
        if pad == "keep" and offered[0][0] >= 0 and len(out) != case["_len"]:
            ctx.violation(key + "keep-moves-file", "answering with the offered padding changed the file size %d -> %d" % (case["_len"], len(out)), case)
    else:
        avail = old_n - (len(frames) + 10)
        if 0 <= avail <= 1024 and got_pad != avail:
            ctx.violation(key + "default-does-not-reuse", "default padding: %d bytes were available (<= 1 KiB), the file has %d" % (avail, got_pad), case)


def run(ctx, only=None):
    """model tie + the container statements on the real output; returns the number of cases"""
    from mutagen import id3 as I
    from mutagen.id3._tags import ID3SaveConfig
    rng = ctx.rng
    classes = tag_classes()
    n = int(os.environ.get("VERIF_IFF_CASES", "0")) or ctx.budget(60, 700)
    texts = ["x", "", "Ünï ✓", "a" * 300, "b" * 5000]
    reqs = []
    ncases = 0
    for dname in (only or ["aiff", "wave", "dsdiff"]):
        d = DIALECTS[dname]
        cls, delete_fn = classes[dname]
        # every kind of the generator once per operation first (a stratified pass), then the random draws
        forced = [(kd, fop) for kd in sorted(set(IFF_KINDS)) if kd != "sample" for fop in ("save", "delete")]
        for i in range(len(forced) + n):
            if i < len(forced):
                data, kind, lay = gen_file(rng, dname, kind=forced[i][0])
                op = forced[i][1]
            else:
                data, kind, lay = gen_file(rng, dname)
                op = rng.choice(["save", "save", "save", "delete"])
            desc = dict(fmt=dname, kind=kind, op=op, data=hx(data) if len(data) < 1500 else "len=%d" % len(data))
            f = io.BytesIO(data)
            offered = []
            if op == "save":
                tags = cls()
                for _ in range(rng.randrange(0, 4)):
                    tags.add(rng.choice([I.TIT2, I.TPE1, I.TALB])(encoding=3, text=[rng.choice(texts)]))
                if rng.random() < 0.4:
                    tags.add(I.COMM(encoding=3, lang="eng", desc="", text=[rng.choice(texts)]))
                vmaj = rng.choice([3, 4])
                pad = rng.choice(PADS)
                frames = bytes(tags._write(ID3SaveConfig(vmaj, "/")))

                def cb(info, pad=pad):
                    offered.append((info.padding, info.size))
                    return max(info.padding, 0) if pad == "keep" else int(pad)
                k, r = timed(lambda: tags.save(f, v2_version=vmaj, padding=None if pad == "default" else cb), 20)
                line = "iff fmt=%s op=save data=%s vmaj=%d frames=%s pad=%s" % (dname, hx(data), vmaj, hx(frames), pad)
                desc.update(vmaj=vmaj, pad=pad, frames_len=len(frames))
            else:
                how = rng.choice(["function", "method"])
                if how == "function":
                    k, r = timed(lambda: delete_fn(f), 20)
                else:
                    k, r = timed(lambda: cls().delete(f), 20)
                line = "iff fmt=%s op=delete data=%s" % (dname, hx(data))
                desc.update(how=how)
            if k == "hang":
                ctx.violation("iff:%s:%s:hang" % (dname, op), "did not finish", desc)
                continue
            out = f.getvalue()
            impl = "ok v=%s" % hx(out) if k == "ok" else classify(r)
            ctx.case(key=("iff", dname, op, kind, i), nontrivial=(k == "ok" and out != data), modelled=True,
                     sample=desc if i in (2, 31) else None)
            ctx.hist["iff:%s:%s:%s" % (dname, op, "ok" if k == "ok" else impl)] += 1
            ctx.hist["iff:kind:" + kind.split(":")[0]] += 1
            big = len(out) > (1 << 22) or len(data) > (1 << 22)
            if big:
                # the real code wrote a tag with ~2**28 bytes of padding (a chunk that claims that much, a callback that keeps
                # it): the model's byte lists are not made for that; what the real code left is still checked below
                ctx.hist["iff:outside-model:huge-output"] += 1
            else:
                reqs.append((line, impl, desc))
            ncases += 1
            # the walker alone, and the specification-side reader against the independent parser
            if rng.random() < 0.3 and not big:
                kw, rw = timed(lambda: real_walk(dname, data), 20)
                reqs.append(("iff fmt=%s op=walk data=%s" % (dname, hx(data)), rw if kw == "ok" else classify(rw), dict(desc, op="walk")))
            if rng.random() < 0.3 and not big:
                which = out if k == "ok" else data
                reqs.append(("iff fmt=%s op=read data=%s" % (dname, hx(which)), read_answer(d, which), dict(desc, op="read", of="output" if k == "ok" else "input")))
            # ---- the statements on the real output, for the layouts that are what they seem
            if lay is None:
                continue
            if "damaged" in lay:
                if k == "ok":
                    check_damaged(ctx, dname, d, lay, op, out, vmaj if op == "save" else 0, frames if op == "save" else b"", desc)
                continue
            case = dict(desc, _len=len(data), where=lay["where"])
            if k != "ok":
                # a well-formed file of this size can always be tagged or untagged - except for a padding callback
                # that answers with a negative number
                if not (op == "save" and pad == "-1"):
                    ctx.violation("iff:%s:%s:raises" % (dname, op), "%s on a well-formed file" % impl, case)
                continue
            if op == "save":
                check_save(ctx, dname, d, lay, out, vmaj, frames, pad, offered, case)
            else:
                exp = render_file(d, lay["form"], lay["before"] + lay["after"])
                if out != exp:
                    parsed = strict_parse(d, out)
                    if parsed is None:
                        ctx.violation("iff:%s:delete:malformed" % dname, "after delete the file is not a well-formed chunk file", case)
                    elif parsed[1] != lay["before"] + lay["after"]:
                        ctx.violation("iff:%s:delete:wrong-chunks" % dname, "delete did not leave exactly the other chunks", case)
                    else:
                        ctx.violation("iff:%s:delete:wrong-result" % dname, "delete changed something besides the ID3 chunk and the root size", case)
                else:
                    # deleting again changes nothing; a new tag can be saved and lands at the end
                    f2 = io.BytesIO(out)
                    k2, r2 = timed(lambda: delete_fn(f2), 20)
                    if k2 != "ok" or f2.getvalue() != out:
                        ctx.violation("iff:%s:delete:not-idempotent" % dname, "a second delete changed the file or raised", case)
                    t2 = cls(); t2.add(I.TIT2(encoding=3, text=["again"]))
                    fr2 = bytes(t2._write(ID3SaveConfig(4, "/")))
                    off2 = []
                    k3, r3 = timed(lambda: t2.save(f2, padding=lambda info: (off2.append((info.padding, info.size)), 3)[1]), 20)
                    lay2 = dict(lay, before=lay["before"] + lay["after"], id3=None, after=[])
                    if k3 != "ok":
                        ctx.violation("iff:%s:delete:retag-raises" % dname, "saving a new tag after delete raised", case)
                    else:
                        check_save(ctx, dname, d, lay2, f2.getvalue(), 4, fr2, "3", off2, dict(case, _len=len(out), step="retag"))
    answers = ask_model(ctx, [r[0] for r in reqs]) if reqs else None
    if answers is None:
        ctx.notes.append("iff_tie: model driver unavailable, tie skipped")
        return ncases
    if any(a == "bad-op" for a in answers):
        ctx.notes.append("iff_tie: the driver does not know the `iff` command yet (not hooked into Driver/Main.lean); tie skipped")
        return ncases
    for (line, impl, desc), ans in zip(reqs, answers):
        if ans.startswith("err notimplemented"):
            ctx.hist["iff:outside-model"] += 1
            continue
        ctx.traces_validated += 1
        if ans != impl:
            ctx.disagree("iff chunk file container", desc, model=ans[:200], impl=impl[:200])
    return ncases


# ---------------------------------------------------------------------------------------
# file-operation level: Model/Container/IffM.lean against the real code on fault-injecting / capacity-limited
# file objects (C19, C06)

def _set_buffers(size):
    """substitute `size` for the 1 MiB copy buffer of the mutagen._util primitives (None: restore)"""
    from mutagen import _util
    funcs = [getattr(_util, n) for n in ("resize_file", "move_bytes", "insert_bytes", "delete_bytes", "resize_bytes")]
    if not hasattr(_set_buffers, "saved"):
        _set_buffers.saved = [f.__defaults__ for f in funcs]
    for f, dflt in zip(funcs, _set_buffers.saved):
        if size is not None and dflt:
            f.__defaults__ = tuple(size if x == _util._DEFAULT_BUFFER_SIZE else x for x in dflt)
        else:
            f.__defaults__ = dflt


def _small_plain(rng, d):
    """a well-formed layout with at least one sub-chunk and small chunks"""
    sizes = [0, 1, 2, 3, 7, 10, 21]
    def ck(cid=None):
        cid = cid or rng.choice(d["other"])
        data = rbytes(rng, rng.choice(sizes))
        if d["containers"].get(cid):
            data = b"INFO" + data
        return (cid, data, b"\0" * (len(data) % 2))
    before = [ck() for _ in range(rng.choice([0, 1, 2]))]
    after = [ck() for _ in range(rng.choice([0, 1, 2]))]
    if rng.random() < 0.2:
        (before if rng.random() < 0.5 else after).append(ck(rng.choice(list(d["containers"]))))
    id3 = None
    if rng.random() < 0.6:
        blob = rbytes(rng, rng.choice([0, 1, 10, 11, 30, 45, 64]))
        id3 = (rng.choice(d["id3"]), blob, (b"\0" if rng.random() < 0.8 else b"\x55") * (len(blob) % 2))
    else:
        before, after = before + after, []
        if not before:
            before = [ck()]
    return dict(form=rng.choice(d["forms"]), before=before, id3=id3, after=after)


def run_faults(ctx, only=None):
    """the real save/delete on FaultFile (every capacity 0..growth, every call index) against the model's FileM programs:
    same outcome class, same bytes, same position, same call log; plus the statements of C19 and C06 on the real outcome.
    Returns the number of runs of the real code."""
    from mutagen import id3 as I, MutagenError
    from mutagen.id3._tags import ID3SaveConfig
    from fobj import FaultFile
    rng = ctx.rng
    classes = tag_classes()
    nlay = int(os.environ.get("VERIF_IFF_FAULT_LAYOUTS", "0")) or ctx.budget(4, 40)
    reqs = []
    runs = 0

    def model_line(dname, op, data, extra, vmaj=None, frames=None, pad=None, B=None):
        s = "iffm fmt=%s op=%s data=%s" % (dname, op, hx(data))
        if op == "save":
            s += " vmaj=%d frames=%s pad=%s" % (vmaj, hx(frames), pad)
        if B:
            s += " B=%d" % B
        return s + extra

    def answer(kind, res, f):
        st = "ok" if kind == "ok" else classify(res)
        return "%s data=%s pos=%d log=%s" % (st, hx(f.getvalue()), f.pos(), ",".join(f.log) or "-")

    try:
        for dname in (only or ["aiff", "wave", "dsdiff"]):
            d = DIALECTS[dname]
            cls, delete_fn = classes[dname]
            for li in range(nlay):
                lay = _small_plain(rng, d)
                data = render_file(d, lay["form"], all_chunks(lay))
                tagged = lay["id3"] is not None
                B = rng.choice([None, None, 5, 16])
                _set_buffers(B)
                for op in ("save", "save", "delete"):
                    twice = False
                    if op == "save":
                        tags = cls()
                        for _ in range(rng.randrange(0, 3)):
                            tags.add(rng.choice([I.TIT2, I.TPE1])(encoding=3, text=[rng.choice(["x", "", "abc" * 9])]))
                        vmaj = rng.choice([3, 4])
                        pad = rng.choice(["0", "0", "1", "keep", "default", "37"])
                        frames = bytes(tags._write(ID3SaveConfig(vmaj, "/")))

                        def go(f, tags=tags, vmaj=vmaj, pad=pad):
                            tags.save(f, v2_version=vmaj, padding=pad_arg_z(pad))
                        margs = dict(vmaj=vmaj, frames=frames, pad=pad, B=B)
                    else:
                        how = rng.choice(["function", "method"])

                        def go(f, how=how):
                            delete_fn(f) if how == "function" else cls().delete(f)
                        margs = dict(B=B)
                        # _WaveID3.delete is a loadfile method around the loadfile function: verify_fileobj twice
                        twice = (dname == "wave" and how == "method")
                    mop = "deletem" if (op == "delete" and twice) else op
                    nverify = 4 if (op == "delete" and twice) else 2
                    base = dict(fmt=dname, op=op, tagged=tagged, data=hx(data), buffer=B, **({"vmaj": vmaj, "pad": pad, "frames_len": len(frames)} if op == "save" else {}))
                    ref = FaultFile(data)
                    k0, r0 = timed(lambda: go(ref), 20)
                    runs += 1
                    if k0 != "ok":
                        ctx.violation("iff:%s:%s:raises" % (dname, op), "%r on a well-formed file" % (r0,), base)
                        continue
                    refb = ref.getvalue()
                    n = ref.calls
                    growth = len(refb) - len(data)
                    ctx.hist["iffm:%s:%s" % (op, "tagged" if tagged else "untagged")] += 1
                    reqs.append((model_line(dname, mop, data, "", **margs), answer(k0, r0, ref), dict(base, env="clean")))
                    # --- capacities: every value 0 .. growth (C19)
                    if growth > 0:
                        caps = range(growth + 1) if growth <= 70 else sorted(set([0, 1, 2, growth - 1, growth] + [rng.randrange(growth) for _ in range(30)]))
                        for r in caps:
                            for leak in (0, 3):
                                f = FaultFile(data, cap=len(data) + r, leak=leak)
                                k, res = timed(lambda: go(f), 20)
                                runs += 1
                                case = dict(base, remaining_capacity=r, growth=growth, leak=leak)
                                ctx.case(key=("iffm", dname, li, op, "cap", r, leak), nontrivial=(r < growth), modelled=True)
                                after = f.getvalue()
                                if k == "hang":
                                    ctx.violation("iff:%s:%s:hang" % (dname, op), "did not finish", case); continue
                                if r >= growth:
                                    if k != "ok" or after != refb:
                                        ctx.violation("iff:%s:%s:fails-with-enough-space" % (dname, op), "the growth fits but the save failed or differs", case)
                                elif k == "ok":
                                    ctx.violation("iff:%s:%s:returns-normally-on-full-device" % (dname, op), "returned normally although the growth does not fit", case)
                                elif not isinstance(res, MutagenError):
                                    ctx.violation("iff:%s:%s:enospc-raises-%s" % (dname, op, type(res).__name__), "ENOSPC surfaced as %r" % (res,), case)
                                elif tagged and after != data:
                                    ctx.violation("iff:%s:%s:file-modified-on-enospc" % (dname, op), "existing ID3 chunk, failed save, file changed (%d -> %d bytes)" % (
                                        len(data), len(after)), case)
                                elif not tagged and after != data:
                                    # a chunk had to be created: the other chunks intact, the file still well-formed (an empty ID3 chunk at most)
                                    want = render_file(d, lay["form"], all_chunks(lay) + [(d["new"], b"", b"")])
                                    if after != want:
                                        ctx.violation("iff:%s:%s:payload-damaged-on-enospc" % (dname, op), "failed save into a file without ID3 chunk left neither the "
                                                      "file as it was nor the file with an empty ID3 chunk", case)
                                    else:
                                        ctx.hist["iffm:enospc-after-chunk-created"] += 1
                                reqs.append((model_line(dname, mop, data, " cap=%d leak=%d" % (len(data) + r, leak), **margs), answer(k, res, f), case))
                    # --- one I/O fault at every call index (C06)
                    idx = range(n) if n <= 90 else sorted(set(list(range(30)) + list(range(n - 30, n)) + [rng.randrange(n) for _ in range(30)]))
                    for i in idx:
                        f = FaultFile(data, fail_at=i)
                        k, res = timed(lambda: go(f), 20)
                        runs += 1
                        case = dict(base, fail_at=i, call=ref.log[i], calls=n)
                        ctx.case(key=("iffm", dname, li, op, "fail", i), nontrivial=True, modelled=True)
                        if k == "hang":
                            ctx.violation("iff:%s:%s:hang" % (dname, op), "did not finish", case); continue
                        if k == "ok":
                            if f.getvalue() != refb:
                                ctx.violation("iff:%s:%s:undetected-fault" % (dname, op), "returned normally after an I/O error with an incomplete file", case)
                        elif not isinstance(res, MutagenError) and not (isinstance(res, ValueError) and i < nverify):
                            ctx.violation("iff:%s:%s:fault-raises-%s" % (dname, op, type(res).__name__), "I/O error at call %d (%s) surfaced as %r" % (i, ref.log[i], res), case)
                        reqs.append((model_line(dname, mop, data, " fail=%d:io" % i, **margs), answer(k, res, f), case))
    finally:
        _set_buffers(None)
    answers = ask_model(ctx, [r[0] for r in reqs]) if reqs else None
    if answers is None:
        ctx.notes.append("iff_tie.run_faults: model driver unavailable, tie skipped")
        return runs
    if any(a == "bad-op" for a in answers):
        ctx.notes.append("iff_tie.run_faults: the driver does not know the `iffm` command; tie skipped")
        return runs
    for (line, impl, case), ans in zip(reqs, answers):
        if ans.startswith("err notimplemented"):
            ctx.hist["iffm:outside-model"] += 1
            continue
        ctx.traces_validated += 1
        if ans != impl:
            ctx.disagree("iff file operations", case, model=ans[:600], impl=impl[:600])
    return runs


# ---------------------------------------------------------------------------------------
# load as a program over the file object (Model/Container/IffLoadM.lean): the tag class constructor on FaultFile — every
# fault index, every short-read budget at every read — against the model (C06)

def run_load_faults(ctx, only=None):
    """`_IFFID3(f)` / `_WaveID3(f)` / `_DSDIFFID3(f)` on FaultFile over generated files (well-formed and damaged): clean, one
    IOError at every call index, a short read (0, 1, n/2, n-1 bytes) at every read.  The model covers the calls up to the seek to
    the ID3 data: its call log must be the real log (a prefix of it when the real code goes on to parse the tag), and when the
    model says the call raises, the real call must have raised the same class after exactly the same calls.  On the real
    outcome: only MutagenError (ValueError from verify_fileobj, call 0), the file untouched, the object not closed.
    Returns the number of real runs."""
    from mutagen import MutagenError
    from fobj import FaultFile
    rng = ctx.rng
    classes = tag_classes()
    nfiles = int(os.environ.get("VERIF_IFF_LOAD_FILES", "0")) or ctx.budget(10, 120)
    reqs = []
    runs = 0
    for dname in (only or ["aiff", "wave", "dsdiff"]):
        d = DIALECTS[dname]
        cls = classes[dname][0]
        for fi in range(nfiles):
            if rng.random() < 0.5:
                lay = _small_plain(rng, d)
                if lay["id3"] is not None and rng.random() < 0.7:
                    body = rbytes(rng, rng.choice([0, 3, 14]))
                    tag = b"ID3\x04\x00\x00" + bytes([0, 0, 0, len(body)]) + body
                    lay["id3"] = (lay["id3"][0], tag, b"\0" * (len(tag) % 2))
                data, kind = render_file(d, lay["form"], all_chunks(lay)), "plain"
            else:
                data, kind, _ = gen_file(rng, dname)
                if len(data) > 700:
                    continue
            base = dict(fmt=dname, kind=kind, data=hx(data))
            ref = FaultFile(data)
            k0, r0 = timed(lambda: cls(ref), 20)
            runs += 1
            envs = [("clean", {}, "")]
            n = ref.calls
            idx = range(n) if n <= 70 else sorted(set(list(range(40)) + [rng.randrange(n) for _ in range(30)]))
            for i in idx:
                envs.append(("fail", dict(fail_at=i), " fail=%d:io" % i))
                if ref.log[i].startswith("r"):
                    want = int(ref.log[i][1:])
                    for kk in sorted(set([0, 1, want // 2, max(0, want - 1)])):
                        if kk < want:
                            envs.append(("short", dict(short=(i, kk)), " short=%d:%d" % (i, kk)))
            for ename, kw, extra in envs:
                f = FaultFile(data, **kw)
                k, res = timed(lambda: cls(f), 20)
                runs += 1
                case = dict(base, env=extra.strip() or "clean")
                ctx.case(key=("iffload", dname, fi, extra), nontrivial=(ename != "clean"), modelled=True)
                st = "ok" if k == "ok" else ("hang" if k == "hang" else classify(res))
                ctx.hist["iffload:%s:%s" % (ename, st)] += 1
                if k == "hang":
                    ctx.violation("iff:%s:load:hang" % dname, "did not finish", case); continue
                if f.getvalue() != data:
                    ctx.violation("iff:%s:load:modifies-file" % dname, "load changed the file", case)
                if f.closed_called:
                    ctx.violation("iff:%s:load:closes-caller-file" % dname, "close() was called on the caller's file object", case)
                if k == "exc" and not isinstance(res, MutagenError) and not (isinstance(res, ValueError) and kw.get("fail_at") == 0):
                    ctx.violation("iff:%s:load:fault-raises-%s" % (dname, type(res).__name__), "%s surfaced as %r" % (extra, res), case)
                if ename == "short" and k0 == "ok" and k == "exc" and isinstance(res, MutagenError) and "No ID3 chunk" in str(res):
                    ctx.hist["iffload:short-read-hides-tag"] += 1
                reqs.append(("iffload fmt=%s data=%s%s" % (dname, hx(data), extra), (st, f.pos(), list(f.log)), case))
    answers = ask_model(ctx, [r[0] for r in reqs]) if reqs else None
    if answers is None:
        ctx.notes.append("iff_tie.run_load_faults: model driver unavailable, tie skipped")
        return runs
    if any(a == "bad-op" for a in answers):
        ctx.notes.append("iff_tie.run_load_faults: the driver does not know the `iffload` command; tie skipped")
        return runs
    from vcheck import parse_fields
    for (line, (st, pos, log), case), ans in zip(reqs, answers):
        ctx.traces_validated += 1
        mst, mf = parse_fields(ans)
        mlog = [] if mf.get("log", "-") == "-" else mf["log"].split(",")
        if mst == "ok":
            # the model stops where the ID3 parser starts: its calls are the first calls of the real run
            good = log[:len(mlog)] == mlog and len(log) >= len(mlog)
        else:
            good = (mst.replace(":", " ") == st) and log == mlog and int(mf.get("pos", -1)) == pos
        if not good:
            ctx.disagree("iff load file operations", case, model=ans[:500], impl="%s pos=%d log=%s" % (st, pos, ",".join(log))[:500])
    return runs
