"""walkers.py — independent container walkers (written from the format specifications; they do
not import mutagen).  Each walker returns a `Walk`:

  errors   list of structural-rule violations (empty = well-formed)
  foreign  ordered list of (label, bytes): everything the tagging type does not own
  padding  tag padding in bytes (None where the notion does not apply)
  tagged   does the file carry a tag region of the family
  book     dict of bookkeeping values worth reporting

The labels make the order and identity of the foreign pieces comparable before/after an edit.
"""
import struct


class Walk(object):
    def __init__(self):
        self.errors = []
        self.foreign = []
        self.padding = None
        self.tagged = False
        self.book = {}
        self.tag_bytes = b""     # the bytes of the owned tag region(s), for "nothing of the tag remains" checks

    def err(self, msg):
        if len(self.errors) < 20:
            self.errors.append(msg)


def syncsafe(b):
    return (b[0] << 21) | (b[1] << 14) | (b[2] << 7) | b[3]


# ------------------------------------------------------------------------------------ ID3v2 tag
def walk_id3v2(data, w, off=0, label="id3v2"):
    """walk one ID3v2 tag at `off`; returns its total length (0 if none)"""
    if data[off:off + 3] != b"ID3" or len(data) < off + 10:
        return 0
    ver, rev, flags = data[off + 3], data[off + 4], data[off + 5]
    sz = data[off + 6:off + 10]
    if any(x & 0x80 for x in sz):
        w.err("%s: header size is not syncsafe" % label)
    size = syncsafe(sz)
    total = 10 + size
    if off + total > len(data):
        w.err("%s: declared size %d exceeds the file" % (label, total))
        return len(data) - off
    if ver not in (2, 3, 4):
        w.err("%s: version 2.%d" % (label, ver))
        return total
    body = data[off + 10:off + total]
    if flags & 0x80 and ver < 4:
        body = body.replace(b"\xff\x00", b"\xff")
    pos = 0
    if flags & 0x40 and ver >= 3:
        if ver == 4:
            ext = syncsafe(body[0:4])
        else:
            ext = 4 + struct.unpack(">L", body[0:4])[0]
        pos = ext
    hdr = 6 if ver == 2 else 10
    nframes = 0
    while pos + hdr <= len(body):
        if body[pos] == 0:
            break
        fid = body[pos:pos + (3 if ver == 2 else 4)]
        if not all((48 <= c <= 57) or (65 <= c <= 90) for c in fid):
            w.err("%s: bad frame id %r at %d" % (label, fid, pos))
            break
        if ver == 2:
            fsz = int.from_bytes(body[pos + 3:pos + 6], "big")
        elif ver == 3:
            fsz = struct.unpack(">L", body[pos + 4:pos + 8])[0]
        else:
            raw = body[pos + 4:pos + 8]
            if any(x & 0x80 for x in raw):
                w.err("%s: v2.4 frame size of %r is not syncsafe" % (label, fid))
            fsz = syncsafe(raw)
        if pos + hdr + fsz > len(body):
            w.err("%s: frame %r overruns the tag" % (label, fid))
            break
        pos += hdr + fsz
        nframes += 1
    pad = body[pos:]
    if pad.strip(b"\x00"):
        w.err("%s: non-zero bytes in the padding" % label)
    w.book[label + ".version"] = ver
    w.book[label + ".frames"] = nframes
    w.padding = len(pad)
    w.tagged = True
    w.tag_bytes += data[off:off + total]
    return total


def trailing_tags(data, w, own_ape, own_v1):
    """peel ID3v1 / Lyrics3v2 / APEv2 off the end; returns the end of the payload.
    Pieces that are not owned are added to `foreign` by the caller via the returned list."""
    end = len(data)
    pieces = []

    def ape_footer_at(e):
        """a plausible APEv2/APEv1 footer ends at e (so the last 128 bytes are not an ID3v1 block even if they start with
        the 'TAG' of 'APETAGEX', which happens for tags of 131 bytes)"""
        if e < 32 or data[e - 32:e - 24] != b"APETAGEX":
            return False
        ver, size, count, flags = struct.unpack("<4L", data[e - 24:e - 8])
        return ver in (1000, 2000) and 32 <= size <= e and not (flags & 0x20000000)
    if end >= 128 and data[end - 128:end - 125] == b"TAG" and not ape_footer_at(end):
        pieces.append(("id3v1", end - 128, end))
        end -= 128
    elif not ape_footer_at(end):
        # legacy: old mutagen versions wrote the year field with fewer than four bytes (tags of 124-127 bytes);
        # mutagen still owns them (mutagen issue #69)
        for k in (127, 126, 125, 124):
            if end >= k and data[end - k:end - k + 3] == b"TAG":
                pieces.append(("id3v1", end - k, end))
                end -= k
                break
    # Lyrics3v2: "LYRICSBEGIN" ... size(6) "LYRICS200"
    if end >= 15 and data[end - 9:end] == b"LYRICS200":
        try:
            lsz = int(data[end - 15:end - 9])
            start = end - 15 - lsz
            if start >= 0 and data[start:start + 11] == b"LYRICSBEGIN":
                pieces.append(("lyrics3", start, end))
                end = start
        except ValueError:
            pass
    if end >= 32 and data[end - 32:end - 24] == b"APETAGEX":
        ver, size, count, flags = struct.unpack("<4L", data[end - 24:end - 8])
        start = end - size
        if flags & 0x80000000:
            start -= 32
        if start < 0:
            w.err("apev2: declared size exceeds the file")
            start = max(0, start)
        pieces.append(("apev2", start, end))
        end = start
    return end, pieces


def walk_ape_tag(data, start, end, w):
    """structural rules of an APEv2 tag occupying [start, end)"""
    tag = data[start:end]
    if len(tag) < 32 or tag[-32:-24] != b"APETAGEX":
        w.err("apev2: footer missing")
        return
    fver, fsize, fcount, fflags = struct.unpack("<4L", tag[-24:-8])
    has_header = bool(fflags & 0x80000000)
    items = tag[32:-32] if has_header else tag[:-32]
    if has_header:
        if tag[:8] != b"APETAGEX":
            w.err("apev2: header flagged but missing")
        else:
            hver, hsize, hcount, hflags = struct.unpack("<4L", tag[8:24])
            if (hver, hsize, hcount) != (fver, fsize, fcount):
                w.err("apev2: header and footer disagree (%r vs %r)" % ((hver, hsize, hcount), (fver, fsize, fcount)))
            if not hflags & 0x20000000:
                w.err("apev2: header lacks the is-header flag")
    if fflags & 0x20000000:
        w.err("apev2: footer carries the is-header flag")
    if fsize != len(items) + 32:
        w.err("apev2: size field %d != items+footer %d" % (fsize, len(items) + 32))
    pos = 0; n = 0
    while pos < len(items):
        if pos + 8 > len(items):
            w.err("apev2: truncated item header"); break
        vlen, iflags = struct.unpack("<2L", items[pos:pos + 8])
        kend = items.find(b"\x00", pos + 8)
        if kend < 0:
            w.err("apev2: unterminated key"); break
        key = items[pos + 8:kend]
        if not (2 <= len(key) <= 255) or any(c < 0x20 or c > 0x7E for c in key):
            w.err("apev2: invalid key %r" % key)
        if kend + 1 + vlen > len(items):
            w.err("apev2: item value overruns the tag"); break
        pos = kend + 1 + vlen
        n += 1
    if n != fcount:
        w.err("apev2: item count %d != declared %d" % (n, fcount))
    w.book["apev2.items"] = n


def walk_id3_framed(data):
    """MP3 / TrueAudio / generic ID3 file: [ID3v2][payload][APEv2?][Lyrics3?][ID3v1?]"""
    w = Walk()
    n = walk_id3v2(data, w)
    end, pieces = trailing_tags(data, w, own_ape=False, own_v1=True)
    end = max(end, n)
    w.foreign.append(("payload", data[n:end]))
    for name, a, b in reversed(pieces):
        if name == "id3v1":
            w.book["id3v1"] = True
            w.book["id3v1_len"] = b - a
            w.tag_bytes += data[a:b]
            w.tagged = True
        else:
            w.foreign.append((name, data[a:b]))
            if name == "apev2":
                walk_ape_tag(data, a, b, w)
    return w


def walk_ape_family(data):
    """WavPack / Musepack / Monkey's Audio / OptimFROG / TAK: payload [APEv2][ID3v1?]"""
    w = Walk()
    end, pieces = trailing_tags(data, w, own_ape=True, own_v1=True)
    # an ID3v2 prefix (Musepack, TAK tolerate one) is foreign
    w.foreign.append(("payload", data[:end]))
    for name, a, b in pieces:
        if name == "apev2":
            w.tagged = True
            walk_ape_tag(data, a, b, w)
        w.tag_bytes += data[a:b]
    # a stranded APE tag after the ID3v1 slot is not looked for: payload comparison would show it
    return w


# ------------------------------------------------------------------------------------ FLAC
def walk_flac(data):
    w = Walk()
    off = 0
    if data[:3] == b"ID3" and len(data) >= 10:
        off = 10 + syncsafe(data[6:10])
        w.foreign.append(("id3v2-prefix", data[:off]))
    if data[off:off + 4] != b"fLaC":
        w.err("flac: no fLaC marker"); return w
    pos = off + 4
    last = False
    nblocks = 0
    padding = 0
    seen_vc = False
    while not last:
        if pos + 4 > len(data):
            w.err("flac: truncated block header"); return w
        h = data[pos]
        size = int.from_bytes(data[pos + 1:pos + 4], "big")
        last = bool(h & 0x80); code = h & 0x7F
        if pos + 4 + size > len(data):
            w.err("flac: block overruns the file"); return w
        payload = data[pos + 4:pos + 4 + size]
        if nblocks == 0 and code != 0:
            w.err("flac: first block is not STREAMINFO")
        if code == 1:
            padding += size
            if payload.strip(b"\x00"):
                w.err("flac: non-zero padding")
        elif code == 4:
            # every VORBIS_COMMENT block is tag data (files with more than one exist: mutagen issue #377)
            if not seen_vc:
                w.book["vc_size"] = size
            seen_vc = True
            w.tagged = True
            w.tag_bytes += payload
            w.book["vc_blocks"] = w.book.get("vc_blocks", 0) + 1
        else:
            w.foreign.append(("block%d" % code, payload))
        pos += 4 + size
        nblocks += 1
    w.padding = padding
    w.book["blocks"] = nblocks
    w.foreign.append(("audio", data[pos:]))
    return w


# ------------------------------------------------------------------------------------ IFF / RIFF / DSDIFF
def walk_iff(data, kind):
    w = Walk()
    if kind == "AIFF":
        magic, types, be, szlen, own = b"FORM", (b"AIFF", b"AIFC"), True, 4, (b"ID3 ",)
    elif kind == "WAVE":
        magic, types, be, szlen, own = b"RIFF", (b"WAVE",), False, 4, (b"id3 ", b"ID3 ")
    else:
        magic, types, be, szlen, own = b"FRM8", (b"DSD ",), True, 8, (b"ID3 ",)
    hdr = 4 + szlen + 4
    if data[:4] != magic or len(data) < hdr:
        w.err("iff: bad magic"); return w
    total = int.from_bytes(data[4:4 + szlen], "big" if be else "little")
    if data[4 + szlen:hdr] not in types:
        w.err("iff: bad form type %r" % data[4 + szlen:hdr])
    if total + 4 + szlen != len(data):
        # the RIFF/IFF spec counts the pad byte of the last chunk; a missing final pad byte is tolerated by most readers
        w.err("iff: form size %d != file size - %d = %d" % (total, 4 + szlen, len(data) - 4 - szlen))
    pos = hdr
    end = min(len(data), 4 + szlen + total)
    w.padding = None
    while pos + 4 + szlen <= end:
        cid = data[pos:pos + 4]
        size = int.from_bytes(data[pos + 4:pos + 4 + szlen], "big" if be else "little")
        body = pos + 4 + szlen
        if body + size > len(data):
            w.err("iff: chunk %r overruns the file" % cid); break
        payload = data[body:body + size]
        if cid in own and not w.tagged:
            w.tagged = True
            w.tag_bytes += payload
            sub = Walk()
            walk_id3v2(payload, sub)
            w.errors += sub.errors
            w.padding = sub.padding
            if size >= 10 and payload[:3] == b"ID3" and 10 + syncsafe(payload[6:10]) > size:
                w.err("iff: ID3 tag larger than its chunk")
        else:
            w.foreign.append((cid.decode("latin-1"), payload))
        pos = body + size
        if size % 2:
            if pos < len(data):
                pos += 1
            elif pos + 1 <= 4 + szlen + total:
                w.err("iff: odd chunk %r without pad byte" % cid)
    if pos != end and not w.errors:
        w.err("iff: %d stray bytes after the last chunk" % (end - pos))
    if len(data) > end:
        w.foreign.append(("after-form", data[end:]))
    return w


def walk_dsf(data):
    w = Walk()
    if data[:4] != b"DSD " or len(data) < 28:
        w.err("dsf: bad header"); return w
    csize, total, ptr = struct.unpack("<3Q", data[4:28])
    if csize != 28:
        w.err("dsf: DSD chunk size %d" % csize)
    if total != len(data):
        w.err("dsf: total size field %d != file size %d" % (total, len(data)))
    end = len(data)
    if ptr:
        if ptr > len(data) or data[ptr:ptr + 3] != b"ID3":
            w.err("dsf: metadata pointer %d does not address an ID3 tag" % ptr)
        else:
            n = walk_id3v2(data, w, ptr)
            if ptr + n != len(data):
                w.err("dsf: ID3 tag does not end at the end of the file")
            end = ptr
    w.foreign.append(("fmt+data", data[28:end]))
    w.book["pointer"] = ptr
    return w


# ------------------------------------------------------------------------------------ MP4
MP4_CONTAINERS = {b"moov", b"udta", b"trak", b"mdia", b"meta", b"ilst", b"stbl", b"minf", b"moof", b"traf"}


def mp4_atoms(data, start, end, w, path=()):
    """yield (path, name, header_len, offset, length) for the atoms in [start, end)"""
    pos = start
    out = []
    while pos + 8 <= end:
        size, name = struct.unpack(">L4s", data[pos:pos + 8])
        hl = 8
        if size == 1:
            if pos + 16 > end:
                w.err("mp4: truncated 64-bit atom header"); break
            size = struct.unpack(">Q", data[pos + 8:pos + 16])[0]
            hl = 16
        elif size == 0:
            if path:
                w.err("mp4: zero-sized atom %r below the top level" % name)
            size = end - pos
        if size < hl or pos + size > end:
            w.err("mp4: atom %r at %d has size %d beyond its parent" % (name, pos, size)); break
        out.append((path, name, hl, pos, size))
        pos += size
    if pos != end and not w.errors:
        w.err("mp4: %d stray bytes inside %r" % (end - pos, path[-1] if path else b"file"))
    return out


def walk_mp4(data):
    w = Walk()
    offsets = []     # chunk offsets / tfhd base offsets found (C10)
    w.padding = None

    def rec(start, end, path):
        atoms = mp4_atoms(data, start, end, w, path)
        for i, (p, name, hl, off, size) in enumerate(atoms):
            full = path + (name,)
            body = off + hl
            if full == (b"moov", b"udta", b"meta"):
                # owned subtree: ilst, hdlr (created with it) and free atoms inside
                w.tagged = any(n == b"ilst" for (_, n, _, _, _) in mp4_atoms(data, body + 4, off + size, Walk(), full))
                sub = mp4_atoms(data, body + 4, off + size, w, full)
                pad = 0
                for j, (_, n2, hl2, o2, s2) in enumerate(sub):
                    if n2 == b"ilst":
                        w.tag_bytes += data[o2 + hl2:o2 + s2]
                        rec(o2 + hl2, o2 + s2, full + (n2,)) if False else None
                        if j + 1 < len(sub) and sub[j + 1][1] == b"free":
                            pad += sub[j + 1][4] - sub[j + 1][2]
                        elif j > 0 and sub[j - 1][1] == b"free":
                            pad += sub[j - 1][4] - sub[j - 1][2]
                w.padding = pad
                continue
            if name in MP4_CONTAINERS and name != b"ilst":
                skip = 4 if name == b"meta" else 0
                rec(body + skip, off + size, full)
                continue
            payload = data[body:off + size]
            label = b"/".join(full).decode("latin-1")
            if name in (b"stco", b"co64"):
                n = struct.unpack(">L", payload[4:8])[0]
                width = 4 if name == b"stco" else 8
                if 8 + n * width > len(payload):
                    w.err("mp4: %s entry count %d overruns the atom" % (label, n))
                else:
                    for k in range(n):
                        offsets.append(int.from_bytes(payload[8 + k * width:8 + (k + 1) * width], "big"))
                w.foreign.append((label + "#count", payload[:8]))
            elif name == b"tfhd":
                fl = int.from_bytes(payload[1:4], "big")
                if fl & 1 and len(payload) >= 16:
                    offsets.append(int.from_bytes(payload[8:16], "big"))
                    w.foreign.append((label, payload[:8] + payload[16:]))
                else:
                    w.foreign.append((label, payload))
            elif name == b"free" and not path:
                # top-level free atoms are foreign unless adjacent use; keep them comparable by content only
                w.foreign.append((label, payload))
            else:
                w.foreign.append((label, payload))
    rec(0, len(data), ())
    w.book["offsets"] = offsets
    return w


# ------------------------------------------------------------------------------------ ASF
ASF_HEADER = bytes.fromhex("3026b2758e66cf11a6d900aa0062ce6c")
ASF_OWNED = {
    bytes.fromhex("3326b2758e66cf11a6d900aa0062ce6c"): "ContentDescription",
    bytes.fromhex("40a4d0d207e3d21197f000a0c95ea850"): "ExtendedContentDescription",
    bytes.fromhex("74d40618dfca0945a4ba9aabcb96aae8"): "Padding",
}
ASF_HEADER_EXT = bytes.fromhex("b503bf5f2ea9cf118ee300c00c205365")
ASF_META = bytes.fromhex("eacbf8c5af5b77488467aa8c44fa4cca")
ASF_METALIB = bytes.fromhex("941c23449894d149a1411d134e457054")
ASF_FILEPROPS = bytes.fromhex("a1dcab8c47a9cf118ee400c00c205365")


def walk_asf(data):
    w = Walk()
    if data[:16] != ASF_HEADER or len(data) < 30:
        w.err("asf: no header object"); return w
    hsize, count = struct.unpack("<QL", data[16:28])
    if hsize > len(data):
        w.err("asf: header size beyond the file"); return w
    pos = 30; n = 0; pad = 0
    while pos + 24 <= hsize:
        guid = data[pos:pos + 16]
        size = struct.unpack("<Q", data[pos + 16:pos + 24])[0]
        if size < 24 or pos + size > hsize:
            w.err("asf: object at %d has size %d beyond the header" % (pos, size)); break
        payload = data[pos + 24:pos + size]
        if guid in ASF_OWNED:
            w.tagged = True
            if ASF_OWNED[guid] == "Padding":
                pad += len(payload)
            else:
                w.tag_bytes += payload
        elif guid == ASF_HEADER_EXT:
            if len(payload) < 22:
                w.err("asf: short header extension")
            else:
                dsz = struct.unpack("<L", payload[18:22])[0]
                if dsz != len(payload) - 22:
                    w.err("asf: header extension data size %d != %d" % (dsz, len(payload) - 22))
                p2 = 22; inner = []
                while p2 + 24 <= len(payload):
                    g2 = payload[p2:p2 + 16]
                    s2 = struct.unpack("<Q", payload[p2 + 16:p2 + 24])[0]
                    if s2 < 24 or p2 + s2 > len(payload):
                        w.err("asf: nested object overruns the header extension"); break
                    if g2 in (ASF_META, ASF_METALIB):
                        w.tag_bytes += payload[p2 + 24:p2 + s2]
                    elif g2 in ASF_OWNED and ASF_OWNED[g2] == "Padding":
                        pass
                    else:
                        inner.append(payload[p2:p2 + s2])
                    p2 += s2
                if p2 != len(payload) and dsz == len(payload) - 22:
                    w.err("asf: stray bytes in the header extension")
                w.foreign.append(("header-ext-preamble", payload[:18]))
                for x in inner:
                    w.foreign.append(("ext:" + x[:16].hex(), x[24:]))
        else:
            if guid == ASF_FILEPROPS and len(payload) >= 24:
                fsz = struct.unpack("<Q", payload[16:24])[0]
                w.book["file_size_field"] = fsz
                # the File Size field is bookkeeping: compare the object without it
                w.foreign.append(("obj:" + guid.hex(), payload[:16] + payload[24:]))
            else:
                w.foreign.append(("obj:" + guid.hex(), payload))
        pos += size; n += 1
    if pos != hsize:
        w.err("asf: header size %d != 30 + sum of object sizes %d" % (hsize, pos))
    if n != count:
        w.err("asf: header object count %d != %d objects" % (count, n))
    w.padding = pad
    w.foreign.append(("data", data[hsize:]))
    return w


# ------------------------------------------------------------------------------------ Ogg
_CRC_TABLE = None


def ogg_crc(b):
    global _CRC_TABLE
    if _CRC_TABLE is None:
        _CRC_TABLE = []
        for i in range(256):
            r = i << 24
            for _ in range(8):
                r = ((r << 1) ^ 0x04C11DB7) & 0xFFFFFFFF if r & 0x80000000 else (r << 1) & 0xFFFFFFFF
            _CRC_TABLE.append(r)
    crc = 0
    for x in b:
        crc = ((crc << 8) & 0xFFFFFFFF) ^ _CRC_TABLE[((crc >> 24) ^ x) & 0xFF]
    return crc


OGG_MARKS = {"OggVorbis": b"\x01vorbis", "OggOpus": b"OpusHead", "OggSpeex": b"Speex   ", "OggTheora": b"\x80theora",
             "OggFLAC": b"\x7fFLAC"}


def walk_ogg(data, kind):
    w = Walk()
    pos = 0
    pages = []
    while pos < len(data):
        if data[pos:pos + 4] != b"OggS" or pos + 27 > len(data):
            w.err("ogg: bad capture pattern at %d" % pos); break
        ver, flags, gp, serial, seq, crc, nseg = struct.unpack("<BBqIIIB", data[pos + 4:pos + 27])
        lac = data[pos + 27:pos + 27 + nseg]
        end = pos + 27 + nseg + sum(lac)
        if len(lac) != nseg or end > len(data):
            w.err("ogg: truncated page at %d" % pos); break
        raw = data[pos:end]
        if ogg_crc(raw[:22] + b"\0\0\0\0" + raw[26:]) != crc:
            w.err("ogg: bad CRC at %d" % pos)
        pages.append((serial, seq, flags, list(lac), raw[27 + nseg:], raw))
        pos = end
    # per-serial rules and packets
    serials = []
    streams = {}
    for p in pages:
        if p[0] not in streams:
            streams[p[0]] = []; serials.append(p[0])
        streams[p[0]].append(p)
    mark = OGG_MARKS[kind]
    tagged_serial = None
    for s in serials:
        first_body = streams[s][0][4]
        if first_body.startswith(mark) and tagged_serial is None:
            tagged_serial = s
    for s in serials:
        ps = streams[s]
        seqs = [p[1] for p in ps]
        if seqs != list(range(seqs[0], seqs[0] + len(seqs))):
            w.err("ogg: sequence numbers of serial %d not gapless: %r" % (s, seqs[:12]))
        packets = []; cur = None; prev_open = False
        for (serial, seq, flags, lac, body, raw) in ps:
            cont = bool(flags & 1)
            if cont != prev_open and lac:
                w.err("ogg: continuation flag inconsistent at serial %d seq %d" % (s, seq))
            o = 0; acc = 0; first = True
            for v in lac:
                acc += v
                if v < 255:
                    chunk = body[o:o + acc]; o += acc; acc = 0
                    if first and cont and cur is not None:
                        cur += chunk
                    else:
                        cur = chunk
                    packets.append(cur); cur = None; first = False
            if acc:
                chunk = body[o:o + acc]
                cur = (cur + chunk) if (first and cont and cur is not None) else chunk
            prev_open = cur is not None
        if s == tagged_serial:
            for i, pk in enumerate(packets):
                if i == 1:
                    w.tagged = True
                    w.tag_bytes += pk
                    w.book["comment_packet_len"] = len(pk)
                else:
                    w.foreign.append(("s%d.packet%d" % (serials.index(s), i), pk))
        else:
            # untouched streams: byte-identical pages
            w.foreign.append(("s%d.pages" % serials.index(s), b"".join(p[5] for p in ps)))
        if sum(1 for p in ps if p[2] & 2) > 1:
            w.err("ogg: more than one first-page flag in serial %d" % s)
        if sum(1 for p in ps if p[2] & 4) > 1:
            w.err("ogg: more than one last-page flag in serial %d" % s)
    w.book["pages"] = len(pages)
    return w


# ------------------------------------------------------------------------------------ dispatch
def walk(kind, data):
    if kind in ("MP3", "TrueAudio", "ID3FileType"):
        return walk_id3_framed(data)
    if kind == "FLAC":
        return walk_flac(data)
    if kind in ("WavPack", "Musepack", "MonkeysAudio", "OptimFROG", "TAK", "APEv2File"):
        return walk_ape_family(data)
    if kind in ("AIFF", "WAVE", "DSDIFF"):
        return walk_iff(data, kind)
    if kind == "DSF":
        return walk_dsf(data)
    if kind == "MP4":
        return walk_mp4(data)
    if kind == "ASF":
        return walk_asf(data)
    if kind.startswith("Ogg"):
        return walk_ogg(data, kind)
    raise KeyError(kind)
