"""Spec-derived header synthesis for the stream-info side of mutagen's smaller formats.

Every builder below is written from the public format specification of the
container / codec (RIFF/WAVE, EA IFF-85 + AIFF 1.3 / AIFF-C, Sony DSF 1.01,
Philips DSDIFF 1.5, TTA1, WavPack 4/5 block header, Monkey's Audio SDK header
generations, OptimFROG, Musepack SV7/SV8, TAK stream info, Xiph Ogg + Vorbis I /
RFC 7845 / Speex manual / Theora I / FLAC-to-Ogg mapping, ISO 14496-12/-14/-3,
ALAC magic cookie, ETSI TS 102 366 (AC-3, E-AC-3, dac3), ASF 1.2, ISO 13818-7 ADTS),
*not* from mutagen's parsers.  mutagen was only consulted for (a) the names of the
info attributes and (b) how much surrounding structure a file needs to load at all.

Interface
---------
KINDS     kind -> dotted path of the mutagen class that loads it
BUILDERS  kind -> build(params) -> (data: bytes, expect: dict)   (deterministic)
cases(rng, thorough) -> generator of (kind, params, data, expect)

`expect` values
    int / str                         compared with ==
    ("div", a, b)                     the Python float  a / float(b)
  Two small extensions were needed because mutagen computes two durations through
  an intermediate float (so a single division would not be bit-identical):
    a and b of "div" may themselves be expression tuples (OggTheora length is
        ("div", frames, ("div", frn, frd))  ==  frames / (frn / float(frd)))
    ("sub", x, y)  x - y,   ("max", x, y)  max(x, y)      (ASF length with preroll)
  `evaluate(v)` turns any expectation value into the Python value to compare with.

AAC_ADTS / AC3 / EAC3 have no duration field and mutagen documents its length for them as a
guess, so `length` is not in their `expect`; params["spec_total_samples"] carries the exact
sample count implied by the frame headers (frames * samples per frame) instead.

Audio payloads are filler bytes: the files are valid on the container / header level,
the compressed audio itself is not decodable.  A param  consistent=0  marks cases in
which a header field was pushed to an extreme of its bit width that the (small)
physical payload does not back up (e.g. 2**64-1 samples in a DSF header).
"""
import struct
import zlib

KINDS = {
    "AIFF": "mutagen.aiff.AIFF",
    "WAVE": "mutagen.wave.WAVE",
    "DSF": "mutagen.dsf.DSF",
    "DSDIFF": "mutagen.dsdiff.DSDIFF",
    "TTA": "mutagen.trueaudio.TrueAudio",
    "WavPack": "mutagen.wavpack.WavPack",
    "APE": "mutagen.monkeysaudio.MonkeysAudio",
    "APE_OLD": "mutagen.monkeysaudio.MonkeysAudio",
    "OptimFROG": "mutagen.optimfrog.OptimFROG",
    "MPC_SV7": "mutagen.musepack.Musepack",
    "MPC_SV8": "mutagen.musepack.Musepack",
    "TAK": "mutagen.tak.TAK",
    "OggVorbis": "mutagen.oggvorbis.OggVorbis",
    "OggOpus": "mutagen.oggopus.OggOpus",
    "OggSpeex": "mutagen.oggspeex.OggSpeex",
    "OggTheora": "mutagen.oggtheora.OggTheora",
    "OggFLAC": "mutagen.oggflac.OggFLAC",
    "MP4_AAC": "mutagen.mp4.MP4",
    "MP4_ALAC": "mutagen.mp4.MP4",
    "MP4_AC3": "mutagen.mp4.MP4",
    "ASF": "mutagen.asf.ASF",
    "AAC_ADTS": "mutagen.aac.AAC",
    "AC3": "mutagen.ac3.AC3",
    "EAC3": "mutagen.ac3.AC3",
}

BUILDERS = {}


def _builder(kind):
    def deco(fn):
        BUILDERS[kind] = fn
        return fn
    return deco


# --------------------------------------------------------------------------
# expectation expressions

def evaluate(v):
    """Python value of an expectation value (see module docstring)."""
    if isinstance(v, tuple):
        op = v[0]
        if op == "div":
            return evaluate(v[1]) / float(evaluate(v[2]))
        if op == "sub":
            return evaluate(v[1]) - evaluate(v[2])
        if op == "max":
            return max(evaluate(v[1]), evaluate(v[2]))
        raise ValueError("unknown expectation op %r" % (op,))
    return v


# --------------------------------------------------------------------------
# small helpers

def _filler(n, seed=3):
    """n deterministic filler bytes, all < 0x80 (no 0xFF sync bytes, no 'OggS')."""
    if n <= 0:
        return b""
    base = bytes(((i * 7 + seed) & 0x7F) | 0x01 for i in range(251))
    return (base * (n // 251 + 1))[:n]


def _edges(bits, lo=0, hi=None):
    """Extremes of an unsigned field of `bits` bits, clipped to [lo, hi]."""
    mx = (1 << bits) - 1
    if hi is None:
        hi = mx
    c = {lo, lo + 1, 1, 2, 3, hi, hi - 1, hi - 2, mx, mx - 1}
    for b in (bits - 1, bits - 2, 7, 8, 15, 16, 24, 31, 32):
        if 0 < b <= bits:
            c |= {(1 << b) - 1, 1 << b, (1 << b) + 1}
    return sorted(v for v in c if lo <= v <= hi)


def _rand_bits(rng, bits, lo=0, hi=None):
    """Random value biased towards all magnitudes (log-uniform-ish)."""
    mx = (1 << bits) - 1 if hi is None else hi
    for _ in range(50):
        b = rng.randint(1, bits)
        v = rng.getrandbits(b)
        if lo <= v <= mx:
            return v
    return lo


class _BW(object):
    """MSB-first bit writer."""

    def __init__(self):
        self.v = 0
        self.n = 0

    def put(self, val, bits):
        assert 0 <= val < (1 << bits), (val, bits)
        self.v = (self.v << bits) | val
        self.n += bits
        return self

    def align(self):
        pad = (-self.n) % 8
        if pad:
            self.put(0, pad)
        return self

    def bytes(self):
        self.align()
        return self.v.to_bytes(self.n // 8, "big")


class _LBW(object):
    """LSB-first bit writer (first field lands in the low bits of byte 0)."""

    def __init__(self):
        self.v = 0
        self.n = 0

    def put(self, val, bits):
        assert 0 <= val < (1 << bits), (val, bits)
        self.v |= val << self.n
        self.n += bits
        return self

    def bytes(self):
        return self.v.to_bytes((self.n + 7) // 8, "little")


def _crc_msb(data, poly, width, init=0):
    top = 1 << (width - 1)
    mask = (1 << width) - 1
    crc = init
    for b in bytearray(data):
        crc ^= b << (width - 8)
        for _ in range(8):
            crc = ((crc << 1) ^ poly) & mask if crc & top else (crc << 1) & mask
    return crc


_OGG_TABLE = []
for _i in range(256):
    _r = _i << 24
    for _ in range(8):
        _r = ((_r << 1) ^ 0x04C11DB7) & 0xFFFFFFFF if _r & 0x80000000 else (_r << 1) & 0xFFFFFFFF
    _OGG_TABLE.append(_r)


def _ogg_crc(data):
    crc = 0
    for b in bytearray(data):
        crc = ((crc << 8) & 0xFFFFFFFF) ^ _OGG_TABLE[((crc >> 24) ^ b) & 0xFF]
    return crc


_CRC16_TABLE = []
for _i in range(256):
    _r = _i << 8
    for _ in range(8):
        _r = ((_r << 1) ^ 0x8005) & 0xFFFF if _r & 0x8000 else (_r << 1) & 0xFFFF
    _CRC16_TABLE.append(_r)


def _crc16(data, init=0):
    """CRC-16 x^16+x^15+x^2+1, MSB first (AC-3 / ADTS)."""
    crc = init
    for b in bytearray(data):
        crc = ((crc << 8) & 0xFFFF) ^ _CRC16_TABLE[((crc >> 8) ^ b) & 0xFF]
    return crc


STD_RATES = [8000, 11025, 12000, 16000, 22050, 24000, 32000, 44100, 48000,
             64000, 88200, 96000, 176400, 192000, 352800, 384000]


# ==========================================================================
# AIFF / AIFF-C  (EA IFF 85, Apple AIFF 1.3, AIFF-C draft 08/26/91)

def _ext80(num, shift=0):
    """80-bit IEEE 754 extended (big endian) for the value num / 2**shift, num >= 0."""
    if num == 0:
        return b"\x00" * 10
    e = num.bit_length() - 1
    if e <= 63:
        mant = num << (63 - e)
    else:
        assert num & ((1 << (e - 63)) - 1) == 0, "not representable"
        mant = num >> (e - 63)
    return struct.pack(">HQ", 16383 + e - shift, mant)


def _iff_chunk(cid, data, fmt=">4sI"):
    return struct.pack(fmt, cid, len(data)) + data + (b"\x00" if len(data) & 1 else b"")


def _pstring(s):
    d = bytes([len(s)]) + s
    return d + (b"\x00" if len(d) & 1 else b"")


@_builder("AIFF")
def build_aiff(p):
    ch, frames, bits = p["channels"], p["frames"], p["bits"]
    num, shift = p["rate_num"], p["rate_shift"]          # rate = num / 2**shift
    nbytes = (bits + 7) // 8                             # sample points are padded to whole bytes
    snd = _filler(p["data_frames"] * ch * nbytes)
    comm = struct.pack(">hLh", ch, frames, bits) + _ext80(num, shift)
    chunks = []
    if p["form"] == "AIFC":
        comm += p["ctype"].encode("ascii") + _pstring(b"not compressed")
        chunks.append(_iff_chunk(b"FVER", struct.pack(">L", 0xA2805140)))
    c_comm = _iff_chunk(b"COMM", comm)
    c_ssnd = _iff_chunk(b"SSND", struct.pack(">LL", 0, 0) + snd)
    chunks += [c_comm, c_ssnd] if p["order"] == "COMM-SSND" else [c_ssnd, c_comm]
    body = p["form"].encode("ascii") + b"".join(chunks)
    data = struct.pack(">4sI", b"FORM", len(body)) + body
    exp = {"channels": ch, "bits_per_sample": bits,
           # frames / rate  ==  frames * 2**shift / num ; mutagen: frame_count / float(sample_rate)
           "length": ("div", frames << shift, num)}
    if shift == 0:
        exp["sample_rate"] = num
        if bits % 8 == 0:
            # for sample sizes that are not a multiple of 8 the stored and the "significant"
            # bit rate differ; the header does not single one out, so only claim the others.
            exp["bitrate"] = ch * bits * num
    return data, exp


def _cases_aiff(rng, scale):
    out = []

    def add(ch, frames, bits, num, shift=0, form="AIFF", ctype="NONE", order="COMM-SSND"):
        nbytes = (bits + 7) // 8
        present = min(frames, max(0, 65536 // (ch * nbytes)))
        out.append({"channels": ch, "frames": frames, "bits": bits, "rate_num": num,
                    "rate_shift": shift, "form": form, "ctype": ctype, "order": order,
                    "data_frames": present, "consistent": int(present == frames)})

    for r in STD_RATES:
        add(2, 100, 16, r)
    for r in [1, 2, 3, 255, 256, 65535, 65536, 2**31 - 1, 2**31, 2**32 - 1, 2**32, 2**32 + 1, 2**40, 2**62 + 1, 2**63, 2**64 - 1]:
        add(1, 7, 8, r)
    for bits in range(1, 33):
        add(2, 10, bits, 44100)
    for ch in [1, 2, 3, 4, 6, 8, 255, 256, 32766, 32767]:
        add(ch, 1, 16, 48000)
    for fr in _edges(32):
        add(1, fr, 8, 44100)
    add(2, 50, 16, 44100, form="AIFC", ctype="NONE")
    add(2, 50, 16, 44100, form="AIFC", ctype="sowt")
    add(2, 50, 16, 44100, order="SSND-COMM")
    add(1, 9, 8, 8000, order="SSND-COMM")                 # odd SSND size -> pad byte
    # fractional sample rates (the format stores an 80 bit float): 22254.5, 11127.25, 44100.5
    add(1, 22254, 8, 44509, 1)
    add(1, 44509, 8, 44509, 2)
    add(2, 88201, 16, 88201, 1)
    for _ in range(20 * scale):
        add(rng.choice([1, 2, 2, 3, 6, _rand_bits(rng, 15, 1)]), _rand_bits(rng, 32),
            rng.randint(1, 32), rng.choice(STD_RATES + [_rand_bits(rng, 32, 1)]),
            form=rng.choice(["AIFF", "AIFF", "AIFC"]), order=rng.choice(["COMM-SSND", "SSND-COMM"]))
    return out


# ==========================================================================
# RIFF / WAVE  (Multimedia Programming Interface and Data Specifications 1.0,
# "New Multimedia Data Types and Data Techniques", WAVEFORMATEXTENSIBLE)

_KSDATAFORMAT_PCM = struct.pack("<IHH", 1, 0, 0x10) + bytes([0x80, 0, 0, 0xAA, 0, 0x38, 0x9B, 0x71])


@_builder("WAVE")
def build_wave(p):
    tag, ch, rate, bits = p["fmt_tag"], p["channels"], p["rate"], p["bits"]
    align, avg = p["block_align"], p["avg_bytes"]
    fmt = struct.pack("<HHIIHH", tag, ch, rate, avg, align, bits)
    if p["fmt_form"] == 18:
        fmt += struct.pack("<H", 0)
    elif p["fmt_form"] == 40:                              # WAVE_FORMAT_EXTENSIBLE
        fmt += struct.pack("<HHI", 22, p["valid_bits"], 0) + _KSDATAFORMAT_PCM
    elif p["fmt_form"] == 50:                              # MS ADPCM
        coefs = [(256, 0), (512, -256), (0, 0), (192, 64), (240, 0), (460, -208), (392, -232)]
        fmt += struct.pack("<HHH", 32, p["samples_per_block"], 7)
        fmt += b"".join(struct.pack("<hh", a, b) for a, b in coefs)
    chunks = [_iff_chunk(b"fmt ", fmt, "<4sI")]
    if p["fact_samples"] >= 0:
        chunks.append(_iff_chunk(b"fact", struct.pack("<I", p["fact_samples"]), "<4sI"))
    chunks.append(_iff_chunk(b"data", _filler(p["data_bytes"]), "<4sI"))
    body = b"WAVE" + b"".join(chunks)
    data = struct.pack("<4sI", b"RIFF", len(body)) + body
    exp = {"channels": ch, "sample_rate": rate, "bits_per_sample": bits,
           # nAvgBytesPerSec is the header's own statement of the data rate
           "bitrate": avg * 8}
    if p["fmt_form"] == 50:
        # block-compressed data: the sample count is what the fact chunk says
        exp["length"] = ("div", p["fact_samples"], rate)
    else:
        # one block per sample frame; mutagen: (data_size / block_align) / sample_rate, the
        # inner quotient is an exact integer here
        exp["length"] = ("div", p["data_bytes"] // align, rate)
    return data, exp


def _cases_wave(rng, scale):
    out = []

    def pcm(ch, rate, bits, frames, tag=1, form=16, container=None, fact=False):
        nbytes = container or (bits + 7) // 8
        align = ch * nbytes
        if align > 0xFFFF or rate * align > 0xFFFFFFFF:
            return
        frames = min(frames, max(1, 65536 // align))
        out.append({"fmt_tag": tag, "channels": ch, "rate": rate, "bits": nbytes * 8 if form == 40 else bits,
                    "block_align": align, "avg_bytes": rate * align, "fmt_form": form,
                    "valid_bits": bits, "fact_samples": frames if fact else -1,
                    "data_bytes": frames * align, "samples_per_block": 0})

    for r in STD_RATES:
        pcm(2, r, 16, 100)
    for r in _edges(32, 1):
        pcm(1, r, 8, 11)
    for bits in [8, 12, 16, 20, 24, 32]:
        pcm(2, 44100, bits, 20)
        pcm(2, 48000, bits, 20, tag=0xFFFE, form=40)
    pcm(2, 48000, 32, 10, tag=3, form=18, fact=True)          # IEEE float
    pcm(1, 8000, 64, 10, tag=3, form=18, fact=True)
    pcm(1, 8000, 8, 21, tag=6, form=18, fact=True)            # A-law
    pcm(2, 8000, 8, 21, tag=7, form=18, fact=True)            # mu-law
    for ch in [1, 2, 3, 6, 8, 255, 256, 32767, 32768, 65534, 65535]:
        pcm(ch, 1, 8, 1)
    for ch in [1, 2, 16383]:
        pcm(ch, 65536 // ch, 32, 3)
    # MS ADPCM (format tag 2): one block of nBlockAlign bytes carries wSamplesPerBlock frames
    for ch, rate, align, nblocks in [(1, 22050, 512, 4), (2, 44100, 2048, 3), (2, 8000, 256, 9)]:
        spb = (align - 7 * ch) * 8 // (4 * ch) + 2
        out.append({"fmt_tag": 2, "channels": ch, "rate": rate, "bits": 4, "block_align": align,
                    "avg_bytes": rate * align // spb, "fmt_form": 50, "valid_bits": 4,
                    "fact_samples": nblocks * spb, "data_bytes": nblocks * align, "samples_per_block": spb})
    for _ in range(20 * scale):
        pcm(rng.choice([1, 2, 2, 6, _rand_bits(rng, 12, 1)]), rng.choice(STD_RATES + [_rand_bits(rng, 24, 1)]),
            rng.choice([8, 16, 24, 32]), rng.randint(1, 500), form=rng.choice([16, 18]))
    return out


# ==========================================================================
# DSF  (Sony "DSF File Format Specification" 1.01)

_DSF_CHTYPE = {1: 1, 2: 2, 3: 3, 4: 4, 5: 4, 6: 5, 7: 6}      # channel type -> channel num


@_builder("DSF")
def build_dsf(p):
    ch = _DSF_CHTYPE[p["channel_type"]]
    blocks = p["data_blocks"]
    audio = _filler(blocks * 4096 * ch)
    fmt = struct.pack("<4sQIIIIIIQII", b"fmt ", 52, 1, 0, p["channel_type"], ch,
                      p["rate"], p["bits"], p["sample_count"], 4096, 0)
    dat = struct.pack("<4sQ", b"data", 12 + len(audio)) + audio
    total = 28 + len(fmt) + len(dat)
    data = struct.pack("<4sQQQ", b"DSD ", 28, total, 0) + fmt + dat
    exp = {"channels": ch, "sample_rate": p["rate"],
           "bits_per_sample": p["bits"],
           # "sample count" is per channel; mutagen: float(sample_count) / sample_rate
           "length": ("div", p["sample_count"], p["rate"]),
           # DSD is a 1 bit stream; the field value 8 only selects MSB-first packing of the
           # same 1 bit samples, so the data rate is rate * channels for both values.
           "bitrate": p["rate"] * ch}
    return data, exp


def _cases_dsf(rng, scale):
    out = []

    def add(ctype, rate, bits, count):
        need = (count + 32767) // 32768
        blocks = min(need, 2)
        out.append({"channel_type": ctype, "rate": rate, "bits": bits, "sample_count": count,
                    "data_blocks": blocks, "consistent": int(blocks == need)})

    for rate in [2822400, 5644800, 11289600, 22579200]:
        for bits in (1, 8):
            for ctype in range(1, 8):
                add(ctype, rate, bits, rng.choice([1, 32768, 32769, 65536]))
    for count in _edges(64):
        add(2, 2822400, 1, count)
    for _ in range(15 * scale):
        add(rng.randint(1, 7), rng.choice([2822400, 5644800, 11289600, 22579200]), rng.choice([1, 8]),
            _rand_bits(rng, 64))
    return out


# ==========================================================================
# DSDIFF  (Philips "DSDIFF 1.5 File Format Specification")

_DFF_IDS = [b"SLFT", b"SRGT", b"C   ", b"LFE ", b"LS  ", b"RS  "]


def _dff_chunk(cid, data):
    return struct.pack(">4sQ", cid, len(data)) + data + (b"\x00" if len(data) & 1 else b"")


@_builder("DSDIFF")
def build_dsdiff(p):
    ch, rate = p["channels"], p["rate"]
    if ch == 1:
        ids = [b"C   "]
    elif ch <= 6:
        ids = _DFF_IDS[:ch] if ch != 2 else [b"SLFT", b"SRGT"]
    else:
        ids = [("C%03d" % (i % 1000)).encode("ascii") for i in range(ch)]
    name = b"not compressed" if p["compression"] == "DSD" else b"DST Encoded"
    cmpr = p["compression"].ljust(4).encode("ascii") + bytes([len(name)]) + name
    prop = (b"SND " + _dff_chunk(b"FS  ", struct.pack(">L", rate)) +
            _dff_chunk(b"CHNL", struct.pack(">H", ch) + b"".join(ids)) +
            _dff_chunk(b"CMPR", cmpr))
    if p["with_abss"]:
        prop += _dff_chunk(b"ABSS", struct.pack(">HBBL", 0, 0, 0, 0))
    chunks = [_dff_chunk(b"FVER", bytes([1, 5, 0, 0])), _dff_chunk(b"PROP", prop)]
    exp = {"channels": ch, "sample_rate": rate, "bits_per_sample": 1,
           "compression": p["compression"]}
    if p["compression"] == "DSD":
        nbytes = p["bytes_per_channel"] * ch
        chunks.append(_dff_chunk(b"DSD ", _filler(nbytes)))
        # 8 one-bit samples per channel byte; mutagen: (size * 8 / channels) / float(rate), the
        # inner quotient is an exact integer
        exp["length"] = ("div", p["bytes_per_channel"] * 8, rate)
        exp["bitrate"] = ch * rate
    else:
        frte = _dff_chunk(b"FRTE", struct.pack(">LH", p["dst_frames"], 75))
        dstf = b"".join(_dff_chunk(b"DSTF", _filler(10 + (i % 3))) for i in range(min(p["dst_frames"], 8)))
        chunks.append(_dff_chunk(b"DST ", frte + dstf))
        exp["length"] = ("div", p["dst_frames"], 75)        # frameRate is always 75
    body = b"DSD " + b"".join(chunks)
    return struct.pack(">4sQ", b"FRM8", len(body)) + body, exp


def _cases_dsdiff(rng, scale):
    out = []

    def add(comp, ch, rate, bpc=0, frames=0, abss=0):
        out.append({"compression": comp, "channels": ch, "rate": rate, "bytes_per_channel": bpc,
                    "dst_frames": frames, "with_abss": abss,
                    "consistent": int(comp == "DSD" or frames <= 8)})

    for rate in [2822400, 5644800, 11289600, 22579200]:
        for ch in [1, 2, 5, 6]:
            add("DSD", ch, rate, rng.randint(1, 4000), abss=rng.randint(0, 1))
    for ch in [3, 4, 7, 255, 256, 65535]:
        add("DSD", ch, 2822400, 3)
    for rate in _edges(32, 1):
        add("DSD", 2, rate, 5)
    for fr in _edges(32):
        add("DST", 2, 2822400, frames=fr)
    for ch in [1, 2, 5, 6]:
        add("DST", ch, 2822400, frames=rng.randint(1, 8))
    for _ in range(10 * scale):
        add("DSD", rng.choice([1, 2, 5, 6, _rand_bits(rng, 10, 1)]), rng.choice([2822400, 5644800, _rand_bits(rng, 32, 1)]),
            rng.randint(0, 5000), abss=rng.randint(0, 1))
        add("DST", rng.choice([1, 2, 5, 6]), 2822400, frames=_rand_bits(rng, 32))
    return out


# ==========================================================================
# True Audio  (TTA1 header, "TTA Lossless Audio Codec - format description")

@_builder("TTA")
def build_tta(p):
    hdr = struct.pack("<4sHHHII", b"TTA1", p["format"], p["channels"], p["bits"], p["rate"], p["samples"])
    hdr += struct.pack("<I", zlib.crc32(hdr) & 0xFFFFFFFF)
    flen = 256 * p["rate"] // 245
    nframes = (p["samples"] + flen - 1) // flen if flen else 0
    present = min(nframes, 16)
    sizes = [20 + (i % 5) for i in range(present)]
    seek = b"".join(struct.pack("<I", s) for s in sizes)
    seek += struct.pack("<I", zlib.crc32(seek) & 0xFFFFFFFF)
    data = hdr + seek + b"".join(_filler(s, i) for i, s in enumerate(sizes))
    exp = {"sample_rate": p["rate"],
           "length": ("div", p["samples"], p["rate"])}    # mutagen: float(samples) / sample_rate
    return data, exp


def _cases_tta(rng, scale):
    out = []

    def add(rate, samples, ch=2, bits=16, fmt=1):
        out.append({"format": fmt, "channels": ch, "bits": bits, "rate": rate, "samples": samples})

    for r in STD_RATES:
        add(r, r * 3 + 1)
    for r in _edges(32, 1):
        add(r, 1000)
    for s in _edges(32):
        add(44100, s)
    for bits in (8, 16, 24):
        for ch in (1, 2, 6, 65535):
            add(48000, 48000, ch, bits)
    add(44100, 44100, 2, 32, 3)
    for _ in range(15 * scale):
        add(rng.choice(STD_RATES + [_rand_bits(rng, 32, 1)]), _rand_bits(rng, 32), rng.randint(1, 8), rng.choice([8, 16, 24]))
    return out


# ==========================================================================
# WavPack  (WavPack 4/5 "file and block format": 32 byte block header + metadata sub-blocks)

WV_RATES = [6000, 8000, 9600, 11025, 12000, 16000, 22050, 24000, 32000, 44100,
            48000, 64000, 88200, 96000, 192000]           # index 15 = "custom, see ID_SAMPLE_RATE"


def _wv_block(version, total, index, samples, flags, payload_len):
    sub = bytes([0x00, (payload_len + 1) // 2]) + _filler(payload_len + (payload_len & 1))   # ID_DUMMY
    if total < 0:
        t32, t8 = 0xFFFFFFFF, 0
    else:
        t = total + total // 0xFFFFFFFF                 # WavPack 5: the 32 bit all-ones value is skipped
        t32, t8 = t & 0xFFFFFFFF, t >> 32
    hdr = struct.pack("<4sIHBBIIIII", b"wvpk", 24 + len(sub), version, index >> 32, t8,
                      t32, index & 0xFFFFFFFF, samples, flags, 0x12345678)
    return hdr + sub


@_builder("WavPack")
def build_wavpack(p):
    flags = ((p["bytes_per_sample"] - 1) | (p["mono"] << 2) | (p["hybrid"] << 3) | (p["joint"] << 4) |
             (p["float"] << 7) | (1 << 11) | (1 << 12) |        # initial + final block of the sequence
             (p["shift"] << 13) | (p["rate_index"] << 23))
    blocks = p["block_samples"]                                # list of per-block sample counts
    data = b""
    idx = 0
    for i, n in enumerate(blocks):
        data += _wv_block(p["version"], p["total_samples"], idx, n, flags, 6 + i)
        idx += n
    rate = WV_RATES[p["rate_index"]]
    total = p["total_samples"] if p["total_samples"] >= 0 else sum(blocks)
    exp = {"version": p["version"], "channels": 1 if p["mono"] else 2, "sample_rate": rate,
           "bits_per_sample": p["bytes_per_sample"] * 8,
           "length": ("div", total, rate)}                     # mutagen: float(samples) / sample_rate
    return data, exp


def _cases_wavpack(rng, scale):
    out = []

    def add(ri, total, blocks=None, bps=2, mono=0, version=0x407, **kw):
        d = {"version": version, "rate_index": ri, "total_samples": total, "bytes_per_sample": bps,
             "mono": mono, "hybrid": 0, "joint": 0 if mono else 1, "float": 0, "shift": 0,
             "block_samples": blocks or [min(max(total, 1), 22050)]}
        d.update(kw)
        d["consistent"] = int(total < 0 or total == sum(d["block_samples"]))
        out.append(d)

    for ri in range(15):                                       # index 15 is left out on purpose (known)
        for mono in (0, 1):
            add(ri, rng.randint(1, 10**7), mono=mono, bps=rng.randint(1, 4))
    for t in _edges(32, 0, 2**32 - 2):
        add(9, t)
    for v in [0x402, 0x403, 0x404, 0x405, 0x406, 0x407, 0x410]:
        add(10, 48000, version=v)
    for bps in (1, 2, 3, 4):
        add(9, 44100, bps=bps, shift=rng.randint(0, 7))
    add(9, 44100, bps=4, **{"float": 1})
    add(9, 44100, hybrid=1)
    # unknown length (total_samples == -1): the length is the sum of the block sample counts
    add(9, -1, [22050, 22050, 100])
    add(10, -1, [1])
    add(0, -1, [5, 0, 7, 131072])
    # WavPack 5 (stream version 0x410): 40 bit total_samples, upper 8 bits in header byte 11
    for t in [2**32 - 1, 2**32, 2**33 + 5, 2**40 - 300]:
        add(9, t, [22050], version=0x410, wv5_40bit=1)
    for _ in range(15 * scale):
        add(rng.randint(0, 14), _rand_bits(rng, 32, 0, 2**32 - 2), mono=rng.randint(0, 1), bps=rng.randint(1, 4),
            version=rng.choice([0x402, 0x403, 0x404, 0x405, 0x406, 0x407, 0x410]))
    return out


# ==========================================================================
# Monkey's Audio  (MAC SDK: APE_DESCRIPTOR + APE_HEADER for version >= 3980, APE_HEADER_OLD before)

@_builder("APE")
def build_ape(p):
    nseek = min(p["total_frames"], 16)
    seek = b"".join(struct.pack("<I", 1000 + 40 * i) for i in range(nseek))
    frames = _filler(40 * max(nseek, 1))
    dlen = p["descriptor_bytes"]
    desc = struct.pack("<4sHHIIIIIII16s", b"MAC ", p["version"], 0, dlen, 24, len(seek), 0,
                       len(frames), 0, 0, bytes(range(16)))
    desc += b"\x00" * (dlen - 52)                                # nDescriptorBytes allows later expansion
    hdr = struct.pack("<HHIIIHHI", p["compression_level"], p["format_flags"], p["blocks_per_frame"],
                      p["final_frame_blocks"], p["total_frames"], p["bits"], p["channels"], p["rate"])
    data = desc + hdr + seek + frames
    tf = p["total_frames"]
    blocks = (tf - 1) * p["blocks_per_frame"] + p["final_frame_blocks"] if tf else 0
    exp = {"version": ("div", p["version"], 1000), "channels": p["channels"], "sample_rate": p["rate"],
           "bits_per_sample": p["bits"],
           "length": ("div", blocks, p["rate"])}                 # mutagen: float(total_blocks) / sample_rate
    return data, exp


def _cases_ape(rng, scale):
    out = []

    def add(rate, tf, bpf, ffb, ch=2, bits=16, version=3990, level=2000, dlen=52):
        out.append({"version": version, "compression_level": level, "format_flags": 0,
                    "blocks_per_frame": bpf, "final_frame_blocks": ffb, "total_frames": tf,
                    "bits": bits, "channels": ch, "rate": rate, "descriptor_bytes": dlen,
                    "consistent": int(tf <= 16)})

    for r in STD_RATES:
        add(r, rng.randint(1, 16), 73728 * 4, rng.randint(1, 73728 * 4))
    for level, bpf in [(1000, 73728 * 4), (2000, 73728 * 4), (3000, 73728 * 4), (4000, 73728 * 16), (5000, 73728 * 16)]:
        for v in (3980, 3990):
            add(44100, 5, bpf, 1234, version=v, level=level)
    for tf in _edges(32):
        add(44100, tf, 73728 * 4, 1 if tf else 0)
    for bpf in _edges(32, 1):
        add(48000, 3, bpf, bpf)
        add(48000, 2, bpf, 1)
    for r in _edges(32, 1):
        add(r, 2, 73728 * 4, 100)
    for bits in (8, 16, 24, 32):
        for ch in (1, 2, 6, 32, 65535):
            add(44100, 2, 73728 * 4, 7, ch=ch, bits=bits)
    for dlen in (56, 64, 100):                                   # descriptor grown, header follows it
        add(44100, 3, 73728 * 4, 1000, dlen=dlen)
    for _ in range(15 * scale):
        bpf = rng.choice([73728 * 4, 73728 * 16, _rand_bits(rng, 32, 1)])
        add(rng.choice(STD_RATES + [_rand_bits(rng, 32, 1)]), _rand_bits(rng, 32, 1), bpf, rng.randint(1, bpf),
            ch=rng.choice([1, 2]), bits=rng.choice([8, 16, 24]), version=rng.choice([3980, 3990]))
    return out


def _wav_header(ch, rate, bits, nbytes):
    align = ch * ((bits + 7) // 8)
    return (struct.pack("<4sI4s4sI", b"RIFF", 36 + nbytes, b"WAVE", b"fmt ", 16) +
            struct.pack("<HHIIHH", 1, ch, rate, min(rate * align, 0xFFFFFFFF), align, bits) +
            struct.pack("<4sI", b"data", nbytes))


@_builder("APE_OLD")
def build_ape_old(p):
    flags = p["format_flags"]
    bits = 8 if flags & 1 else 24 if flags & 8 else 16
    tf = p["total_frames"]
    nseek = min(tf, 16)
    wav = b"" if flags & 32 else _wav_header(p["channels"], p["rate"], bits, 0)
    hdr = struct.pack("<4sHHHHIIIII", b"MAC ", p["version"], p["compression_level"], flags,
                      p["channels"], p["rate"], len(wav), 0, tf, p["final_frame_blocks"])
    if flags & 4:
        hdr += struct.pack("<I", 12345)                          # peak level
    if flags & 16:
        hdr += struct.pack("<I", nseek)                          # seek table element count
    seek = b"".join(struct.pack("<I", 500 + 40 * i) for i in range(nseek))
    if p["version"] <= 3800:
        seek += b"\x00" * nseek                                  # seek bit table
    data = hdr + wav + seek + _filler(40 * max(nseek, 2))
    v, lvl = p["version"], p["compression_level"]
    if v >= 3950:
        bpf = 73728 * 4
    elif v >= 3900 or (v >= 3800 and lvl == 4000):               # COMPRESSION_LEVEL_EXTRA_HIGH == 4000
        bpf = 73728
    else:
        bpf = 9216
    blocks = (tf - 1) * bpf + p["final_frame_blocks"] if tf else 0
    exp = {"version": ("div", v, 1000), "channels": p["channels"], "sample_rate": p["rate"],
           "bits_per_sample": bits,                              # 8 / 24 bit format flags, else 16
           "length": ("div", blocks, p["rate"])}
    return data, exp


def _cases_ape_old(rng, scale):
    out = []

    def add(version, level, flags, rate, tf, ffb, ch=2):
        out.append({"version": version, "compression_level": level, "format_flags": flags,
                    "channels": ch, "rate": rate, "total_frames": tf, "final_frame_blocks": ffb,
                    "consistent": int(tf <= 16)})

    for v in (3950, 3960, 3970):
        for flags in (0, 2, 4 | 16, 2 | 4 | 16, 1 | 4 | 16, 8 | 4 | 16, 4, 16, 32, 32 | 4 | 16, 1, 8):
            add(v, rng.choice([1000, 2000, 3000, 4000, 5000]), flags, rng.choice(STD_RATES[:10]),
                rng.randint(1, 12), rng.randint(1, 73728 * 4), ch=rng.choice([1, 2]))
    for v in (3800, 3810, 3840, 3890, 3900, 3910, 3920, 3930, 3940):
        for level in (1000, 2000, 3000, 4000):
            add(v, level, 2 | 4 | 16, 44100, 6, 4000)
    for v in (3200, 3700, 3790):
        add(v, 2000, 2 | 4, 44100, 6, 4000)
    for tf in _edges(32):
        add(3970, 2000, 4 | 16, 44100, tf, 1 if tf else 0)
    for r in _edges(32, 1):
        add(3970, 2000, 4 | 16, r, 3, 500)
    for _ in range(15 * scale):
        add(rng.choice([3950, 3960, 3970]), rng.choice([1000, 2000, 3000, 4000]), rng.choice([0, 2, 4 | 16, 1 | 4 | 16, 8 | 2 | 4 | 16, 32]),
            rng.choice(STD_RATES), _rand_bits(rng, 32, 1), rng.randint(1, 73728 * 4), ch=rng.choice([1, 2]))
    return out


# ==========================================================================
# OptimFROG  (main header: 'OFR ' + size 12 / 15)

_OFR_BITS = [8, 8, 16, 16, 24, 24, 32, 32]                       # sample types SINT8,UINT8,...,UINT32


@_builder("OptimFROG")
def build_optimfrog(p):
    total = p["total_samples"]                                   # counted over all channels
    body = struct.pack("<IHBBI", total & 0xFFFFFFFF, total >> 32, p["sample_type"], p["channels"] - 1, p["rate"])
    if p["header_size"] >= 15:
        body += struct.pack("<HB", p["encoder_id"], 3)
    data = b"OFR " + struct.pack("<I", p["header_size"]) + body
    data += b"COMP" + struct.pack("<I", 80) + _filler(80)
    ch = p["channels"]
    exp = {"channels": ch, "sample_rate": p["rate"], "bits_per_sample": _OFR_BITS[p["sample_type"]],
           "length": ("div", total, ch * p["rate"])}             # mutagen: float(total) / (channels * rate)
    if p["header_size"] >= 15:
        v = (p["encoder_id"] >> 4) + 4500
        exp["encoder_info"] = "%d.%03d" % (v // 1000, v % 1000)
    else:
        exp["encoder_info"] = ""
    return data, exp


def _cases_optimfrog(rng, scale):
    out = []

    def add(total, st, ch, rate, size=15, enc=0x2580):
        out.append({"total_samples": total, "sample_type": st, "channels": ch, "rate": rate,
                    "header_size": size, "encoder_id": enc})

    for st in range(8):
        for size in (12, 15):
            add(rng.randint(1, 10**8), st, rng.choice([1, 2]), rng.choice(STD_RATES), size)
    for t in _edges(48):
        add(t, 2, 2, 44100)
    for ch in [1, 2, 3, 6, 128, 255, 256]:
        add(ch * 1000, 2, ch, 44100)
    for r in _edges(32, 1):
        add(10**6, 2, 2, r)
    for enc in _edges(16):
        add(88200, 2, 2, 44100, enc=enc)
    for _ in range(15 * scale):
        add(_rand_bits(rng, 48), rng.randint(0, 7), rng.randint(1, 8), rng.choice(STD_RATES + [_rand_bits(rng, 32, 1)]),
            rng.choice([12, 15]), rng.getrandbits(16))
    return out


# ==========================================================================
# Musepack  (SV7 header as documented by the Musepack project; SV8 "stream specification")

MPC_RATES = [44100, 48000, 37800, 32000]


@_builder("MPC_SV7")
def build_mpc7(p):
    w2 = ((p["ms"] << 30) | (p["max_band"] << 24) | (p["profile"] << 20) | (p["link"] << 18) |
          (p["rate_index"] << 16) | p["max_level"])
    w5 = (p["true_gapless"] << 31) | (p["last_frame_samples"] << 20) | (p["fast_seek"] << 19)
    hdr = b"MP+" + bytes([7 | (p["minor"] << 4)])
    hdr += struct.pack("<II", p["frames"], w2)
    hdr += struct.pack("<HhHh", p["title_peak"], p["title_gain"], p["album_peak"], p["album_gain"])
    hdr += struct.pack("<I", w5) + struct.pack("<I", p["encoder"] << 24)
    data = hdr + _filler(64)
    rate = MPC_RATES[p["rate_index"]]
    if p["true_gapless"]:
        samples = (p["frames"] - 1) * 1152 + p["last_frame_samples"]
    else:
        # without the gapless flag the exact end is not encoded; frames * 1152 minus half a
        # frame of decoder delay is the customary value (TagLib, mutagen).
        samples = p["frames"] * 1152 - 576
    exp = {"version": 7, "channels": 2, "sample_rate": rate,
           "length": ("div", samples, rate),                     # mutagen: float(samples) / sample_rate
           "title_gain": ("div", p["title_gain"], 100), "album_gain": ("div", p["album_gain"], 100),
           "title_peak": ("div", p["title_peak"], 65535), "album_peak": ("div", p["album_peak"], 65535)}
    return data, exp


def _cases_mpc7(rng, scale):
    out = []

    def add(frames, ri, gapless=0, last=0, minor=0, **kw):
        d = {"frames": frames, "rate_index": ri, "true_gapless": gapless, "last_frame_samples": last,
             "minor": minor, "ms": 1, "max_band": 31, "profile": 10, "link": 0, "max_level": 0,
             "title_peak": 0, "title_gain": 0, "album_peak": 0, "album_gain": 0, "fast_seek": 0, "encoder": 118}
        d.update(kw)
        out.append(d)

    for ri in range(4):
        for gl in (0, 1):
            add(rng.randint(1, 10**6), ri, gl, rng.randint(1, 1152) if gl else 0, minor=rng.randint(0, 1))
    for fr in _edges(32, 1):
        add(fr, 0)
    for last in [1, 2, 575, 576, 577, 1151, 1152]:
        add(100, 0, 1, last)
    for g in [-32768, -32767, -1, 0, 1, 32766, 32767]:
        add(1000, 1, title_gain=g, album_gain=-g if g > -32768 else 0)
    for pk in _edges(16):
        add(1000, 3, title_peak=pk, album_peak=65535 - pk)
    for prof in range(16):
        add(500, 2, profile=prof, max_band=rng.randint(0, 31), ms=rng.randint(0, 1))
    for _ in range(10 * scale):
        add(_rand_bits(rng, 32, 1), rng.randint(0, 3), title_gain=rng.randint(-32768, 32767), title_peak=rng.getrandbits(16),
            album_gain=rng.randint(-32768, 32767), album_peak=rng.getrandbits(16))
    return out


def _mpc_varint(v):
    out = [v & 0x7F]
    v >>= 7
    while v:
        out.append(0x80 | (v & 0x7F))
        v >>= 7
    return bytes(reversed(out))


def _mpc_packet(key, payload):
    size = len(payload) + 2 + 1
    while len(_mpc_varint(size)) + 2 + len(payload) != size:
        size += 1
    return key + _mpc_varint(size) + payload


@_builder("MPC_SV8")
def build_mpc8(p):
    body = bytes([8]) + _mpc_varint(p["samples"]) + _mpc_varint(p["begin_silence"])
    body += _BW().put(p["rate_index"], 3).put(p["max_bands"] - 1, 5).put(p["channels"] - 1, 4) \
                 .put(p["ms"], 1).put(p["block_pwr"], 3).bytes()
    sh = struct.pack(">I", zlib.crc32(body) & 0xFFFFFFFF) + body
    rg = bytes([1]) + struct.pack(">hhhh", 0, 0, 0, 0)
    ei = _BW().put(p["profile"], 7).put(0, 1).put(1, 8).put(30, 8).put(1, 8).bytes()
    data = b"MPCK" + _mpc_packet(b"SH", sh) + _mpc_packet(b"RG", rg) + _mpc_packet(b"EI", ei)
    for i in range(p["audio_packets"]):
        data += _mpc_packet(b"AP", _filler(20 + i))
    data += _mpc_packet(b"SE", b"")
    rate = MPC_RATES[p["rate_index"]]
    exp = {"version": 8, "channels": p["channels"], "sample_rate": rate,
           # playable samples = sample count - beginning silence; mutagen: float(samples) / sample_rate
           "length": ("div", p["samples"] - p["begin_silence"], rate)}
    return data, exp


def _cases_mpc8(rng, scale):
    out = []

    def add(samples, silence, ri, ch=2, **kw):
        d = {"samples": samples, "begin_silence": silence, "rate_index": ri, "channels": ch,
             "max_bands": 32, "ms": 1, "block_pwr": 3, "profile": 80, "audio_packets": 2}
        d.update(kw)
        out.append(d)

    for ri in range(4):
        for ch in (1, 2):
            add(rng.randint(1, 10**8), rng.randint(0, 1152), ri, ch)
    for ch in range(1, 17):
        add(44100, 0, 0, ch)
    for s in sorted(set(_edges(63) + [127, 128, 16383, 16384, 2**21 - 1, 2**21, 2**28, 2**35, 2**42, 2**49, 2**56 - 1, 2**56])):
        add(s, 0, 1)
        if s > 1:
            add(s, s - 1, 1)
            add(s, s, 2)
    for bp in range(8):
        add(10000, 10, 3, block_pwr=bp, max_bands=rng.randint(1, 32), ms=rng.randint(0, 1))
    add(5000, 0, 0, audio_packets=0)
    for _ in range(10 * scale):
        s = _rand_bits(rng, 63)
        add(s, rng.randint(0, min(s, 5000)), rng.randint(0, 3), rng.randint(1, 16))
    return out


# ==========================================================================
# TAK  (stream info layout as published with the FFmpeg TAK demuxer / TAK SDK; LSB-first bit fields)

def _tak_meta(mtype, payload):
    if mtype == 0:
        return bytes([0, 0, 0, 0])
    crc = _crc_msb(payload, 0x864CFB, 24, 0xB704CE)               # CRC-24 (OpenPGP parameters), stored LSB first
    size = len(payload) + 3
    return bytes([mtype & 0x7F]) + struct.pack("<I", size)[:3] + payload + struct.pack("<I", crc)[:3]


@_builder("TAK")
def build_tak(p):
    w = _LBW()
    w.put(p["codec"], 6).put(p["profile"], 4)                    # encoder info
    w.put(p["frame_duration_type"], 4).put(p["samples"], 35)      # size info
    w.put(0, 3).put(p["rate"] - 6000, 18).put(p["bits"] - 8, 5).put(p["channels"] - 1, 4)
    w.put(p["has_extension"], 1)
    if p["has_extension"]:
        w.put(p["bits"] - 8, 5).put(0, 1)                        # valid bits, no speaker assignment
    data = b"tBaK"
    enc = bytes([p["enc_patch"], p["enc_minor"], p["enc_major"], 2])
    metas = [(1, w.bytes())]
    if p["with_encoder"]:
        metas.append((4, enc))
    metas.append((6, bytes(range(16))))                          # MD5
    if p["order"] == "enc-first" and p["with_encoder"]:
        metas = [metas[1], metas[0]] + metas[2:]
    for t, pl in metas:
        data += _tak_meta(t, pl)
    data += _tak_meta(5, b"\x00" * 12) + _tak_meta(0, b"") + _filler(64)
    exp = {"channels": p["channels"], "sample_rate": p["rate"], "bits_per_sample": p["bits"],
           "length": ("div", p["samples"], p["rate"]),            # mutagen: samples / float(sample_rate)
           "encoder_info": ("TAK %d.%d.%d" % (p["enc_major"], p["enc_minor"], p["enc_patch"])) if p["with_encoder"] else ""}
    return data, exp


def _cases_tak(rng, scale):
    out = []

    def add(samples, rate, bits=16, ch=2, **kw):
        d = {"codec": 2, "profile": 2, "frame_duration_type": 3, "samples": samples, "rate": rate, "bits": bits,
             "channels": ch, "has_extension": 0, "with_encoder": 1, "enc_major": 2, "enc_minor": 3, "enc_patch": 0,
             "order": "info-first"}
        d.update(kw)
        out.append(d)

    for r in [8000, 11025, 16000, 22050, 32000, 44100, 48000, 88200, 96000, 176400, 192000]:
        add(rng.randint(1, 10**9), r)
    for r in sorted(set(6000 + v for v in _edges(18))):
        add(100000, r)
    for s in _edges(35):
        add(s, 44100)
    for bits in sorted(set([8, 9, 15, 16, 17, 23, 24, 25, 31, 32, 38, 39])):
        add(1000, 44100, bits)
    for ch in range(1, 17):
        add(1000, 48000, 16, ch, codec=2 if ch <= 2 else 4)
    for prof in range(16):
        add(4000, 44100, profile=prof, frame_duration_type=rng.randint(0, 15))
    add(1000, 44100, with_encoder=0)
    add(1000, 44100, has_extension=1)
    add(1000, 44100, order="enc-first")
    for v in _edges(8):
        add(1000, 44100, enc_major=v, enc_minor=255 - v, enc_patch=(v * 7) % 256)
    for _ in range(10 * scale):
        add(_rand_bits(rng, 35), 6000 + _rand_bits(rng, 18), 8 + rng.randint(0, 31), rng.randint(1, 16),
            enc_major=rng.getrandbits(8), enc_minor=rng.getrandbits(8), enc_patch=rng.getrandbits(8),
            has_extension=rng.randint(0, 1))
    return out


# ==========================================================================
# Ogg  (RFC 3533 pages; codec identification headers)

def _ogg_page(packets, serial, seq, granule, bos=False, eos=False, continued=False):
    lacing = []
    for pk in packets:
        lacing += [255] * (len(pk) // 255) + [len(pk) % 255]
    assert len(lacing) <= 255
    flags = (1 if continued else 0) | (2 if bos else 0) | (4 if eos else 0)
    hdr = struct.pack("<4sBBqIII", b"OggS", 0, flags, granule, serial, seq, 0)
    page = hdr + bytes([len(lacing)]) + bytes(lacing) + b"".join(packets)
    crc = _ogg_crc(page)
    return page[:22] + struct.pack("<I", crc) + page[26:]


def _ogg_stream(serial, ident, header_packets, audio_packet, granules):
    """BOS page with the identification packet, one page with the remaining header packets
    (granule 0), then one audio page per entry of `granules` (last one carries EOS)."""
    pages = [_ogg_page([ident], serial, 0, 0, bos=True),
             _ogg_page(header_packets, serial, 1, 0)]
    for i, g in enumerate(granules):
        pages.append(_ogg_page([audio_packet, audio_packet], serial, 2 + i, g, eos=(i == len(granules) - 1)))
    return b"".join(pages)


def _vcomment(vendor=b"headers_more", framing=False):
    return struct.pack("<I", len(vendor)) + vendor + struct.pack("<I", 0) + (b"\x01" if framing else b"")


def _granules(last, n):
    """n non-decreasing granule positions ending in `last`."""
    return [last * (i + 1) // n for i in range(n)]


@_builder("OggVorbis")
def build_oggvorbis(p):
    ident = (b"\x01vorbis" + struct.pack("<IBIiii", 0, p["channels"], p["rate"], p["br_max"], p["br_nominal"], p["br_min"]) +
             bytes([p["blocksize_0"] | (p["blocksize_1"] << 4), 1]))
    comment = b"\x03vorbis" + _vcomment(framing=True)
    setup = b"\x05vorbis" + _filler(40)                          # placeholder, no real codebooks
    data = _ogg_stream(p["serial"], ident, [comment, setup], b"\x00" + _filler(9), _granules(p["last_granule"], p["pages"]))
    exp = {"channels": p["channels"], "sample_rate": p["rate"],
           "length": ("div", p["last_granule"], p["rate"])}      # mutagen: position / float(sample_rate)
    nom, mx, mn = p["br_nominal"], p["br_max"], p["br_min"]
    # the nominal bitrate is a header field; only claim it when it is set and consistent with
    # the (optional) hard limits
    if nom > 0 and (mx <= 0 or mx >= nom) and (mn <= 0 or mn <= nom):
        exp["bitrate"] = nom
    return data, exp


def _cases_oggvorbis(rng, scale):
    out = []

    def add(ch, rate, last, nom=128000, mx=0, mn=0, **kw):
        d = {"channels": ch, "rate": rate, "last_granule": last, "br_nominal": nom, "br_max": mx, "br_min": mn,
             "blocksize_0": 8, "blocksize_1": 11, "serial": 0x1234, "pages": 2}
        d.update(kw)
        out.append(d)

    for r in STD_RATES:
        add(2, r, rng.randint(1, 10**8))
    for r in _edges(32, 1):
        add(1, r, 12345)
    for ch in _edges(8, 1):
        add(ch, 44100, 44100)
    for g in _edges(63):
        add(2, 44100, g)
    for nom in _edges(31, 1):
        add(2, 48000, 48000, nom=nom)
    add(2, 44100, 1000, nom=128000, mx=128000, mn=128000)        # fixed rate
    add(2, 44100, 1000, nom=128000, mx=256000, mn=64000)
    add(2, 44100, 1000, nom=0, mx=0, mn=0)                        # nothing set
    add(2, 44100, 1000, nom=-1, mx=-1, mn=-1)
    add(2, 44100, 1000, nom=0, mx=256000, mn=64000)
    for b0, b1 in [(6, 6), (6, 13), (13, 13), (8, 11)]:
        add(2, 44100, 1000, blocksize_0=b0, blocksize_1=b1)
    for s in _edges(32):
        add(2, 44100, 1000, serial=s)
    add(2, 44100, 5000, pages=1)
    add(2, 44100, 5000, pages=9)
    for _ in range(10 * scale):
        add(rng.randint(1, 255), rng.choice(STD_RATES + [_rand_bits(rng, 32, 1)]), _rand_bits(rng, 63),
            nom=_rand_bits(rng, 31, 1), serial=rng.getrandbits(32), pages=rng.randint(1, 5))
    return out


@_builder("OggOpus")
def build_oggopus(p):
    ch = p["channels"]
    head = b"OpusHead" + struct.pack("<BBHIhB", p["version"], ch, p["pre_skip"], p["input_rate"], p["gain"], p["family"])
    if p["family"] != 0:
        coupled = ch // 2 if p["family"] == 1 else 0
        head += bytes([ch - coupled, coupled]) + bytes(range(ch))
    tags = b"OpusTags" + _vcomment()
    data = _ogg_stream(p["serial"], head, [tags], b"\xf8\xff\xfe", _granules(p["last_granule"], p["pages"]))
    exp = {"channels": ch,
           # RFC 7845 4.3: PCM length = last granule - pre-skip, always at 48 kHz
           "length": ("div", p["last_granule"] - p["pre_skip"], 48000)}
    return data, exp


def _cases_oggopus(rng, scale):
    out = []

    def add(ch, pre, last, family=None, **kw):
        if family is None:
            family = 0 if ch <= 2 else (1 if ch <= 8 else 255)
        d = {"version": 1, "channels": ch, "pre_skip": pre, "input_rate": 48000, "gain": 0, "family": family,
             "last_granule": last, "serial": 0x4F70, "pages": 2}
        d.update(kw)
        out.append(d)

    for ch in list(range(1, 9)) + [9, 16, 127, 128, 254, 255]:
        add(ch, 312, 312 + rng.randint(0, 10**7))
    for pre in _edges(16):
        add(2, pre, pre)
        add(2, pre, pre + 48000)
    for g in _edges(63, 3840):
        add(2, 3840, g)
    for r in [0, 8000, 44100, 48000, 96000, 2**32 - 1]:
        add(2, 312, 100000, input_rate=r)
    for gain in [-32768, -1, 0, 1, 32767]:
        add(1, 312, 100000, gain=gain)
    for v in [0, 1, 2, 15]:
        add(2, 312, 100000, version=v)
    add(2, 312, 100000, family=1)
    add(1, 312, 100000, family=255)
    for _ in range(10 * scale):
        pre = rng.getrandbits(16)
        add(rng.randint(1, 255), pre, pre + _rand_bits(rng, 62), serial=rng.getrandbits(32), pages=rng.randint(1, 5))
    return out


@_builder("OggSpeex")
def build_oggspeex(p):
    head = struct.pack("<8s20siiiiiiiiiiiii", b"Speex   ", b"1.2.1".ljust(20, b"\x00"), 1, 80, p["rate"], p["mode"], 4,
                       p["channels"], p["bitrate"], p["frame_size"], p["vbr"], p["frames_per_packet"], 0, 0, 0)
    assert len(head) == 80
    data = _ogg_stream(p["serial"], head, [_vcomment()], _filler(20), _granules(p["last_granule"], p["pages"]))
    exp = {"channels": p["channels"], "sample_rate": p["rate"],
           "bitrate": max(p["bitrate"], 0),                      # -1 = "not set"; mutagen documents 0 for that
           "length": ("div", p["last_granule"], p["rate"])}      # mutagen: position / float(sample_rate)
    return data, exp


def _cases_oggspeex(rng, scale):
    out = []

    def add(rate, ch, br, last, mode=None, **kw):
        if mode is None:
            mode = 0 if rate <= 12500 else (1 if rate <= 25000 else 2)
        d = {"rate": rate, "mode": mode, "channels": ch, "bitrate": br, "frame_size": 160 << mode, "vbr": 0,
             "frames_per_packet": 1, "last_granule": last, "serial": 0x5350, "pages": 2}
        d.update(kw)
        out.append(d)

    for rate in [8000, 11025, 16000, 22050, 32000, 44100, 48000]:
        for ch in (1, 2):
            add(rate, ch, rng.choice([-1, 8000, 15000, 27800]), rng.randint(1, 10**8))
    for r in _edges(31, 1):
        add(r, 1, -1, 100000)
    for br in [-1, 0] + _edges(31, 1):
        add(16000, 1, br, 16000)
    for g in _edges(63):
        add(8000, 1, -1, g)
    add(8000, 1, 8000, 8000, vbr=1, frames_per_packet=4)
    for _ in range(10 * scale):
        add(rng.choice([8000, 16000, 32000, _rand_bits(rng, 31, 1)]), rng.randint(1, 2), rng.choice([-1, _rand_bits(rng, 31)]),
            _rand_bits(rng, 63), serial=rng.getrandbits(32), pages=rng.randint(1, 5))
    return out


@_builder("OggTheora")
def build_oggtheora(p):
    w, h = p["pic_w"], p["pic_h"]
    fmbw, fmbh = (w + 15) // 16, (h + 15) // 16
    ident = (b"\x80theora" + bytes([3, 2, p["vrev"]]) + struct.pack(">HH", fmbw, fmbh) +
             struct.pack(">I", w)[1:] + struct.pack(">I", h)[1:] + bytes([0, 0]) +
             struct.pack(">II", p["frn"], p["frd"]) + struct.pack(">I", 1)[1:] + struct.pack(">I", 1)[1:] +
             bytes([0]) + struct.pack(">I", p["nombr"])[1:] +
             _BW().put(p["qual"], 6).put(p["kfgshift"], 5).put(p["pf"], 2).put(0, 3).bytes())
    assert len(ident) == 42
    comment = b"\x81theora" + _vcomment()
    setup = b"\x82theora" + _filler(40)                          # placeholder
    shift = p["kfgshift"]
    last = (p["last_keyframe"] << shift) | p["last_offset"]
    data = _ogg_stream(p["serial"], ident, [comment, setup], b"\x00" + _filler(5), [last])
    # Theora I, A.2.3: 3.2.0 streams store the zero-based index of the last frame, 3.2.1 and
    # later store the frame count (index + 1).
    frames = p["last_keyframe"] + p["last_offset"] + (1 if p["vrev"] == 0 else 0)
    exp = {"fps": ("div", p["frn"], p["frd"]), "bitrate": p["nombr"],
           # mathematically frames * frd / frn; mutagen: frames / float(fps), fps = frn / float(frd)
           "length": ("div", frames, ("div", p["frn"], p["frd"]))}
    return data, exp


def _cases_oggtheora(rng, scale):
    out = []

    def add(frn, frd, shift, kf, off, nombr=0, vrev=1, **kw):
        d = {"frn": frn, "frd": frd, "kfgshift": shift, "last_keyframe": kf, "last_offset": off, "nombr": nombr,
             "vrev": vrev, "pic_w": 320, "pic_h": 240, "qual": 32, "pf": 0, "serial": 0x7468}
        d.update(kw)
        out.append(d)

    for frn, frd in [(24, 1), (25, 1), (30, 1), (30000, 1001), (24000, 1001), (60, 1), (15, 2), (1, 1), (2**32 - 1, 1),
                     (1, 2**32 - 1), (2**32 - 1, 2**32 - 1), (2**31, 3), (1000000, 33367)]:
        add(frn, frd, 6, rng.randint(1, 10**6), rng.randint(0, 63), rng.getrandbits(24))
    for shift in range(32):
        kf = rng.getrandbits(min(63 - shift, 30)) + 1
        off = rng.getrandbits(shift) if shift else 0
        add(25, 1, shift, kf, off, vrev=shift % 2)
        add(30000, 1001, shift, (1 << (63 - shift)) - 1, (1 << shift) - 1)
    for nb in _edges(24):
        add(25, 1, 6, 100, 3, nb)
    for vrev in (0, 1, 2, 255):
        add(25, 1, 6, 1000, 5, vrev=vrev)
    for pf in (0, 2, 3):
        add(25, 1, 6, 10, 0, pf=pf, qual=63, pic_w=1920, pic_h=1080)
    for _ in range(10 * scale):
        shift = rng.randint(0, 31)
        add(_rand_bits(rng, 32, 1), _rand_bits(rng, 32, 1), shift, _rand_bits(rng, 62 - shift, 1), rng.getrandbits(shift) if shift else 0,
            rng.getrandbits(24), vrev=rng.choice([0, 1, 1]), serial=rng.getrandbits(32))
    return out


def _flac_streaminfo(p):
    return (struct.pack(">HH", p["min_blocksize"], p["max_blocksize"]) + struct.pack(">I", p["min_framesize"])[1:] +
            struct.pack(">I", p["max_framesize"])[1:] +
            _BW().put(p["rate"], 20).put(p["channels"] - 1, 3).put(p["bits"] - 1, 5).put(p["total_samples"], 36).bytes() +
            bytes(range(16)))


@_builder("OggFLAC")
def build_oggflac(p):
    si = _flac_streaminfo(p)
    assert len(si) == 34
    ident = b"\x7fFLAC" + bytes([1, 0]) + struct.pack(">H", 1) + b"fLaC" + bytes([0]) + struct.pack(">I", 34)[1:] + si
    vc = _vcomment()
    comment = bytes([0x84]) + struct.pack(">I", len(vc))[1:] + vc
    data = _ogg_stream(p["serial"], ident, [comment], b"\xff\xf8" + _filler(12), _granules(p["last_granule"], p["pages"]))
    total = p["total_samples"] or p["last_granule"]               # 0 = unknown -> end granule of the stream
    exp = {"channels": p["channels"], "sample_rate": p["rate"], "bits_per_sample": p["bits"],
           "total_samples": p["total_samples"], "min_blocksize": p["min_blocksize"], "max_blocksize": p["max_blocksize"],
           "length": ("div", total, p["rate"])}                  # mutagen: total_samples / float(sample_rate)
    return data, exp


def _cases_oggflac(rng, scale):
    out = []

    def add(rate, ch, bits, total, last=None, minb=4096, maxb=4096, **kw):
        d = {"rate": rate, "channels": ch, "bits": bits, "total_samples": total, "min_blocksize": minb,
             "max_blocksize": maxb, "min_framesize": 14, "max_framesize": 9000,
             "last_granule": total if last is None else last, "serial": 0x464C, "pages": 2}
        d.update(kw)
        out.append(d)

    for r in [8000, 16000, 22050, 24000, 32000, 44100, 48000, 88200, 96000, 176400, 192000, 352800, 384000, 655350]:
        add(r, 2, 16, rng.randint(1, 10**9))
    for r in _edges(20, 1):
        add(r, 1, 16, 5000)
    for ch in range(1, 9):
        add(44100, ch, 16, 44100)
    for bits in range(4, 33):
        add(44100, 2, bits, 1000)
    for t in _edges(36):
        add(44100, 2, 16, t, last=t if t else 777)
    for g in _edges(63):
        add(48000, 2, 24, 0, last=g)                              # unknown total: length from the last page
    for mb in _edges(16, 16):
        add(44100, 2, 16, 100, minb=16, maxb=mb)
        add(44100, 2, 16, 100, minb=mb, maxb=65535)
    for fs in _edges(24):
        add(44100, 2, 16, 100, min_framesize=0, max_framesize=fs)
    for _ in range(10 * scale):
        add(_rand_bits(rng, 20, 1), rng.randint(1, 8), rng.randint(4, 32), _rand_bits(rng, 36), serial=rng.getrandbits(32),
            pages=rng.randint(1, 4))
    return out


# ==========================================================================
# MP4  (ISO/IEC 14496-12 boxes, 14496-14 esds, 14496-3 AudioSpecificConfig, ALAC cookie, ETSI dac3)

AAC_FREQS = [96000, 88200, 64000, 48000, 44100, 32000, 24000, 22050, 16000, 12000, 11025, 8000, 7350]
_AAC_CHANCFG = {1: 1, 2: 2, 3: 3, 4: 4, 5: 5, 6: 6, 7: 8, 11: 7, 12: 8, 14: 8}
_GA_AOTS = (1, 2, 3, 4, 6, 7, 17, 19, 20, 21, 22, 23)
_ER_AOTS = (17, 19, 20, 21, 22, 23, 24, 25, 26, 27, 39)


def _box(name, payload):
    return struct.pack(">I4s", 8 + len(payload), name) + payload


def _fullbox(name, version, flags, payload):
    return _box(name, struct.pack(">I", (version << 24) | flags) + payload)


def _descriptor(tag, payload, longform):
    n = len(payload)
    if longform:
        size = bytes([0x80 | ((n >> 21) & 0x7F), 0x80 | ((n >> 14) & 0x7F), 0x80 | ((n >> 7) & 0x7F), n & 0x7F])
    else:
        size = bytes([n & 0x7F])
        n >>= 7
        while n:
            size = bytes([0x80 | (n & 0x7F)]) + size
            n >>= 7
    return bytes([tag]) + size + payload


def _pce_bits(w, sf_index, front, side, back, lfe, object_type=1):
    """program_config_element(); front/side/back are strings of 'S' (SCE) / 'C' (CPE)."""
    w.put(0, 4).put(object_type, 2).put(sf_index, 4)
    w.put(len(front), 4).put(len(side), 4).put(len(back), 4).put(lfe, 2).put(0, 3).put(0, 4)
    w.put(0, 1).put(0, 1).put(0, 1)                              # no mono / stereo / matrix mixdown
    tag = 0
    for group in (front, side, back):
        for e in group:
            w.put(1 if e == "C" else 0, 1).put(tag & 15, 4)
            tag += 1
    for i in range(lfe):
        w.put(i, 4)
    w.align()
    w.put(0, 8)                                                  # comment_field_bytes
    return sum(2 if e == "C" else 1 for e in front + side + back) + lfe


def _put_aot(w, aot):
    if aot >= 32:
        w.put(31, 5).put(aot - 32, 6)
    else:
        w.put(aot, 5)


def _put_freq(w, index, explicit):
    w.put(index, 4)
    if index == 15:
        w.put(explicit, 24)


def _asc(p):
    """AudioSpecificConfig() -> (bytes, output_rate, channels)."""
    w = _BW()
    aot, core = p["aot"], p["aot"]
    rate = p["sf_explicit"] if p["sf_index"] == 15 else AAC_FREQS[p["sf_index"]]
    out_rate = rate
    ps = False
    _put_aot(w, aot)
    _put_freq(w, p["sf_index"], p["sf_explicit"])
    w.put(p["chan_config"], 4)
    if aot in (5, 29):                                           # hierarchical SBR / PS signalling
        _put_freq(w, p["ext_sf_index"], 0)
        out_rate = AAC_FREQS[p["ext_sf_index"]]
        ps = aot == 29
        core = p["core_aot"]
        _put_aot(w, core)
    channels = _AAC_CHANCFG.get(p["chan_config"], 0)
    if core in _GA_AOTS:                                         # GASpecificConfig()
        w.put(p["frame_length_flag"], 1)
        w.put(p["depends_on_core"], 1)
        if p["depends_on_core"]:
            w.put(1234, 14)
        ext_flag = 1 if core >= 17 else 0
        w.put(ext_flag, 1)
        if p["chan_config"] == 0:
            channels = _pce_bits(w, p["sf_index"] if p["sf_index"] < 13 else 4, p["pce_front"], p["pce_side"],
                                 p["pce_back"], p["pce_lfe"])
        if core in (6, 20):
            w.put(0, 3)                                          # layerNr
        if ext_flag:
            if core == 22:
                w.put(1, 5).put(0, 11)
            if core in (17, 19, 20, 23):
                w.put(0, 3)
            w.put(0, 1)                                          # extensionFlag3
    elif core in (32, 33, 34):                                   # MPEG_1_2_SpecificConfig()
        w.put(0, 1)
    if core in _ER_AOTS:
        w.put(0, 2)                                              # epConfig
    if p["sbr"] in ("bc", "bc_ps") and aot not in (5, 29):       # backward compatible explicit signalling
        w.put(0x2B7, 11).put(5, 5).put(1, 1)
        _put_freq(w, p["ext_sf_index"], 0)
        out_rate = AAC_FREQS[p["ext_sf_index"]]
        if p["sbr"] == "bc_ps":
            w.put(0x548, 11).put(1, 1)
            ps = True
    if ps and p["chan_config"] == 1:
        channels = 2                                             # parametric stereo: mono core, stereo output
    return w.bytes(), out_rate, channels


def _mp4_file(p, entry, entry_rate_hint=0):
    ts, dur = p["timescale"], p["duration"]
    if p["mdhd_version"] == 0:
        mdhd = _fullbox(b"mdhd", 0, 0, struct.pack(">IIIIHH", 0, 0, ts, dur, 0x55C4, 0))
    else:
        mdhd = _fullbox(b"mdhd", 1, 0, struct.pack(">QQIQHH", 0, 0, ts, dur, 0x55C4, 0))
    matrix = struct.pack(">9I", 0x10000, 0, 0, 0, 0x10000, 0, 0, 0, 0x40000000)
    d32 = min(dur, 0xFFFFFFFF)
    mvhd = _fullbox(b"mvhd", 0, 0, struct.pack(">IIIIIH", 0, 0, ts, d32, 0x10000, 0x100) + b"\x00" * 10 + matrix +
                    b"\x00" * 24 + struct.pack(">I", 2))
    tkhd = _fullbox(b"tkhd", 0, 7, struct.pack(">IIIII", 0, 0, 1, 0, d32) + b"\x00" * 8 + struct.pack(">HHHH", 0, 0, 0x100, 0) +
                    matrix + struct.pack(">II", 0, 0))
    hdlr = _fullbox(b"hdlr", 0, 0, struct.pack(">I4s", 0, b"soun") + b"\x00" * 12 + b"SoundHandler\x00")
    smhd = _fullbox(b"smhd", 0, 0, struct.pack(">HH", 0, 0))
    dinf = _box(b"dinf", _fullbox(b"dref", 0, 0, struct.pack(">I", 1) + _fullbox(b"url ", 0, 1, b"")))
    nsamp, ssize = 3, 32
    ftyp = _box(b"ftyp", b"M4A " + struct.pack(">I", 0) + b"M4A mp42isom")
    mdat = _box(b"mdat", _filler(nsamp * ssize))

    def moov(chunk_offset):
        stbl = _box(b"stbl",
                    _fullbox(b"stsd", 0, 0, struct.pack(">I", 1) + entry) +
                    _fullbox(b"stts", 0, 0, struct.pack(">III", 1, nsamp, max(1, d32 // nsamp))) +
                    _fullbox(b"stsc", 0, 0, struct.pack(">IIII", 1, 1, nsamp, 1)) +
                    _fullbox(b"stsz", 0, 0, struct.pack(">II", ssize, nsamp)) +
                    _fullbox(b"stco", 0, 0, struct.pack(">II", 1, chunk_offset)))
        minf = _box(b"minf", smhd + dinf + stbl)
        return _box(b"moov", mvhd + _box(b"trak", tkhd + _box(b"mdia", mdhd + hdlr + minf)))

    m = moov(0)
    m = moov(len(ftyp) + len(m) + 8)
    return ftyp + m + mdat


def _audio_entry(fourcc, channels, samplesize, rate, extra):
    r16 = rate if rate < 65536 else 0                            # 16.16 fixed point cannot hold more
    return _box(fourcc, b"\x00" * 6 + struct.pack(">H", 1) + b"\x00" * 8 +
                struct.pack(">HHHHI", channels, samplesize, 0, 0, r16 << 16) + extra)


@_builder("MP4_AAC")
def build_mp4_aac(p):
    oti = p["oti"]
    if oti == 0x40:
        asc, rate, channels = _asc(p)
        dsi = _descriptor(5, asc, p["long_desc"])
    else:                                                        # e.g. 0x6B MPEG-1 audio, 0x69 MPEG-2 audio
        dsi, rate, channels = b"", p["entry_rate"], p["entry_channels"]
    dcd = _descriptor(4, bytes([oti, (5 << 2) | 1]) + struct.pack(">I", p["buffer_size"])[1:] +
                      struct.pack(">II", p["max_bitrate"], p["avg_bitrate"]) + dsi, p["long_desc"])
    esd = _descriptor(3, struct.pack(">HB", 0, 0) + dcd + _descriptor(6, b"\x02", p["long_desc"]), p["long_desc"])
    entry = _audio_entry(b"mp4a", channels if p["entry_follows"] else p["entry_channels"], 16,
                         rate if p["entry_follows"] else p["entry_rate"], _fullbox(b"esds", 0, 0, esd))
    data = _mp4_file(p, entry)
    exp = {"length": ("div", p["duration"], p["timescale"]),     # mutagen: float(length) / unit
           "bitrate": p["avg_bitrate"], "bits_per_sample": 16,
           "sample_rate": rate, "channels": channels,
           # RFC 6381: mp4a.<OTI hex>[.<audio object type decimal>]
           "codec": ("mp4a.%X.%d" % (oti, p["aot"])) if oti == 0x40 else "mp4a.%X" % oti}
    return data, exp


def _cases_mp4_aac(rng, scale):
    out = []

    def add(aot=2, sfi=4, cc=2, sbr="none", **kw):
        d = {"oti": 0x40, "aot": aot, "core_aot": 2, "sf_index": sfi, "sf_explicit": 0, "chan_config": cc, "sbr": sbr,
             "ext_sf_index": max(0, sfi - 3) if sfi < 13 else 3, "frame_length_flag": 0, "depends_on_core": 0,
             "pce_front": "", "pce_side": "", "pce_back": "", "pce_lfe": 0,
             "avg_bitrate": 128000, "max_bitrate": 160000, "buffer_size": 6144, "long_desc": 0,
             "timescale": AAC_FREQS[sfi] if sfi < 13 else 44100, "duration": rng.randint(1, 10**8), "mdhd_version": 0,
             "entry_follows": 1, "entry_channels": 2, "entry_rate": 44100}
        d.update(kw)
        out.append(d)

    for sfi in range(13):
        for aot in (2, rng.choice([1, 3, 4, 6, 17, 19, 20, 23])):
            add(aot, sfi, rng.choice([1, 2, 6]))
    for cc in (1, 2, 3, 4, 5, 6, 7, 11, 12, 14):
        add(2, 3, cc, long_desc=cc & 1)
    for aot in (1, 2, 3, 4, 6, 7, 17, 19, 20, 21, 22, 23, 32, 33, 34):
        add(aot, 4, 2)
    for sfi in range(3, 13):                                     # explicit hierarchical HE-AAC / HE-AAC v2
        add(5, sfi, 2)
        add(29, sfi, 1)
    for sfi in range(6, 13):                                     # backward compatible signalling
        add(2, sfi, 2, "bc")
        add(2, sfi, 1, "bc_ps")
    for f in [1, 7350, 8000, 44100, 96000, 192000, 2**24 - 1]:   # escape: explicit 24 bit frequency
        add(2, 15, 2, sf_explicit=f, timescale=min(f, 2**32 - 1))
    for front, side, back, lfe in [("S", "", "", 0), ("C", "", "", 0), ("SC", "", "C", 1), ("SC", "C", "C", 1), ("SCC", "", "CS", 2)]:
        add(2, 3, 0, pce_front=front, pce_side=side, pce_back=back, pce_lfe=lfe)
    for br in _edges(32):
        add(avg_bitrate=br, max_bitrate=br)
    for dur in _edges(32):
        add(duration=dur)
    for dur in _edges(64, 0, 2**64 - 2):
        add(duration=dur, mdhd_version=1)
    for ts in _edges(32, 1):
        add(timescale=ts)
    add(depends_on_core=1)
    add(frame_length_flag=1)
    add(2, 4, 2, entry_follows=0, entry_channels=2, entry_rate=44100)
    add(2, 3, 6, entry_follows=0, entry_channels=2, entry_rate=44100)   # 14496-14: entry fields are not authoritative
    for oti in (0x6B, 0x69, 0x66, 0x67, 0x68):
        add(oti=oti, entry_follows=0, entry_channels=rng.choice([1, 2]), entry_rate=rng.choice([32000, 44100, 48000]))
    for _ in range(10 * scale):
        add(rng.choice([1, 2, 2, 2, 3, 4, 6, 17, 19, 20, 23]), rng.randint(0, 12), rng.randint(1, 7), avg_bitrate=rng.getrandbits(32),
            long_desc=rng.randint(0, 1), duration=_rand_bits(rng, 32), timescale=_rand_bits(rng, 32, 1))
    return out


@_builder("MP4_ALAC")
def build_mp4_alac(p):
    cookie = struct.pack(">IBBBBBBHIII", p["frame_length"], 0, p["bit_depth"], 40, 10, 14, p["channels"], 255,
                         p["max_frame_bytes"], p["avg_bitrate"], p["rate"])
    entry = _audio_entry(b"alac", p["entry_channels"], p["entry_bits"], p["entry_rate"], _fullbox(b"alac", 0, 0, cookie))
    data = _mp4_file(p, entry)
    exp = {"length": ("div", p["duration"], p["timescale"]), "codec": "alac",
           "channels": p["channels"], "bits_per_sample": p["bit_depth"], "sample_rate": p["rate"], "bitrate": p["avg_bitrate"]}
    return data, exp


def _cases_mp4_alac(rng, scale):
    out = []

    def add(rate=44100, ch=2, depth=16, br=800000, **kw):
        d = {"frame_length": 4096, "bit_depth": depth, "channels": ch, "max_frame_bytes": 0, "avg_bitrate": br, "rate": rate,
             "entry_channels": ch, "entry_bits": depth, "entry_rate": rate if rate < 65536 else 0,
             "timescale": rate, "duration": rng.randint(1, 10**8), "mdhd_version": 0}
        d.update(kw)
        out.append(d)

    for r in STD_RATES:
        add(r)
    for r in _edges(32, 1):
        add(r)
    for depth in (16, 20, 24, 32):
        for ch in range(1, 9):
            add(48000, ch, depth)
    for br in _edges(32):
        add(br=br)
    add(96000, 6, 24, entry_channels=2, entry_bits=16, entry_rate=44100)   # cookie is authoritative
    for fl in (1, 4096, 2**32 - 1):
        add(frame_length=fl)
    for dur in _edges(64, 0, 2**64 - 2)[::3]:
        add(duration=dur, mdhd_version=1)
    for _ in range(8 * scale):
        add(rng.choice(STD_RATES), rng.randint(1, 8), rng.choice([16, 20, 24, 32]), rng.getrandbits(32))
    return out


AC3_FSCOD = [48000, 44100, 32000]
AC3_BITRATES = [32, 40, 48, 56, 64, 80, 96, 112, 128, 160, 192, 224, 256, 320, 384, 448, 512, 576, 640]
AC3_NFCHANS = [2, 1, 2, 3, 3, 4, 4, 5]                           # acmod -> number of full bandwidth channels


@_builder("MP4_AC3")
def build_mp4_ac3(p):
    dac3 = _BW().put(p["fscod"], 2).put(p["bsid"], 5).put(p["bsmod"], 3).put(p["acmod"], 3).put(p["lfeon"], 1) \
                .put(p["bit_rate_code"], 5).put(0, 5).bytes()
    rate = AC3_FSCOD[p["fscod"]]
    entry = _audio_entry(b"ac-3", 2, 16, rate, _box(b"dac3", dac3))
    data = _mp4_file(p, entry)
    exp = {"length": ("div", p["duration"], p["timescale"]), "codec": "ac-3", "sample_rate": rate,
           "channels": AC3_NFCHANS[p["acmod"]] + p["lfeon"], "bitrate": AC3_BITRATES[p["bit_rate_code"]] * 1000,
           "bits_per_sample": 16}
    return data, exp


def _cases_mp4_ac3(rng, scale):
    out = []

    def add(fscod, acmod, lfeon, brc, **kw):
        d = {"fscod": fscod, "bsid": 8, "bsmod": 0, "acmod": acmod, "lfeon": lfeon, "bit_rate_code": brc,
             "timescale": AC3_FSCOD[fscod], "duration": rng.randint(1, 10**8), "mdhd_version": 0}
        d.update(kw)
        out.append(d)

    for brc in range(19):
        for fscod in range(3):
            add(fscod, rng.randint(0, 7), rng.randint(0, 1), brc)
    for acmod in range(8):
        for lfe in (0, 1):
            add(0, acmod, lfe, 15)
    for bsid in (4, 6, 8):
        add(0, 7, 1, 14, bsid=bsid, bsmod=rng.randint(0, 7))
    for _ in range(5 * scale):
        add(rng.randint(0, 2), rng.randint(0, 7), rng.randint(0, 1), rng.randint(0, 18), duration=_rand_bits(rng, 32),
            timescale=_rand_bits(rng, 32, 1))
    return out


# ==========================================================================
# ASF  (Advanced Systems Format specification 1.20.03)

def _guid(s):
    return (struct.pack("<IHH", int(s[:8], 16), int(s[9:13], 16), int(s[14:18], 16)) +
            bytes.fromhex(s[19:23]) + bytes.fromhex(s[24:]))


_ASF_HEADER = _guid("75B22630-668E-11CF-A6D9-00AA0062CE6C")
_ASF_FILE_PROPS = _guid("8CABDCA1-A947-11CF-8EE4-00C00C205365")
_ASF_STREAM_PROPS = _guid("B7DC0791-A9B7-11CF-8EE6-00C00C205365")
_ASF_HEADER_EXT = _guid("5FBF03B5-A92E-11CF-8EE3-00C00C205365")
_ASF_RESERVED_1 = _guid("ABD3D211-A9BA-11CF-8EE6-00C00C205365")
_ASF_DATA = _guid("75B22636-668E-11CF-A6D9-00AA0062CE6C")
_ASF_AUDIO_MEDIA = _guid("F8699E40-5B4D-11CF-A8FD-00805F5C442B")
_ASF_VIDEO_MEDIA = _guid("BC19EFC0-5B4D-11CF-A8FD-00805F5C442B")
_ASF_NO_EC = _guid("20FB5700-5B55-11CF-A8FD-00805F5C442B")
_ASF_AUDIO_SPREAD = _guid("BFC3CD50-618F-11CF-8BB2-00AA00B4E220")


def _asf_obj(guid, payload):
    return guid + struct.pack("<Q", 24 + len(payload)) + payload


@_builder("ASF")
def build_asf(p):
    file_id = bytes(range(16))
    extra = _filler(p["codec_extra"])
    wfx = struct.pack("<HHIIHHH", p["format_tag"], p["channels"], p["rate"], p["avg_bytes"], p["block_align"], p["bits"],
                      len(extra)) + extra
    if p["error_correction"]:
        ec_guid, ec = _ASF_AUDIO_SPREAD, struct.pack("<BHHH", 1, p["block_align"], p["block_align"], 0)
    else:
        ec_guid, ec = _ASF_NO_EC, b""
    audio = _asf_obj(_ASF_STREAM_PROPS, _ASF_AUDIO_MEDIA + ec_guid + struct.pack("<QIIHI", 0, len(wfx), len(ec), p["stream_number"], 0) + wfx + ec)
    bih = struct.pack("<IiiHH4sIiiII", 40, p["video_width"], p["video_height"], 1, 24, b"WMV3", 0, 0, 0, 0, 0)
    vdata = struct.pack("<IIBH", p["video_width"], p["video_height"], 2, len(bih)) + bih
    video = _asf_obj(_ASF_STREAM_PROPS, _ASF_VIDEO_MEDIA + _ASF_NO_EC + struct.pack("<QIIHI", 0, len(vdata), 0, p["stream_number"] % 127 + 1, 0) + vdata)
    ext = _asf_obj(_ASF_HEADER_EXT, _ASF_RESERVED_1 + struct.pack("<HI", 6, 0))
    data_obj = _asf_obj(_ASF_DATA, file_id + struct.pack("<QH", 0, 0x0101))
    streams = {"audio": [audio], "audio-video": [audio, video], "video-audio": [video, audio]}[p["streams"]]

    def header(file_size):
        fp = _asf_obj(_ASF_FILE_PROPS, file_id + struct.pack("<QQQQQQIIII", file_size, 0, 0, p["play_duration"], p["play_duration"],
                                                            p["preroll"], 2, 3200, 3200, p["avg_bytes"] * 8 & 0xFFFFFFFF))
        objs = [fp] + streams + [ext]
        body = b"".join(objs)
        return _ASF_HEADER + struct.pack("<QIBB", 30 + len(body), len(objs), 1, 2) + body

    h = header(0)
    data = header(len(h) + len(data_obj)) + data_obj
    exp = {"channels": p["channels"], "sample_rate": p["rate"],
           "bitrate": p["avg_bytes"] * 8}                         # nAvgBytesPerSec of the audio stream
    # Play Duration is in 100 ns units and includes the preroll (ms)
    if p["preroll"] == 0:
        exp["length"] = ("div", p["play_duration"], 10000000)
    else:
        # mathematically (play - preroll * 10000) / 1e7; mutagen: max(play / 1e7 - preroll / 1e3, 0.0)
        exp["length"] = ("max", ("sub", ("div", p["play_duration"], 10000000), ("div", p["preroll"], 1000)), 0.0)
    return data, exp


def _cases_asf(rng, scale):
    out = []

    def add(ch=2, rate=44100, avg=16000, play=10**9, preroll=0, **kw):
        d = {"format_tag": 0x161, "channels": ch, "rate": rate, "avg_bytes": avg, "block_align": 2230, "bits": 16,
             "codec_extra": 10, "error_correction": 1, "stream_number": 1, "play_duration": play, "preroll": preroll,
             "streams": "audio", "video_width": 640, "video_height": 480}
        d.update(kw)
        out.append(d)

    for r in STD_RATES:
        add(rng.choice([1, 2]), r, rng.choice([4000, 8000, 16000, 24000, 40000]), rng.randint(1, 10**11))
    for ch in _edges(16, 1):
        add(ch=ch)
    for r in _edges(32, 1):
        add(rate=r)
    for avg in _edges(32):
        add(avg=avg)
    for play in _edges(64):
        add(play=play)
    for pre in [1, 2, 1000, 3000, 3123, 2**16, 2**32 - 1]:
        add(play=max(10**9, pre * 10000 + 12345678), preroll=pre)
    add(play=31230000, preroll=3123)
    for tag, bits, extra in [(0x160, 16, 4), (0x161, 16, 10), (0x162, 24, 18), (0x163, 24, 18), (0x1, 16, 0), (0x55, 0, 12)]:
        add(format_tag=tag, bits=bits, codec_extra=extra, error_correction=tag != 1)
    for sn in (1, 2, 127):
        add(stream_number=sn)
    add(streams="audio-video", rate=48000, ch=2)
    add(streams="video-audio", rate=48000, ch=2)
    add(streams="audio-video", rate=44100, ch=6, video_width=1920, video_height=1080)
    for _ in range(10 * scale):
        pre = rng.choice([0, 0, rng.randint(1, 5000)])
        add(rng.randint(1, 8), rng.choice(STD_RATES), rng.getrandbits(24), pre * 10000 + _rand_bits(rng, 48), pre)
    return out


# ==========================================================================
# ADTS AAC  (ISO/IEC 13818-7 / 14496-3 adts_frame())

@_builder("AAC_ADTS")
def build_adts(p):
    nblocks = p["nordbif"] + 1
    crc_bytes = 0
    if not p["protection_absent"]:
        crc_bytes = 2 if nblocks == 1 else 2 * (nblocks - 1) + 2 + 2 * nblocks
    data = b""
    for i in range(p["frames"]):
        flen = p["frame_length"] + (p["length_jitter"] * (i % 3) if p["length_jitter"] else 0)
        payload_len = flen - 7 - crc_bytes
        assert payload_len >= 1
        raw = _BW()
        if p["chan_config"] == 0:                                # channel layout travels in-band in a PCE
            raw.put(5, 3)                                        # ID_PCE
            _pce_bits(raw, p["sf_index"], p["pce_front"], p["pce_side"], p["pce_back"], p["pce_lfe"], p["profile"])
        raw.put(7, 3)                                            # ID_END
        raw = raw.bytes()
        payload = (raw + _filler(payload_len, i))[:payload_len]
        w = _BW()
        w.put(0xFFF, 12).put(p["id"], 1).put(0, 2).put(p["protection_absent"], 1)
        w.put(p["profile"], 2).put(p["sf_index"], 4).put(p["private_bit"], 1).put(p["chan_config"], 3)
        w.put(p["original"], 1).put(p["home"], 1)
        w.put(0, 1).put(0, 1).put(flen, 13).put(p["buffer_fullness"], 11).put(p["nordbif"], 2)
        hdr = w.bytes()
        assert len(hdr) == 7
        if crc_bytes:
            # best effort: CRC over header + payload; positions for the multi-block form
            crc = struct.pack(">H", _crc16(hdr + payload, 0xFFFF))
            if nblocks == 1:
                frame = hdr + crc + payload
            else:
                pos = b"".join(struct.pack(">H", (payload_len // nblocks) * k) for k in range(1, nblocks))
                frame = hdr + pos + crc + payload + crc * nblocks
        else:
            frame = hdr + payload
        assert len(frame) == flen, (len(frame), flen)
        data += frame
    channels = _AAC_CHANCFG[p["chan_config"]] if p["chan_config"] else \
        sum(2 if e == "C" else 1 for e in p["pce_front"] + p["pce_side"] + p["pce_back"]) + p["pce_lfe"]
    exp = {"sample_rate": AAC_FREQS[p["sf_index"]], "channels": channels}
    # no duration / bitrate field exists in ADTS; see params["spec_total_samples"]
    return data, exp


def _cases_adts(rng, scale):
    out = []

    def add(sfi, cc, frames=5, flen=200, **kw):
        d = {"id": 0, "profile": 1, "sf_index": sfi, "chan_config": cc, "protection_absent": 1, "nordbif": 0,
             "frame_length": flen, "length_jitter": 0, "frames": frames, "private_bit": 0, "original": 0, "home": 0,
             "buffer_fullness": 0x7FF, "pce_front": "", "pce_side": "", "pce_back": "", "pce_lfe": 0}
        d.update(kw)
        d["spec_total_samples"] = d["frames"] * (d["nordbif"] + 1) * 1024
        out.append(d)

    for sfi in range(13):
        for cc in range(1, 8):
            add(sfi, cc, rng.randint(3, 12), rng.randint(40, 700), id=rng.randint(0, 1))
    for prof in range(4):
        for id_ in (0, 1):
            if not (id_ == 1 and prof == 3):                     # profile 3 is reserved in MPEG-2
                add(4, 2, profile=prof, id=id_)
    for n in range(4):
        for pa in (0, 1):
            add(4, 2, nordbif=n, protection_absent=pa, flen=300)
    for flen in [8, 9, 16, 255, 256, 4095, 4096, 8190, 8191]:
        add(3, 2, 3, flen)
    for frames in (3, 4, 99, 100, 101, 150):
        add(4, 2, frames, 64)
    for bf in _edges(11):
        add(4, 1, buffer_fullness=bf)
    add(4, 2, private_bit=1, original=1, home=1)
    add(4, 2, 9, 100, length_jitter=17)
    for front, side, back, lfe in [("S", "", "", 0), ("C", "", "", 0), ("SC", "", "C", 1)]:
        add(4, 0, pce_front=front, pce_side=side, pce_back=back, pce_lfe=lfe)
    for _ in range(10 * scale):
        add(rng.randint(0, 12), rng.randint(1, 7), rng.randint(3, 30), rng.randint(20, 2000), id=rng.randint(0, 1),
            profile=rng.randint(0, 2), protection_absent=rng.randint(0, 1), nordbif=rng.choice([0, 0, 0, 1, 2, 3]),
            buffer_fullness=rng.getrandbits(11))
    return out


# ==========================================================================
# AC-3 / E-AC-3  (ATSC A/52:2018, ETSI TS 102 366: syncinfo() + bsi())

def _ac3_words(fscod, frmsizecod):
    br = AC3_BITRATES[frmsizecod >> 1]
    if fscod == 0:
        return br * 2
    if fscod == 2:
        return br * 3
    return br * 1000 * 96 // 44100 + (frmsizecod & 1)             # table 5.18, 44.1 kHz column


@_builder("AC3")
def build_ac3(p):
    acmod = p["acmod"]
    w = _BW()
    w.put(0x0B77, 16).put(0, 16).put(p["fscod"], 2).put(p["frmsizecod"], 6)
    w.put(p["bsid"], 5).put(p["bsmod"], 3).put(acmod, 3)
    if (acmod & 1) and acmod != 1:
        w.put(p["cmixlev"], 2)
    if acmod & 4:
        w.put(p["surmixlev"], 2)
    if acmod == 2:
        w.put(p["dsurmod"], 2)
    w.put(p["lfeon"], 1)
    for _ in range(2 if acmod == 0 else 1):
        w.put(p["dialnorm"], 5)
        w.put(p["compre"], 1)
        if p["compre"]:
            w.put(0x55, 8)
        w.put(p["langcode"], 1)
        if p["langcode"]:
            w.put(0xFF, 8)
        w.put(p["audprodie"], 1)
        if p["audprodie"]:
            w.put(20, 5).put(1, 2)
    w.put(1, 1).put(1, 1)                                        # copyrightb, origbs
    w.put(0, 1).put(0, 1)                                        # timecod1e / timecod2e (xbsi1e / xbsi2e for bsid 6)
    w.put(0, 1)                                                  # addbsie
    head = w.bytes()
    nbytes = _ac3_words(p["fscod"], p["frmsizecod"]) * 2
    data = b""
    for i in range(p["frames"]):
        frame = bytearray(head + _filler(nbytes - len(head), i))
        n58 = ((nbytes >> 2) + (nbytes >> 4)) << 1                # first 5/8 of the frame
        frame[n58 - 2:n58] = struct.pack(">H", _crc16(bytes(frame[2:n58 - 2])))   # makes crc1 (= 0) check out
        frame[-2:] = struct.pack(">H", _crc16(bytes(frame[2:-2])))                # crc2
        data += bytes(frame)
    exp = {"codec": "ac-3", "sample_rate": AC3_FSCOD[p["fscod"]],
           "bitrate": AC3_BITRATES[p["frmsizecod"] >> 1] * 1000,
           "channels": AC3_NFCHANS[acmod] + p["lfeon"]}
    return data, exp


def _cases_ac3(rng, scale):
    out = []

    def add(fscod, fsc, acmod, lfeon, **kw):
        d = {"fscod": fscod, "frmsizecod": fsc, "bsid": 8, "bsmod": 0, "acmod": acmod, "lfeon": lfeon,
             "cmixlev": rng.randint(0, 2), "surmixlev": rng.randint(0, 2), "dsurmod": rng.randint(0, 2),
             "dialnorm": rng.randint(1, 31), "compre": 0, "langcode": 0, "audprodie": 0, "frames": 2}
        d.update(kw)
        d["spec_total_samples"] = d["frames"] * 1536
        out.append(d)

    for fscod in range(3):
        for fsc in range(38):
            add(fscod, fsc, rng.randint(0, 7), rng.randint(0, 1))
    for acmod in range(8):
        for lfe in (0, 1):
            for dn in (1, 7, 8, 15, 16, 24, 31):                 # dialnorm bits follow lfeon directly
                add(0, 20, acmod, lfe, dialnorm=dn, cmixlev=dn % 3, surmixlev=(dn // 3) % 3)
    for bsid in range(0, 9):
        add(0, 30, 7, 1, bsid=bsid, bsmod=rng.randint(0, 7))
    for compre, lang, prod in [(1, 0, 0), (0, 1, 0), (0, 0, 1), (1, 1, 1)]:
        add(1, 12, 2, 0, compre=compre, langcode=lang, audprodie=prod)
        add(1, 12, 0, 0, compre=compre, langcode=lang, audprodie=prod)
    for frames in (1, 3, 10):
        add(2, 8, 2, 0, frames=frames)
    for _ in range(10 * scale):
        add(rng.randint(0, 2), rng.randint(0, 37), rng.randint(0, 7), rng.randint(0, 1), compre=rng.randint(0, 1),
            langcode=rng.randint(0, 1), audprodie=rng.randint(0, 1), bsid=rng.choice([8, 8, 6, 4]))
    return out


EAC3_BLOCKS = [1, 2, 3, 6]


@_builder("EAC3")
def build_eac3(p):
    acmod = p["acmod"]
    w = _BW()
    w.put(0x0B77, 16).put(p["strmtyp"], 2).put(p["substreamid"], 3).put(p["frmsiz"], 11)
    w.put(p["fscod"], 2)
    if p["fscod"] == 3:
        w.put(p["fscod2"], 2)
        numblks, rate = 6, AC3_FSCOD[p["fscod2"]] // 2
    else:
        w.put(p["numblkscod"], 2)
        numblks, rate = EAC3_BLOCKS[p["numblkscod"]], AC3_FSCOD[p["fscod"]]
    w.put(acmod, 3).put(p["lfeon"], 1).put(p["bsid"], 5)
    for _ in range(2 if acmod == 0 else 1):
        w.put(p["dialnorm"], 5).put(p["compre"], 1)
        if p["compre"]:
            w.put(0x55, 8)
    w.put(0, 1)                                                  # mixmdate
    w.put(p["infomdate"], 1)
    if p["infomdate"]:
        w.put(0, 3).put(1, 1).put(1, 1)                          # bsmod, copyrightb, origbs
        if acmod == 2:
            w.put(0, 2).put(0, 2)
        if acmod >= 6:
            w.put(0, 2)
        for _ in range(2 if acmod == 0 else 1):
            w.put(0, 1)                                          # audprodie
        if p["fscod"] < 3:
            w.put(0, 1)                                          # sourcefscod
    if p["strmtyp"] == 0 and numblks != 6:
        w.put(0, 1)                                              # convsync
    if p["strmtyp"] == 2:
        blkid = 1 if numblks == 6 else 0
        if numblks != 6:
            w.put(blkid, 1)
        if blkid:
            w.put(20, 6)                                         # frmsizecod
    w.put(0, 1)                                                  # addbsie
    head = w.bytes()
    nbytes = (p["frmsiz"] + 1) * 2
    data = b""
    for i in range(p["frames"]):
        frame = bytearray(head + _filler(nbytes - len(head), i))
        frame[-2:] = struct.pack(">H", _crc16(bytes(frame[2:-2])))
        data += bytes(frame)
    exp = {"codec": "ec-3", "sample_rate": rate, "channels": AC3_NFCHANS[acmod] + p["lfeon"]}
    # data rate of the substream: frame bits per (numblks * 256 / rate) seconds; only claimed when integral
    if (nbytes * 8 * rate) % (numblks * 256) == 0:
        exp["bitrate"] = nbytes * 8 * rate // (numblks * 256)
    return data, exp


def _cases_eac3(rng, scale):
    out = []

    def add(fscod, nbc, acmod, lfeon, frmsiz=383, **kw):
        d = {"strmtyp": 0, "substreamid": 0, "frmsiz": frmsiz, "fscod": fscod, "fscod2": 0, "numblkscod": nbc,
             "acmod": acmod, "lfeon": lfeon, "bsid": 16, "dialnorm": rng.randint(1, 31), "compre": 0, "infomdate": 0,
             "frames": 2}
        d.update(kw)
        blocks = 6 if fscod == 3 else EAC3_BLOCKS[nbc]
        d["spec_total_samples"] = d["frames"] * blocks * 256
        out.append(d)

    for fscod in range(3):
        for nbc in range(4):
            for strmtyp in (0, 2):
                add(fscod, nbc, rng.randint(0, 7), rng.randint(0, 1), rng.choice([95, 191, 383, 767, 1535]), strmtyp=strmtyp)
    for f2 in range(3):
        for acmod in (1, 2, 7):
            add(3, 0, acmod, rng.randint(0, 1), fscod2=f2)
    for acmod in range(8):
        for lfe in (0, 1):
            add(0, 3, acmod, lfe, infomdate=acmod & 1, compre=lfe)
    for fs in [31, 63, 64, 127, 128, 255, 1023, 1024, 2046, 2047]:
        add(0, 3, 2, 0, fs)
    for bsid in (11, 12, 13, 14, 15, 16):
        add(0, 3, 2, 0, bsid=bsid)
    for sid in (0, 1, 7):
        add(0, 3, 2, 0, substreamid=sid)
    for _ in range(10 * scale):
        add(rng.randint(0, 2), rng.randint(0, 3), rng.randint(0, 7), rng.randint(0, 1), rng.randint(31, 2047),
            strmtyp=rng.choice([0, 0, 2]), compre=rng.randint(0, 1), infomdate=rng.randint(0, 1))
    return out


# ==========================================================================
# public entry point

_CASE_FUNCS = [
    ("AIFF", _cases_aiff), ("WAVE", _cases_wave), ("DSF", _cases_dsf), ("DSDIFF", _cases_dsdiff), ("TTA", _cases_tta),
    ("WavPack", _cases_wavpack), ("APE", _cases_ape), ("APE_OLD", _cases_ape_old), ("OptimFROG", _cases_optimfrog),
    ("MPC_SV7", _cases_mpc7), ("MPC_SV8", _cases_mpc8), ("TAK", _cases_tak),
    ("OggVorbis", _cases_oggvorbis), ("OggOpus", _cases_oggopus), ("OggSpeex", _cases_oggspeex),
    ("OggTheora", _cases_oggtheora), ("OggFLAC", _cases_oggflac),
    ("MP4_AAC", _cases_mp4_aac), ("MP4_ALAC", _cases_mp4_alac), ("MP4_AC3", _cases_mp4_ac3), ("ASF", _cases_asf),
    ("AAC_ADTS", _cases_adts), ("AC3", _cases_ac3), ("EAC3", _cases_eac3),
]


def cases(rng, thorough):
    """Generator of (kind, params, data, expect).

    The systematic part (every table row, bit-width extremes) is the same in both modes; thorough=True
    multiplies the random part so that the total is roughly 10x the quick run.
    BUILDERS[kind](params) reproduces (data, expect)."""
    scale = 80 if thorough else 1
    for kind, fn in _CASE_FUNCS:
        build = BUILDERS[kind]
        for params in fn(rng, scale):
            data, expect = build(params)
            yield kind, params, data, expect


# ==========================================================================
# self test against the real mutagen

def _selftest(thorough=False):
    import importlib
    import io
    import random
    import traceback
    from collections import OrderedDict

    import mutagen

    stats = OrderedDict()
    problems = OrderedDict()
    notes = OrderedDict()
    classes = {}
    for kind, path in KINDS.items():
        mod, name = path.rsplit(".", 1)
        classes[kind] = getattr(importlib.import_module(mod), name)

    for kind, params, data, expect in cases(random.Random(20260930), thorough):
        st = stats.setdefault(kind, {"cases": 0, "loaded": 0, "matched": 0})
        st["cases"] += 1
        assert BUILDERS[kind](params)[0] == data, "builder not deterministic"
        try:
            obj = classes[kind](io.BytesIO(data))
        except mutagen.MutagenError as e:
            problems.setdefault(kind, []).append("LOAD-FAIL %s: %s | %r" % (type(e).__name__, e, params))
            continue
        except Exception as e:
            tb = traceback.extract_tb(e.__traceback__)[-1]
            problems.setdefault(kind, []).append("EXCEPTION %s: %s (%s:%s) | %r" % (
                type(e).__name__, e, tb.filename.rsplit("/", 1)[-1], tb.lineno, params))
            continue
        st["loaded"] += 1
        bad = []
        for attr, ev in sorted(expect.items()):
            want = evaluate(ev)
            got = getattr(obj.info, attr, "<missing>")
            if got != want or isinstance(got, str) != isinstance(want, str):
                bad.append("%s: got %r want %r %s" % (attr, got, want, ev if isinstance(ev, tuple) else ""))
            elif isinstance(got, bool):
                notes.setdefault(kind, set()).add("%s is a bool (%r) instead of an int" % (attr, got))
        if bad:
            problems.setdefault(kind, []).append("MISMATCH " + "; ".join(bad) + " | %r" % (params,))
        else:
            st["matched"] += 1

    print("%-10s %6s %6s %7s" % ("kind", "cases", "loaded", "matched"))
    for kind, st in stats.items():
        print("%-10s %6d %6d %7d" % (kind, st["cases"], st["loaded"], st["matched"]))
    print("total      %6d %6d %7d" % tuple(sum(s[k] for s in stats.values()) for k in ("cases", "loaded", "matched")))
    for kind, lines in problems.items():
        print("\n== %s: %d problem case(s)" % (kind, len(lines)))
        for line in lines:
            print("  " + line)
    for kind, ns in notes.items():
        for n in sorted(ns):
            print("\nnote %s: %s" % (kind, n))


if __name__ == "__main__":
    import sys
    _selftest("thorough" in sys.argv[1:])
