"""id3spec.py — an independent reading of the ID3v2.2/2.3/2.4 and ID3v1 specifications
(does not import mutagen): tag walker and decoders for the common frame kinds."""
import struct, zlib


def syncsafe(b):
    return (b[0] << 21) | (b[1] << 14) | (b[2] << 7) | b[3]


def is_syncsafe(b):
    return all(x < 0x80 for x in b)


def deunsync(b):
    return b.replace(b"\xff\x00", b"\xff")


class Tag(object):
    def __init__(self):
        self.version = None; self.flags = 0; self.size = 0
        self.frames = []          # (id, flags, body bytes)
        self.padding = 0
        self.errors = []


def walk_tag(data, off=0):
    t = Tag()
    if data[off:off + 3] != b"ID3":
        t.errors.append("no ID3 header"); return t
    t.version = (data[off + 3], data[off + 4]); t.flags = data[off + 5]
    if not is_syncsafe(data[off + 6:off + 10]):
        t.errors.append("tag size not syncsafe")
    t.size = syncsafe(data[off + 6:off + 10])
    body = data[off + 10:off + 10 + t.size]
    if len(body) != t.size:
        t.errors.append("tag size exceeds the file")
    ver = t.version[0]
    if t.flags & 0x80 and ver < 4:
        body = deunsync(body)
    pos = 0
    if t.flags & 0x40 and ver == 3:
        pos = 4 + struct.unpack(">L", body[:4])[0]
    elif t.flags & 0x40 and ver == 4:
        pos = syncsafe(body[:4])
    hl = 6 if ver == 2 else 10
    while pos + hl <= len(body) and body[pos] != 0:
        if ver == 2:
            fid = body[pos:pos + 3]; size = int.from_bytes(body[pos + 3:pos + 6], "big"); fl = 0
        else:
            fid = body[pos:pos + 4]
            raw = body[pos + 4:pos + 8]
            fl = struct.unpack(">H", body[pos + 8:pos + 10])[0]
            if ver == 4:
                if not is_syncsafe(raw):
                    t.errors.append("frame %r: size not syncsafe" % fid)
                size = syncsafe(raw)
            else:
                size = struct.unpack(">L", raw)[0]
        if not all(48 <= c <= 57 or 65 <= c <= 90 for c in fid):
            t.errors.append("bad frame id %r" % fid); break
        if pos + hl + size > len(body):
            t.errors.append("frame %r overruns the tag" % fid); break
        t.frames.append((fid.decode("ascii"), fl, body[pos + hl:pos + hl + size]))
        pos += hl + size
    t.padding = len(body) - pos
    if body[pos:].strip(b"\0"):
        t.errors.append("garbage after the last frame")
    return t


def frame_payload(ver, flags, body, tag_unsync=False):
    """undo v2.3 / v2.4 frame-level transformations"""
    if ver == 4:
        if flags & 0x0001 or flags & 0x0008:      # data length indicator / compression imply 4 bytes
            body = body[4:] if (flags & 0x0001 or flags & 0x0008) else body
        if flags & 0x0002 or tag_unsync:
            body = deunsync(body)
        if flags & 0x0008:
            body = zlib.decompress(body)
    elif ver == 3:
        if flags & 0x0080:
            body = zlib.decompress(body[4:])
    return body


ENC = {0: "latin-1", 1: "utf-16", 2: "utf-16-be", 3: "utf-8"}


def split_terminated(b, enc):
    """split off one terminated string; returns (text, rest)"""
    if enc in (1, 2):
        i = 0
        while i + 1 < len(b):
            if b[i] == 0 and b[i + 1] == 0:
                return b[:i].decode(ENC[enc]), b[i + 2:]
            i += 2
        return b.decode(ENC[enc]) if len(b) % 2 == 0 else b[:-1].decode(ENC[enc]), b""
    i = b.find(b"\0")
    if i < 0:
        return b.decode(ENC[enc]), b""
    return b[:i].decode(ENC[enc]), b[i + 1:]


def decode_text_values(b, enc):
    """remaining bytes as a list of strings separated by the encoding's terminator"""
    out = []
    if enc in (1, 2):
        rest = b
        while True:
            t, rest2 = split_terminated(rest, enc)
            out.append(t)
            if not rest2 and (len(rest) < 2 or not rest.endswith(b"\0\0") or len(rest2) == 0):
                if rest2 == b"" and rest.endswith(b"\0\0") and len(t.encode(ENC[enc])) + 2 <= len(rest):
                    pass
                break
            rest = rest2
        # a trailing terminator does not start another value
        return out
    parts = b.split(b"\0")
    if parts and parts[-1] == b"" and len(parts) > 1:
        parts = parts[:-1]
    return [p.decode(ENC[enc]) for p in parts]


def decode_frame(fid, body):
    """decoded fields for the common frame kinds, None for kinds not covered"""
    if not body:
        return None
    if fid.startswith("T") and fid not in ("TXXX",):
        enc = body[0]
        if fid in ("TIPL", "TMCL", "IPLS"):
            vals = decode_text_values(body[1:], enc)
            return {"encoding": enc, "people": [[vals[i], vals[i + 1]] for i in range(0, len(vals) - 1, 2)]}
        return {"encoding": enc, "text": decode_text_values(body[1:], enc)}
    if fid == "IPLS":
        enc = body[0]
        vals = decode_text_values(body[1:], enc)
        return {"encoding": enc, "people": [[vals[i], vals[i + 1]] for i in range(0, len(vals) - 1, 2)]}
    if fid == "TXXX":
        enc = body[0]
        desc, rest = split_terminated(body[1:], enc)
        return {"encoding": enc, "desc": desc, "text": decode_text_values(rest, enc)}
    if fid == "COMM" or fid == "USLT":
        enc = body[0]; lang = body[1:4].decode("latin-1")
        desc, rest = split_terminated(body[4:], enc)
        return {"encoding": enc, "lang": lang, "desc": desc, "text": decode_text_values(rest, enc)}
    if fid.startswith("W") and fid != "WXXX":
        return {"url": body.split(b"\0")[0].decode("latin-1")}
    if fid == "APIC":
        enc = body[0]
        mime, rest = split_terminated(body[1:], 0)
        ptype = rest[0]
        desc, data = split_terminated(rest[1:], enc)
        return {"encoding": enc, "mime": mime, "type": ptype, "desc": desc, "data": data}
    if fid == "PRIV":
        owner, data = split_terminated(body, 0)
        return {"owner": owner, "data": data}
    if fid == "UFID":
        owner, data = split_terminated(body, 0)
        return {"owner": owner, "data": data}
    if fid == "PCNT":
        return {"count": int.from_bytes(body, "big")}
    if fid == "POPM":
        email, rest = split_terminated(body, 0)
        return {"email": email, "rating": rest[0], "count": int.from_bytes(rest[1:], "big") if len(rest) > 1 else None}
    return None


def decode_id3v1(block):
    """the 128-byte ID3v1 / v1.1 block"""
    if len(block) != 128 or block[:3] != b"TAG":
        return None
    def fix(b):
        return b.split(b"\0")[0].decode("latin-1").rstrip()
    out = {"title": fix(block[3:33]), "artist": fix(block[33:63]), "album": fix(block[63:93]), "year": fix(block[93:97])}
    if block[125] == 0 and block[126] != 0:
        out["comment"] = fix(block[97:125]); out["track"] = block[126]
    else:
        out["comment"] = fix(block[97:127]); out["track"] = None
    out["genre"] = block[127]
    return out
