"""apefile_tie.py — correspondence of the Lean model of APEv2-tagged files
(lean/MutagenModel/Model/Container/ApeFile.lean) with APEv2.save / APEv2.delete, and the container
statements on the real output for synthesised layouts [audio][APEv2 tag][Lyrics3v2?][ID3v1?]."""
import io, struct
from vcheck import hx
from guards import timed

HAS_HEADER = 0x80000000
IS_HEADER = 0x20000000


def ape_tag(items, with_header=True, version=2000):
    body = b"".join(struct.pack("<2L", len(v), 0) + k + b"\0" + v for k, v in items)
    hdr = b"APETAGEX" + struct.pack("<4L", version, len(body) + 32, len(items), (HAS_HEADER if with_header else 0) | IS_HEADER) + b"\0" * 8
    ftr = b"APETAGEX" + struct.pack("<4L", version, len(body) + 32, len(items), (HAS_HEADER if with_header else 0)) + b"\0" * 8
    return (hdr if with_header else b"") + body + ftr


def lyrics3(n):
    body = b"LYRICSBEGIN" + b"IND00002" + b"10" + b"LYR" + (b"%05d" % n) + b"x" * n
    return body + (b"%06d" % len(body)) + b"LYRICS200"


def v1():
    return b"TAG" + b"t".ljust(30, b"\0") + b"a".ljust(30, b"\0") + b"l".ljust(30, b"\0") + b"2001" + b"c".ljust(29, b"\0") + b"\x01\x0c"


def gen_file(rng):
    audio = bytes(rng.randrange(256) for _ in range(rng.choice([0, 5, 40, 200, 700])))
    items = [(b"Title", b"x" * rng.choice([0, 1, 50])), (b"Artist", b"yy")][:rng.choice([1, 2])]
    kind = rng.choice(["none", "tag", "tag", "tag-noheader", "tag+v1", "tag+lyrics+v1", "at-start", "at-start-only", "double-header",
                       "size-too-big", "size-small", "footer-only-short", "at-start-size-too-big", "at-start-truncated", "v1-only", "lyrics+v1", "tag+junk", "tiny", "bad-lyrics-size"])
    t = ape_tag(items)
    if kind == "none":
        data = audio
    elif kind == "tag":
        data = audio + t
    elif kind == "tag-noheader":
        data = audio + ape_tag(items, with_header=False)
    elif kind == "tag+v1":
        data = audio + t + v1()
    elif kind == "tag+lyrics+v1":
        data = audio + t + lyrics3(rng.choice([0, 7, 300])) + v1()
    elif kind == "at-start":
        data = t + audio + b"some audio that is long enough to keep the end clean" * 3
    elif kind == "at-start-only":
        data = t
    elif kind == "at-start-size-too-big":
        # a header at offset 0 whose size field reaches beyond the end of the file (or exactly to it)
        total = len(t) + len(audio) + 150
        tt = bytearray(t); struct.pack_into("<L", tt, 12, total - 32 + rng.choice([-1, 0, 1, 40, 100000]))
        data = bytes(tt) + audio + b"some audio that is long enough to keep the end clean" * 3
        data = data[:total]
    elif kind == "at-start-truncated":
        data = (t + audio)[:rng.choice([24, 31, 32, 33, 40, len(t) - 1, len(t)])] + b"\0" * rng.choice([0, 0, 200])
    elif kind == "double-header":
        # pre-Mutagen PyMusepack: the first 24 bytes of an old header left in front
        data = audio + t[:24] * rng.choice([1, 2, 3]) + t
    elif kind == "size-too-big":
        tt = bytearray(t); struct.pack_into("<L", tt, len(tt) - 32 + 12, len(t) + len(audio) + rng.choice([1, 40, 100000]))
        data = audio + bytes(tt)
    elif kind == "size-small":
        tt = bytearray(t); struct.pack_into("<L", tt, len(tt) - 32 + 12, rng.choice([0, 1, 31, 32, 33]))
        data = audio + bytes(tt)
    elif kind == "footer-only-short":
        data = t[-32:][:rng.choice([8, 20, 23, 24, 31])] if rng.random() < 0.5 else audio[:3] + t[-32:]
    elif kind == "v1-only":
        data = audio + v1()
    elif kind == "lyrics+v1":
        data = audio + lyrics3(11) + v1()
    elif kind == "tag+junk":
        data = audio + t + bytes(rng.randrange(256) for _ in range(rng.choice([1, 31, 32, 100, 128, 160])))
    elif kind == "bad-lyrics-size":
        l3 = bytearray(lyrics3(5)); l3[-15:-9] = rng.choice([b"00x012", b"      ", b"999999", b"-00001"])
        data = audio + t + bytes(l3) + v1()
    else:
        data = audio[:rng.choice([0, 1, 7, 8, 31])]
    return data, kind, len(audio)


def classify(exc):
    from mutagen import MutagenError
    if isinstance(exc, MutagenError):
        return "err mutagen"
    return "err " + {"ValueError": "value", "IndexError": "index", "error": "struct"}.get(type(exc).__name__, type(exc).__name__)


def run(ctx):
    from mutagen.apev2 import APEv2
    rng = ctx.rng
    reqs = []
    for i in range(ctx.budget(200, 2000)):
        data, kind, alen = gen_file(rng)
        op = rng.choice(["save", "save", "delete"])
        case = {"layout": kind, "op": op, "data": hx(data) if len(data) < 1200 else "len=%d" % len(data)}
        f = io.BytesIO(data)
        if op == "save":
            t = APEv2()
            for k in rng.sample(["Title", "Album", "Year", "Cmt"], rng.randrange(0, 4)):
                t[k] = rng.choice(["v", "", "Ünï", "w" * 90])
            g = io.BytesIO(); t.save(g); tag = g.getvalue()
            k, r = timed(lambda: t.save(f), 20)
            line = "apef op=save data=%s tag=%s" % (hx(data), hx(tag))
            case["tag_len"] = len(tag)
        else:
            # APEv2.delete needs no loaded tags: an empty object deletes whatever is in the file
            t = APEv2()
            k, r = timed(lambda: t.delete(f), 20)
            line = "apef op=delete data=%s" % hx(data)
        if k == "hang":
            ctx.violation("apefile:%s:hang" % op, "did not finish", case); continue
        out = f.getvalue()
        impl = ("ok v=%s" % hx(out)) if k == "ok" else classify(r)
        ctx.case(key=("apefile", op, i, len(data)), nontrivial=(k == "ok" and out != data), modelled=True, sample=case if i == 5 else None)
        ctx.hist["apefile:%s:%s" % (op, impl.split(" v=")[0])] += 1
        ctx.hist["apefile:layout:" + kind] += 1
        reqs.append((line, impl, case))
        # property-level statements for the plain layouts
        if k == "ok" and kind == "double-header":
            # left-over 24-byte header stubs of pre-Mutagen PyMusepack belong to the tag region: they go with it
            audio = data[:alen]
            if b"APETAGEX" not in audio:
                exp = audio if op == "delete" else audio + tag
                if out != exp:
                    ctx.violation("apefile:%s:stale-header-stub" % op, "%s on a tag preceded by left-over header stubs did not leave exactly "
                                  "the audio%s (%d bytes, expected %d)" % (op, "" if op == "delete" else " and the new tag", len(out), len(exp)), case)
        if k == "ok" and kind in ("none", "tag", "tag-noheader", "tag+v1", "tag+lyrics+v1", "v1-only"):
            audio_len = {"none": len(data), "v1-only": len(data)}.get(kind, alen)
            audio = data[:audio_len]
            if b"APETAGEX" in audio or len(audio) < 0:
                continue
            if op == "delete":
                # everything behind the tag stays (Lyrics3v2, ID3v1 are not APEv2's to remove)
                if kind in ("none", "v1-only"):
                    exp = data
                else:
                    end = data.find(b"APETAGEX", audio_len + 8) if kind != "tag-noheader" else data.find(b"APETAGEX", audio_len)   # footer
                    exp = audio + data[end + 32:]
                if out != exp:
                    ctx.violation("apefile:delete:wrong-result", "delete did not leave exactly audio + what follows the tag", case)
            else:
                if kind == "v1-only":
                    continue         # a new tag is appended behind the ID3v1 block: decided by the model tie
                if out != audio + tag and not (kind == "none" and out == data + tag):
                    ctx.violation("apefile:save:wrong-result", "save did not leave exactly audio + the new tag", case)
    if ctx.model_ok() and reqs:
        answers = ctx.driver.ask([r[0] for r in reqs])
        for (line, impl, case), ans in zip(reqs, answers):
            ctx.traces_validated += 1
            if ans != impl:
                ctx.disagree("ape file container", case, model=ans[:200], impl=impl[:200])
    return len(reqs)
