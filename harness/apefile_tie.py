"""apefile_tie.py — correspondence of the Lean model of APEv2-tagged files
(lean/MutagenModel/Model/Container/ApeFile.lean) with APEv2.save / APEv2.delete, and the container
statements on the real output for synthesised layouts [audio][APEv2 tag][Lyrics3v2?][ID3v1?]."""
import io, struct
from vcheck import hx, parse_fields
from guards import timed

HAS_HEADER = 0x80000000
IS_HEADER = 0x20000000


def ape_tag(items, with_header=True, version=2000):
    body = b"".join(struct.pack("<2L", len(v), 0) + k + b"\0" + v for k, v in items)
    hdr = b"APETAGEX" + struct.pack("<4L", version, len(body) + 32, len(items), (HAS_HEADER if with_header else 0) | IS_HEADER) + b"\0" * 8
    ftr = b"APETAGEX" + struct.pack("<4L", version, len(body) + 32, len(items), (HAS_HEADER if with_header else 0)) + b"\0" * 8
    return (hdr if with_header else b"") + body + ftr


def lyrics3(n):
    body = b"LYRICSBEGIN" + b"IND00002" + b"10" + b"LYR" + (b"%05d" % n) + b"x" * n
    return body + (b"%06d" % len(body)) + b"LYRICS200"


def v1():
    return b"TAG" + b"t".ljust(30, b"\0") + b"a".ljust(30, b"\0") + b"l".ljust(30, b"\0") + b"2001" + b"c".ljust(29, b"\0") + b"\x01\x0c"


def gen_file(rng):
    audio = bytes(rng.randrange(256) for _ in range(rng.choice([0, 5, 40, 200, 700])))
    items = [(b"Title", b"x" * rng.choice([0, 1, 50])), (b"Artist", b"yy")][:rng.choice([1, 2])]
    kind = rng.choice(["none", "tag", "tag", "tag-noheader", "tag+v1", "tag+lyrics+v1", "at-start", "at-start-only", "double-header",
                       "size-too-big", "size-small", "size-small", "at-start-size-small", "footer-only-short", "at-start-size-too-big", "at-start-truncated",
                       "v1-only", "lyrics+v1", "tag+junk", "tiny", "bad-lyrics-size",
                       "short-magic", "v1-short-front", "lyrics-size-beyond-start", "lyrics-size-beyond-start", "header-behind-magic"])
    t = ape_tag(items)
    if kind == "none":
        data = audio
    elif kind == "tag":
        data = audio + t
    elif kind == "tag-noheader":
        data = audio + ape_tag(items, with_header=False)
    elif kind == "tag+v1":
        data = audio + t + v1()
    elif kind == "tag+lyrics+v1":
        data = audio + t + lyrics3(rng.choice([0, 7, 300])) + v1()
    elif kind == "at-start":
        data = t + audio + b"some audio that is long enough to keep the end clean" * 3
    elif kind == "at-start-only":
        data = t
    elif kind == "at-start-size-too-big":
        # a header at offset 0 whose size field reaches beyond the end of the file (or exactly to it)
        total = len(t) + len(audio) + 150
        tt = bytearray(t); struct.pack_into("<L", tt, 12, total - 32 + rng.choice([-1, 0, 1, 40, 100000]))
        data = bytes(tt) + audio + b"some audio that is long enough to keep the end clean" * 3
        data = data[:total]
    elif kind == "at-start-truncated":
        data = (t + audio)[:rng.choice([24, 31, 32, 33, 40, len(t) - 1, len(t)])] + b"\0" * rng.choice([0, 0, 200])
    elif kind == "double-header":
        # pre-Mutagen PyMusepack: the first 24 bytes of an old header left in front
        data = audio + t[:24] * rng.choice([1, 2, 3]) + t
    elif kind == "size-too-big":
        tt = bytearray(t); struct.pack_into("<L", tt, len(tt) - 32 + 12, len(t) + len(audio) + rng.choice([1, 40, 100000]))
        data = audio + bytes(tt)
    elif kind == "size-small":
        # a footer whose size field is below / at / just above the 32 bytes of the footer itself (below: `size - 32` is negative,
        # refused since the repair of __fill_missing), with and without the "has a header" flag, with and without an ID3v1 block behind
        tt = bytearray(t if rng.random() < 0.7 else ape_tag(items, with_header=False))
        struct.pack_into("<L", tt, len(tt) - 32 + 12, rng.choice([0, 1, 8, 30, 31, 32, 33, 64]))
        data = audio + bytes(tt) + (v1() if rng.random() < 0.3 else b"")
    elif kind == "at-start-size-small":
        # a header at offset 0 with a small size field; `__fill_missing` looks for a footer at end - 32 = offset `size`:
        # size 0 - the header itself is taken for the footer; size 24 - "APETAGEX" in the reserved bytes of the header;
        # size >= 32 - a footer (or none) at that offset.  With a footer and size < 32 the tag is refused.
        sz = rng.choice([0, 0, 8, 24, 24, 24, 31, 32, 33, 40, 64])
        hdr = bytearray(t[:32]); struct.pack_into("<L", hdr, 12, sz)
        if sz == 24 and rng.random() < 0.7:
            hdr[24:32] = b"APETAGEX"
        rest = bytearray(audio + b"some audio that is long enough to keep the end clean" * 3)
        if sz >= 32 and rng.random() < 0.6:
            rest[sz - 32:sz - 24] = b"APETAGEX"
        data = bytes(hdr) + bytes(rest)
    elif kind == "short-magic":
        # fewer than 32 bytes that start with "APETAGEX" (the fields of a footer behind it, cut): `_seek_back(32)` raises on every
        # kind of file object - no tag.  (io.BytesIO used to stop the seek(-32, 2) at offset 0 and take the bytes for a footer.)
        foot = b"APETAGEX" + struct.pack("<4L", 2000, rng.choice([0, 24, 32, 32, 40]), rng.choice([0, 1]), rng.choice([0, 0, HAS_HEADER])) + b"\0" * 8
        data = foot[:rng.choice([8, 8, 9, 16, 23, 24, 25, 30, 31])]
    elif kind == "v1-short-front":
        # 128..159 bytes ending in an ID3v1 block, "APETAGEX" (and the fields of a footer / header) at offset 0: `_seek_back(35)` from
        # behind "TAG" raises (IOError, `pass`), the check at the start follows.  160: the first length at which the seek succeeds.
        flags = rng.choice([0, HAS_HEADER, HAS_HEADER | IS_HEADER])
        front = b"APETAGEX" + struct.pack("<4L", 2000, rng.choice([0, 32, 32, 33, 40, 128]), rng.choice([0, 1]), flags) + b"\0" * 8
        data = front[:rng.choice([0, 1, 8, 9, 24, 30, 31, 32])] + v1()
    elif kind == "lyrics-size-beyond-start":
        # a Lyrics3v2 block whose size field is larger than what stands in front of it: `_seek_back(32 + size + 6)` raises; with
        # "APETAGEX" at offset 0, where io.BytesIO used to stop
        front = b"APETAGEX" + struct.pack("<4L", 2000, rng.choice([32, 32, 40, 0]), 0, rng.choice([0, HAS_HEADER])) + b"\0" * 8
        front = rng.choice([front, front + audio[:40], b"APETAGEX", audio[:40], t, audio[:5] + t])
        n = rng.choice([0, 7])
        l3 = bytearray(lyrics3(n))
        inside = len(front) + len(l3) - 15 - 32          # the largest size field for which the seek stays inside the file
        size = rng.choice([inside + 1, inside + 1, inside + 2, inside + 100, 999999, max(0, inside), max(0, inside - 1)])
        l3[-15:-9] = b"%06d" % min(size, 999999)
        data = front + bytes(l3) + v1()
    elif kind == "header-behind-magic":
        # the tag's header at offset 8..23 (or 24, 25) behind an "APETAGEX" at offset 0: `__fix_brokenness` cannot go 24 bytes back
        # from there (`_seek_back(24)`: IOError, `break`) - the start stays.  From 24 on it is a left-over stub as before.
        pad = rng.choice([0, 1, 7, 15, 15, 16, 17])
        tt = t if rng.random() < 0.7 else ape_tag(items, with_header=False)
        data = b"APETAGEX" + bytes(rng.randrange(1, 256) for _ in range(pad)) + tt + (v1() if rng.random() < 0.3 else b"")
    elif kind == "footer-only-short":
        data = t[-32:][:rng.choice([8, 20, 23, 24, 31])] if rng.random() < 0.5 else audio[:3] + t[-32:]
    elif kind == "v1-only":
        data = audio + v1()
    elif kind == "lyrics+v1":
        data = audio + lyrics3(11) + v1()
    elif kind == "tag+junk":
        data = audio + t + bytes(rng.randrange(256) for _ in range(rng.choice([1, 31, 32, 100, 128, 160])))
    elif kind == "bad-lyrics-size":
        l3 = bytearray(lyrics3(5)); l3[-15:-9] = rng.choice([b"00x012", b"      ", b"999999", b"-00001"])
        data = audio + t + bytes(l3) + v1()
    else:
        data = audio[:rng.choice([0, 1, 7, 8, 31])]
    return data, kind, len(audio)


from fobj import BufferedLike      # io.BytesIO with the semantics of a file opened by name: read(n < -1) raises ValueError, truncate
                                   # beyond the end extends, a seek in front of the file raises OSError(EINVAL)


def classify(exc):
    from mutagen import MutagenError
    if isinstance(exc, MutagenError):
        return "err mutagen"
    return "err " + {"ValueError": "value", "IndexError": "index", "error": "struct"}.get(type(exc).__name__, type(exc).__name__)


def run(ctx):
    from mutagen.apev2 import APEv2
    rng = ctx.rng
    reqs = []
    for i in range(ctx.budget(200, 2000)):
        data, kind, alen = gen_file(rng)
        op = rng.choice(["save", "save", "delete"])
        case = {"layout": kind, "op": op, "data": hx(data) if len(data) < 1200 else "len=%d" % len(data)}
        f = io.BytesIO(data)
        if op == "save":
            t = APEv2()
            for k in rng.sample(["Title", "Album", "Year", "Cmt"], rng.randrange(0, 4)):
                t[k] = rng.choice(["v", "", "Ünï", "w" * 90])
            g = io.BytesIO(); t.save(g); tag = g.getvalue()
            k, r = timed(lambda: t.save(f), 20)
            line = "apef op=save data=%s tag=%s" % (hx(data), hx(tag))
            case["tag_len"] = len(tag)
        else:
            # APEv2.delete needs no loaded tags: an empty object deletes whatever is in the file
            t = APEv2()
            k, r = timed(lambda: t.delete(f), 20)
            line = "apef op=delete data=%s" % hx(data)
        if k == "hang":
            ctx.violation("apefile:%s:hang" % op, "did not finish", case); continue
        out = f.getvalue()
        impl = ("ok v=%s" % hx(out)) if k == "ok" else classify(r)
        # the same call on an object with the semantics of a file opened by name (fobj.BufferedLike): `_APEv2Data` has no read with
        # a negative length and makes no seek that ends in front of the file (`_seek_back` asks tell() first), so outcome and bytes
        # are those of io.BytesIO - for every generated file
        fb = BufferedLike(data)
        kb, rb = timed(lambda: (t.save(fb) if op == "save" else t.delete(fb)), 20)
        implb = "hang" if kb == "hang" else (("ok v=%s" % hx(fb.getvalue())) if kb == "ok" else classify(rb))
        ctx.hist["apefile:as-real-file:" + ("same" if implb == impl else "differs")] += 1
        if implb != impl:
            ctx.violation("apefile:%s:differs-as-real-file" % op, "%s on an object with the semantics of a file opened by name: %s (%s), on io.BytesIO: %s"
                          % (op, implb[:40], str(rb)[:60] if kb == "exc" else "", impl[:40]), case)
        # and the load: outcome class and the tags
        def load_on(cls_):
            kk, rr = timed(lambda: APEv2(cls_(data)), 20)
            return "hang" if kk == "hang" else (("ok %r" % sorted((k_, str(v_)) for k_, v_ in rr.items())) if kk == "ok" else classify(rr)), rr
        la, _ra = load_on(io.BytesIO); lb, rlb = load_on(BufferedLike)
        ctx.hist["apefile:load:as-real-file:" + ("same" if la == lb else "differs")] += 1
        if la != lb:
            ctx.violation("apefile:load:differs-as-real-file", "APEv2(fileobj) on an object with the semantics of a file opened by name: %s (%s), "
                          "on io.BytesIO: %s" % (lb[:60], str(rlb)[:60] if lb.startswith("err") else "", la[:60]), dict(case, op="load"))
        ctx.case(key=("apefile", op, i, len(data)), nontrivial=(k == "ok" and out != data), modelled=True, sample=case if i == 5 else None)
        ctx.hist["apefile:%s:%s" % (op, impl.split(" v=")[0])] += 1
        ctx.hist["apefile:layout:" + kind] += 1
        reqs.append((line, impl, case))
        # property-level statements for the plain layouts
        if k == "ok" and kind == "double-header":
            # left-over 24-byte header stubs of pre-Mutagen PyMusepack belong to the tag region: they go with it
            audio = data[:alen]
            if b"APETAGEX" not in audio:
                exp = audio if op == "delete" else audio + tag
                if out != exp:
                    ctx.violation("apefile:%s:stale-header-stub" % op, "%s on a tag preceded by left-over header stubs did not leave exactly "
                                  "the audio%s (%d bytes, expected %d)" % (op, "" if op == "delete" else " and the new tag", len(out), len(exp)), case)
        if k == "ok" and kind in ("none", "tag", "tag-noheader", "tag+v1", "tag+lyrics+v1", "v1-only"):
            audio_len = {"none": len(data), "v1-only": len(data)}.get(kind, alen)
            audio = data[:audio_len]
            if b"APETAGEX" in audio or len(audio) < 0:
                continue
            if op == "delete":
                # everything behind the tag stays (Lyrics3v2, ID3v1 are not APEv2's to remove)
                if kind in ("none", "v1-only"):
                    exp = data
                else:
                    end = data.find(b"APETAGEX", audio_len + 8) if kind != "tag-noheader" else data.find(b"APETAGEX", audio_len)   # footer
                    exp = audio + data[end + 32:]
                if out != exp:
                    ctx.violation("apefile:delete:wrong-result", "delete did not leave exactly audio + what follows the tag", case)
            else:
                if kind == "v1-only":
                    continue         # a new tag is appended behind the ID3v1 block: decided by the model tie
                if out != audio + tag and not (kind == "none" and out == data + tag):
                    ctx.violation("apefile:save:wrong-result", "save did not leave exactly audio + the new tag", case)
    if ctx.model_ok() and reqs:
        answers = ctx.driver.ask([r[0] for r in reqs])
        for (line, impl, case), ans in zip(reqs, answers):
            ctx.traces_validated += 1
            if ans != impl:
                ctx.disagree("ape file container", case, model=ans[:200], impl=impl[:200])
    return len(reqs)


# ---------------------------------------------------------------------------------------------------------------------
# C19 / C06 at the file-operation level: the FileM programs `saveM` / `deleteM` (Model/Container/ApeFileM.lean, driver
# `apef op=savem|deletem`) against APEv2.save / APEv2.delete on a fault-injecting, capacity-limited file object.

WELLFORMED = ("none", "tag", "tag-noheader", "tag+v1", "tag+lyrics+v1", "v1-only", "at-start")


def _set_buffers(mode):
    from mutagen import _util
    funcs = [getattr(_util, n) for n in ("resize_file", "move_bytes", "insert_bytes", "delete_bytes", "resize_bytes")]
    if not hasattr(_set_buffers, "saved"):
        _set_buffers.saved = [f.__defaults__ for f in funcs]
    for f, d in zip(funcs, _set_buffers.saved):
        if mode == "small" and d:
            f.__defaults__ = tuple(257 if x == _util._DEFAULT_BUFFER_SIZE else x for x in d)
        else:
            f.__defaults__ = d


def _same_log(model_log, impl_log):
    # relative seeks (s-8, s15, ...) are logged with their offset by FaultFile and with their absolute target by the model;
    # read(-n) reads to the end: compare the kind of every call and the argument of all others
    if len(model_log) != len(impl_log):
        return False
    for a, b in zip(model_log, impl_log):
        if a == b:
            continue
        if a[0] != b[0] or a[0] not in "sr":
            return False
    return True


def split_tag(tag):
    """the three writes of APEv2.save: header, items, footer"""
    return (tag[:32], tag[32:-32], tag[-32:]) if tag else None


def run_faults(ctx, want=("cap", "io", "short")):
    """generated files (the layouts of gen_file, well-formed and damaged) x (every remaining capacity 0..len(new tag) for small tags,
    a lattice otherwise; leak 0/5/all) x (an IOError / ENOSPC at every call index) x (short reads at every read index): the real
    APEv2.save / APEv2.delete on FaultFile vs the Lean programs under the same environment - same outcome class, same bytes left, same
    sequence of file-object calls; and the C19 / C06 statements on the real outcome.  Returns the number of compared runs."""
    import errno
    from fobj import FaultFile
    from mutagen import MutagenError
    from mutagen.apev2 import APEv2
    rng = ctx.rng
    jobs = []
    seen = set()

    def violation(key, what, case, li):
        if (key, li) not in seen:
            seen.add((key, li))
            ctx.violation(key, what, case)

    try:
        for li in range(ctx.budget(70, 600)):
            data, kind, alen = gen_file(rng)
            if kind == "at-start":
                alen = 0
            op = rng.choice(["save", "save", "delete"])
            bufmode = rng.choice(["default", "small"])
            B = 257 if bufmode == "small" else 1048576
            _set_buffers(bufmode)
            vals = [rng.choice(["v", "", "Ünï", "w" * 90, "z" * 400]) for _ in range(rng.randrange(0, 4))]
            def mk():
                t = APEv2()
                for k, v in zip(["Title", "Album", "Year"], vals):
                    t[k] = v
                return t
            g = io.BytesIO(); mk().save(g); tag = g.getvalue()
            if op == "save":
                t3 = split_tag(tag)
                base = "apef op=savem data=%s B=%d %s" % (hx(data), B, "empty=1" if t3 is None else "hdr=%s items=%s ftr=%s" % tuple(hx(x) for x in t3))
                def go(f):
                    mk().save(f)
            else:
                base = "apef op=deletem data=%s B=%d" % (hx(data), B)
                def go(f):
                    APEv2().delete(f)
            cdesc = {"layout": kind, "op": op, "audio_len": alen, "tag_len": len(tag) if op == "save" else None, "buffers": bufmode,
                     "data": hx(data) if len(data) < 1200 else "len=%d" % len(data)}
            ref = FaultFile(data)
            k0, r0 = timed(lambda: go(ref), 20)
            ref_ok = (k0 == "ok")
            ncalls = ref.calls; ref_log = list(ref.log); ref_bytes = ref.getvalue()
            wellformed = kind in WELLFORMED and b"APETAGEX" not in data[:alen] and ref_ok
            # where the payload ends: everything before the old tag start (untagged files: the whole file)
            payload_len = len(data) if kind in ("none", "v1-only") else alen
            growth = max(0, len(ref_bytes) - min(len(data), payload_len if kind != "at-start" else len(data) - len(ape_tag([])) )) if op == "save" else 0
            if op == "save":
                growth = len(tag)
            plans = []
            if "cap" in want and ref_ok and op == "save" and growth > 0:
                basecap = len(ref_bytes) - len(tag)          # the size after the old tag is gone
                vals_r = list(range(growth + 1)) if growth <= (200 if ctx.quick else 1200) else \
                    sorted(set([0, 1, 31, 32, 33, growth - 33, growth - 32, growth - 31, growth - 1, growth] + [rng.randrange(growth) for _ in range(16 if ctx.quick else 120)]))
                for r in vals_r:
                    for leak in ((0,) if (r % 4 and ctx.quick) else (0, 5, 100000)):
                        plans.append(("cap", r, leak))
            elif "cap" in want and ref_ok and op == "delete":
                for r in (0, 1, 50):
                    plans.append(("cap", r, 0))
                basecap = 0
            if "io" in want:
                idx = list(range(ncalls)) if ncalls <= (80 if ctx.quick else 500) else sorted(rng.sample(range(ncalls), 80 if ctx.quick else 500))
                for i in idx:
                    plans.append(("io", i, "enospc" if rng.random() < 0.15 else "io"))
            if "short" in want:
                for i, l in enumerate(ref_log):
                    if l.startswith("r") and l[1:].isdigit() and int(l[1:]) > 0:
                        for kk in sorted({0, 1, int(l[1:]) // 2, int(l[1:]) - 1}):
                            if kk < int(l[1:]):
                                plans.append(("short", i, kk))
            for fk, a, b in plans:
                if fk == "cap":
                    # capacity counted from the size the file has once the old tag is gone (a device never has less room than the file it holds)
                    capv = max(len(data), basecap + a) if op == "save" else len(data) + a
                    f = FaultFile(data, cap=capv, leak=b); env = "cap=%d leak=%d" % (capv, b)
                elif fk == "io":
                    f = FaultFile(data, fail_at=a, errno_=(errno.ENOSPC if b == "enospc" else errno.EIO)); env = "fail=%d:%s" % (a, b)
                else:
                    f = FaultFile(data, short=(a, b)); env = "short=%d:%d" % (a, b)
                k, r = timed(lambda: go(f), 20)
                after = f.getvalue()
                st = "ok" if k == "ok" else ("hang" if k == "hang" else classify(r).replace("err ", "err:"))
                case = dict(cdesc, fault=fk, at=a, arg=b, calls_in_clean_run=ncalls)
                ctx.case(key=("apefile-faults", op, li, fk, a, b), nontrivial=(k != "ok" or fk != "cap" or after != data), modelled=True,
                         sample=case if (li == 1 and fk == "cap" and a == 1 and b == 0) else None)
                ctx.hist["apefile-faults:%s:%s:%s" % (op, fk, st)] += 1
                jobs.append(("%s %s" % (base, env), st, after, list(f.log), case))
                if k == "hang":
                    violation("apefile:%s:hang" % op, "did not finish", case, li); continue
                if k == "exc" and not isinstance(r, MutagenError) and ctx.prop == "C06":
                    if isinstance(r, ValueError) and str(r).startswith("Can't "):
                        key = "escape:ValueError:_util.py:verify_fileobj"
                    else:
                        key = "escape:%s:apefile:%s" % (type(r).__name__, op)
                    if ref_ok:
                        violation(key, "%s escaped from APEv2 %s (%s at %s): %s" % (type(r).__name__, op, fk, a, str(r)[:80]), case, li)
                if fk == "cap" and ctx.prop != "C06":
                    if k == "ok" and after != ref_bytes:
                        violation("apefile:%s:differs-from-unlimited" % op, "returned normally on a limited device with a different file", case, li)
                    if op == "save" and a >= growth and k != "ok":
                        violation("apefile:save:fails-with-enough-space", "failed although the new tag fits", case, li)
                    if op == "delete" and k != "ok":
                        violation("apefile:delete:needs-space", "delete failed on a full device", case, li)
                    if k == "exc" and wellformed:
                        if not isinstance(r, MutagenError):
                            violation("ape:raises-%s" % type(r).__name__, "ENOSPC surfaced as %s" % type(r).__name__, case, li)
                        if kind == "at-start":
                            keep = ref_bytes[:len(ref_bytes) - len(tag)]
                        else:
                            keep = data[:payload_len]
                        if after[:len(keep)] != keep:
                            violation("ape:payload-damaged-on-enospc", "the audio payload is no longer intact after the failed save", case, li)
                        elif not tag.startswith(after[len(keep):]):
                            violation("ape:junk-after-payload-on-enospc", "what remains behind the payload is not a prefix of the new tag", case, li)
                        ctx.hist["apefile-faults:enospc:old-tag-gone"] += int(after[:len(data)] != data)
                elif k == "ok" and fk in ("io", "short") and ctx.prop == "C06" and ref_ok and after != ref_bytes:
                    # a swallowed fault inside get_size can only be the call in __find_metadata's `try … except IOError: pass`
                    site = "apev2.py:__find_metadata" if f.fault_site == "_util.py:get_size" else f.fault_site
                    violation("undetected:%s:%s" % (fk, site), "the call returned normally after the fault but the file differs from the clean run", case, li)
    finally:
        _set_buffers("default")
    if ctx.model_ok() and jobs:
        answers = ctx.driver.ask([j[0] for j in jobs])
        for (line, st, after, log, case), ans in zip(jobs, answers):
            ctx.traces_validated += 1
            mst, mf = parse_fields(ans)
            mlog = [] if mf.get("log", "-") == "-" else mf["log"].split(",")
            if mst != st or mf.get("data") != hx(after):
                ctx.disagree("ape file programs under faults", case, model=ans[:200], impl="%s data=%s" % (st, hx(after)[:160]))
            elif not _same_log(mlog, log):
                ctx.disagree("ape file programs: sequence of file-object calls", case, model=",".join(mlog)[:300], impl=",".join(log)[:300])
    return len(jobs)


# ---------------------------------------------------------------------------------------------------------------------
# C06, load: `APEv2(fileobj)` as the program `apeLoadM` (Model/Container/ApeFileLoadM.lean, driver `apef op=loadm`)

def run_load_faults(ctx):
    """the layouts of gen_file x (an IOError at every call index) x (short reads 0 / 1 / n//2 / n-1 at every read): APEv2(fileobj) on
    FaultFile vs the Lean program - outcome class (loaded / MutagenError / other), sequence of file-object calls, file untouched,
    object not closed.  Returns the number of compared runs."""
    from fobj import FaultFile
    from mutagen import MutagenError
    from mutagen.apev2 import APEv2
    rng = ctx.rng
    jobs = []
    seen = set()

    def violation(key, what, case, li):
        if (key, li) not in seen:
            seen.add((key, li)); ctx.violation(key, what, case)

    for li in range(ctx.budget(80, 700)):
        data, kind, alen = gen_file(rng)
        ref = FaultFile(data)
        k0, r0 = timed(lambda: APEv2(ref), 20)
        ncalls = ref.calls; ref_log = list(ref.log)
        # no read with a negative length (a file opened by name refuses those with ValueError)
        for l in ref_log:
            if l.startswith("r-") and l[2:].isdigit() and int(l[2:]) > 1:
                violation("apefile:load:negative-read-length", "APEv2(fileobj) calls read(%s)" % l[1:],
                          {"layout": kind, "op": "load", "data": hx(data) if len(data) < 1200 else "len=%d" % len(data)}, li)
        plans = [("none", None, None)] + [("io", i, "io") for i in range(ncalls)]
        for i, l in enumerate(ref_log):
            if l.startswith("r") and l[1:].isdigit() and int(l[1:]) > 0:
                for kk in sorted({0, 1, int(l[1:]) // 2, int(l[1:]) - 1}):
                    if kk < int(l[1:]):
                        plans.append(("short", i, kk))
        for fk, a, b in plans:
            f = FaultFile(data, fail_at=a) if fk == "io" else (FaultFile(data, short=(a, b)) if fk == "short" else FaultFile(data))
            env = " fail=%d:io" % a if fk == "io" else (" short=%d:%d" % (a, b) if fk == "short" else "")
            k, r = timed(lambda: APEv2(f), 20)
            case = {"layout": kind, "op": "load", "fault": fk, "at": a, "arg": b, "data": hx(data) if len(data) < 1200 else "len=%d" % len(data)}
            if k == "hang":
                violation("apefile:load:hang", "did not finish", case, li); continue
            st = "ok" if k == "ok" else ("err:mutagen" if isinstance(r, MutagenError) else classify(r).replace("err ", "err:"))
            ctx.case(key=("apefile-load", li, fk, a, b), nontrivial=(fk != "none"), modelled=True)
            ctx.hist["apefile-load:%s:%s" % (fk, st)] += 1
            jobs.append(("apef op=loadm data=%s%s" % (hx(data), env), st, list(f.log), case, k == "ok"))
            if f.getvalue() != data:
                violation("apefile:load:file-modified", "load changed the file", case, li)
            if f.closed_called:
                violation("apefile:load:closes-caller-file", "close() was called on the caller's file object", case, li)
            if st.startswith("err:") and st != "err:mutagen":
                key = "escape:ValueError:_util.py:verify_fileobj" if (st == "err:value" and str(r).startswith("Can't ")) else \
                    "escape:%s:apefile:load" % type(r).__name__
                violation(key, "%s escaped from APEv2() (%s at %s): %s" % (type(r).__name__, fk, a, str(r)[:80]), case, li)
            if fk != "none" and k0 == "ok" and k == "ok" and dict(r0) != dict(r):
                violation("undetected:%s:%s" % (fk, f.fault_site), "load returned normally after the fault with other tags than the clean run", case, li)
    if ctx.model_ok() and jobs:
        answers = ctx.driver.ask([j[0] for j in jobs])
        for (line, st, log, case, loaded), ans in zip(jobs, answers):
            ctx.traces_validated += 1
            mst, mf = parse_fields(ans)
            mlog = [] if mf.get("log", "-") == "-" else mf["log"].split(",")
            # the model stops where the bytes have been read; `__parse_tag` on them (APEBadItemError = MutagenError) is not part of it
            ok = (mst == st) or (mst == "ok" and st == "err:mutagen")
            if mst == "ok" and st == "err:mutagen":
                ctx.hist["apefile-load:item-parser-raised"] += 1
            if not ok:
                ctx.disagree("ape load under faults", case, model=ans[:200], impl=st)
            elif not _same_log(mlog, log):
                ctx.disagree("ape load: sequence of file-object calls", case, model=",".join(mlog)[:300], impl=",".join(log)[:300])
    return len(jobs)
