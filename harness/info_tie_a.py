"""info_tie_a.py — correspondence of the Lean stream-info models (lean/MutagenModel/Model/Info/*.lean:
WavPack, Monkey's Audio, OptimFROG, TrueAudio, TAK, Musepack, AC-3, AAC) with the real mutagen info classes,
and of the Lean specification-side builders (lean/MutagenModel/Spec/Info/*.lean) with the Python builders of
harness/gen/headers_more.py.

For every input the real info class is run in-process on io.BytesIO (the `<X>Info(fileobj)` constructor the
model follows, and the public file class on top of it) and the compiled driver is asked
`infoa kind=<Fmt> data=<hex>`: same attributes (durations: Python's `num / float(den)` of the model's integer
operands must be *equal* to `info.length`) or the same exception class.  Inputs: every case of
headers_more for the kinds below, field lattices built through the Lean builder (`infoa op=build …`, extremes of
every bit field, every table row), raw lattices outside the specification, and damaged files (every truncation
of the header region, bad magics, flipped bytes, random bytes).
"""
import io, os, re, struct, importlib, zlib
from vcheck import hx, parse_fields
from guards import timed

# ----------------------------------------------------------------------------------------------
# helpers


def classify(exc):
    from mutagen import MutagenError
    if isinstance(exc, MutagenError):
        return "err mutagen"
    return "err " + {"ValueError": "value", "IndexError": "index", "error": "struct", "KeyError": "key",
                     "AssertionError": "assertion", "OverflowError": "overflow", "TypeError": "type",
                     "MemoryError": "memory", "ZeroDivisionError": "zerodiv", "UnicodeDecodeError": "unicode",
                     "EOFError": "eof", "AttributeError": "attribute"}.get(type(exc).__name__, type(exc).__name__)


def ratio(v):
    """'num/den' -> the Python float num / float(den)"""
    a, b = v.split("/")
    return int(a) / float(int(b))


def edges(bits, lo=0, hi=None):
    mx = (1 << bits) - 1
    hi = mx if hi is None else hi
    c = {lo, lo + 1, hi, hi - 1, mx, 1, 2}
    for b in (bits - 1, 7, 8, 15, 16, 24, 31, 32):
        if 0 < b <= bits:
            c |= {(1 << b) - 1, 1 << b}
    return sorted(v for v in c if lo <= v <= hi)


def rbytes(rng, n):
    return bytes(rng.randrange(256) for _ in range(n))


def hm():
    from gen import headers_more
    return headers_more


def cls_of(path):
    mod, name = path.rsplit(".", 1)
    return getattr(importlib.import_module(mod), name)


class Fmt(object):
    """one format: how to run the real code, how to read the driver's answer"""
    name = None            # driver kind
    hm_kinds = ()          # kinds of headers_more
    info_path = None       # "module.InfoClass"
    file_path = None       # "module.FileClass"
    attrs = ()             # (driver key, python attribute, type) type: int | ratio | str | optint | bool

    def info(self, data, case=None):
        return cls_of(self.info_path)(io.BytesIO(data))

    def public(self, data, case=None):
        """info of the public file class; None = not comparable for this input"""
        return cls_of(self.file_path)(io.BytesIO(data)).info

    def parse_args(self, case):
        """further arguments of the driver's parse request"""
        return ""

    def spec_line(self, kind, params):
        """driver request that makes the Lean builder produce headers_more's bytes for `params` (or None)"""
        return None

    def spec_len(self, kind, params, data):
        """how many bytes of headers_more's file the Lean builder describes"""
        return len(data)

    def lattice(self, rng, scale):
        """-> list of (label, driver build request, suffix bytes[, prefix bytes])"""
        return []

    theorems = {}          # build kind -> name of the C05 decode theorem whose instances `infoa op=expect` evaluates

    def expect_line(self, build_line, rest):
        """the `infoa op=expect` request for a header built by `build_line` that is followed by the bytes `rest`"""
        return build_line.replace("op=build", "op=expect", 1) + " suffix=" + hx(rest)

    def extra_builder_checks(self, rng, scale):
        """-> list of (driver build request, bytes an independent builder of headers_more gives, case dict with 'fmt')"""
        return []

    def raw(self, rng, scale):
        """-> list of (label, bytes) outside the specification side"""
        return []

    def compare(self, ans, obj):
        """driver answer fields vs real info object -> dict of differences"""
        bad = {}
        for key, attr, typ in self.attrs:
            got = getattr(obj, attr, "<missing>")
            if key not in ans:
                bad[attr] = ("<no field>", got)
                continue
            v = ans[key]
            if typ == "int":
                exp = int(v)
            elif typ == "ratio":
                exp = ratio(v)
            elif typ == "optratio":
                exp = None if v == "None" else ratio(v)
            elif typ == "optint":
                exp = None if v == "None" else int(v)
            elif typ == "str":
                exp = "" if v == "-" else bytes.fromhex(v).decode("utf-8")
            elif typ == "text":
                exp = v
            elif typ == "floordiv":
                a, b = v.split("/")
                exp = int(a) // int(b)
            elif typ in ("rg-gain", "rg-peak"):
                if v == "-":
                    if got != "<missing>":
                        bad[attr] = ("<absent>", got)
                    continue
                gen, raw = v.split(":")
                raw = int(raw)
                if gen == "7":
                    exp = raw / 100.0 if typ == "rg-gain" else raw / 65535.0
                else:
                    exp = 64.82 - raw / 256.0 if typ == "rg-gain" else (10 ** (raw / (256.0 * 20.0)) / 65535.0)
            elif typ == "bitrate":
                how, n = v.split(":")
                if how == "v":
                    exp = int(n)
                else:
                    import decimal
                    exp = int(decimal.Decimal.from_float(int(n) / ratio(ans["length"])).to_integral_value(decimal.ROUND_HALF_EVEN))
            else:
                exp = v
            if got != exp:
                bad[attr] = (exp, got)
        return bad


# ----------------------------------------------------------------------------------------------
# WavPack

class WavPackFmt(Fmt):
    theorems = {'WavPack': 'wavpack_info_decodes_partial'}
    name = "WavPack"
    hm_kinds = ("WavPack",)
    info_path = "mutagen.wavpack.WavPackInfo"
    file_path = "mutagen.wavpack.WavPack"
    attrs = (("version", "version", "int"), ("channels", "channels", "int"), ("sample_rate", "sample_rate", "int"),
             ("bits_per_sample", "bits_per_sample", "int"), ("length", "length", "ratio"))

    @staticmethod
    def line(version, total, bps, mono, modelow, shiftmag, ri, modehigh, blocks, fi=0):
        """blocks: (block_samples, crc, sub-block bytes); fi: index of the first sample of the first block"""
        return ("infoa op=build kind=WavPack version=%d total=%d bps=%d mono=%d modelow=%d shiftmag=%d ri=%d modehigh=%d bs=%s bc=%s bp=%s fi=%d" % (
            version, total, bps, mono, modelow, shiftmag, ri, modehigh, ",".join(str(b[0]) for b in blocks),
            ",".join(str(b[1]) for b in blocks), ",".join(hx(b[2]) for b in blocks), fi))

    def spec_line(self, kind, p):
        H = hm()
        blocks = []
        for i, n in enumerate(p["block_samples"]):
            plen = 6 + i
            sub = bytes([0x00, (plen + 1) // 2]) + H._filler(plen + (plen & 1))
            blocks.append((n, 0x12345678, sub))
        modelow = p["hybrid"] | (p["joint"] << 1) | (p["float"] << 4)
        return self.line(p["version"], p["total_samples"], p["bytes_per_sample"], p["mono"], modelow, p["shift"], p["rate_index"], 0, blocks)

    def lattice(self, rng, scale):
        out = []

        def add(label, version=0x407, total=1000, bps=2, mono=0, modelow=2, shiftmag=0, ri=9, modehigh=0, blocks=None, suffix=b"", fi=0):
            out.append((label, self.line(version, total, bps, mono, modelow, shiftmag, ri, modehigh, blocks or [(22050, 7, b"\0\1ab")], fi), suffix))

        # a stream cut out of a longer one: the first block's index is not 0; the samples present are those of the blocks,
        # whatever the header's total says (known or unknown)
        for fi in (1, 22050, 2 ** 31, 2 ** 32 - 1, 2 ** 32 + 5, 2 ** 39, 2 ** 32, 2 ** 33):
            for n in (1, 2, 3, 7):
                blocks = [(rng.randrange(1, 1 << 16), rng.randrange(1 << 32), rbytes(rng, rng.choice([0, 2, 33]))) for _ in range(n)]
                for total in (-1, 1000, 10 ** 6, 2 ** 32 - 2):
                    for suffix in (b"", b"\0" * 31, b"APETAGEX" + b"\0" * 24):
                        add("first-index", total=total, blocks=blocks, fi=fi, suffix=suffix, ri=rng.randrange(15), mono=rng.randrange(2))

        for ri in range(15):
            for mono in (0, 1):
                for bps in (1, 2, 3, 4):
                    add("row", ri=ri, mono=mono, bps=bps, total=rng.randrange(1 << 32))
        for v in edges(16):
            add("version", version=v)
        for t in edges(32, 0, 2 ** 32 - 2) + [-1]:
            add("total", total=t)
        for t in [2 ** 32 - 1, 2 ** 32, 2 ** 33 + 5, 2 ** 40 - 300, 2 ** 32 - 2]:
            add("total40", total=t, version=0x410)
        for m in edges(8):
            add("modelow", modelow=m)
        for m in edges(10):
            add("shiftmag", shiftmag=m)
        for m in range(16):
            add("modehigh", modehigh=m)
        for s in edges(32):
            add("blocksamples", total=-1, blocks=[(s, 1, b""), (5, 2, b"x" * 7), (s, 3, b"")])
        for n in (1, 2, 3, 10, 40):
            blocks = [(rng.randrange(1 << 20), rng.randrange(1 << 32), rbytes(rng, rng.choice([0, 1, 2, 31, 32, 33, 100]))) for _ in range(n)]
            for suffix in (b"", b"\0" * 31, b"wvp" + b"\0" * 40, b"xvpk" + b"\0" * 40, b"APETAGEX" + b"\0" * 24, b"wvpk" + b"\0" * 27):
                add("chain", total=-1, blocks=blocks, suffix=suffix)
                add("chain-known", total=12345, blocks=blocks, suffix=suffix)
        for _ in range(20 * scale):
            blocks = [(rng.randrange(1 << rng.choice([4, 16, 32])), rng.randrange(1 << 32), rbytes(rng, rng.randrange(0, 40)))
                      for _ in range(rng.randrange(1, 5))]
            add("random", version=rng.randrange(1 << 16), total=rng.choice([-1, rng.randrange(2 ** 32 - 1)]), bps=rng.randrange(1, 5),
                mono=rng.randrange(2), modelow=rng.randrange(256), shiftmag=rng.randrange(1024), ri=rng.randrange(15),
                modehigh=rng.randrange(16), blocks=blocks, suffix=rbytes(rng, rng.choice([0, 3, 31, 32, 50])))
        return out

    def raw(self, rng, scale):
        out = []

        def hdr(size=24, version=0x407, b10=0, b11=0, total=1000, index=0, samples=100, flags=0x1821 | (9 << 23), crc=0, magic=b"wvpk"):
            return magic + struct.pack("<IHBBIIIII", size, version, b10, b11, total, index, samples, flags, crc)

        for ri in range(16):
            for dsd in (0, 1):
                out.append(("rate-index", hdr(flags=0x1821 | (ri << 23) | (dsd << 31))))
        for bit in range(32):
            out.append(("flag-bit", hdr(flags=1 << bit)))
            out.append(("flag-bit", hdr(flags=(0xFFFFFFFF ^ (1 << bit)) & ~(0xF << 23) | (3 << 23))))
        for idx in (1, 2, 2 ** 32 - 1):
            out.append(("index-nonzero", hdr(index=idx) + b"\0" * 10 + hdr(samples=7)))
        # block sizes below 24 make the relative seek go backwards into the header just read
        for size in list(range(0, 40)) + [2 ** 32 - 1, 2 ** 31]:
            tail = b"".join(hdr(samples=3 + i, size=rng.choice([0, 8, 16, 24])) for i in range(4))
            out.append(("small-size", hdr(size=size, total=0xFFFFFFFF) + tail))
        # headers every 8 bytes
        out.append(("dense", b"".join(b"wvpk" + struct.pack("<I", 0) for _ in range(40))))
        out.append(("dense", b"".join(b"wvpk" + struct.pack("<I", 0xFFFFFFFF) for _ in range(40))))
        for b10, b11 in ((1, 0), (0, 1), (255, 255)):
            out.append(("upper-bytes", hdr(b10=b10, b11=b11)))
        for _ in range(30 * scale):
            out.append(("random-header", b"wvpk" + rbytes(rng, rng.choice([28, 28, 60, 100]))))
        return out


# ----------------------------------------------------------------------------------------------
# Monkey's Audio

class MonkeysAudioFmt(Fmt):
    theorems = {'APE': 'ape_info_decodes_partial', 'APE_OLD': 'apeold_info_decodes_partial'}
    name = "MonkeysAudio"
    hm_kinds = ("APE", "APE_OLD")
    info_path = "mutagen.monkeysaudio.MonkeysAudioInfo"
    file_path = "mutagen.monkeysaudio.MonkeysAudio"
    attrs = (("version", "version", "ratio"), ("channels", "channels", "int"), ("sample_rate", "sample_rate", "int"),
             ("bits_per_sample", "bits_per_sample", "int"), ("length", "length", "ratio"))

    @staticmethod
    def new_line(version=3990, padding=0, extra=b"", hb=24, stb=0, hdb=0, fdb=0, fdbh=0, tb=0, md5=bytes(range(16)), cl=2000, ff=0,
                 bpf=73728 * 4, ffb=1000, tf=3, bits=16, ch=2, rate=44100):
        return ("infoa op=build kind=APE version=%d padding=%d extra=%s hb=%d stb=%d hdb=%d fdb=%d fdbh=%d tb=%d md5=%s cl=%d ff=%d bpf=%d ffb=%d "
                "tf=%d bits=%d ch=%d rate=%d" % (version, padding, hx(extra), hb, stb, hdb, fdb, fdbh, tb, hx(md5), cl, ff, bpf, ffb, tf, bits, ch, rate))

    @staticmethod
    def old_line(version=3970, cl=2000, ff=0, ch=2, rate=44100, tb=0, tf=3, ffb=1000, peak=0, seek=0, wav=b""):
        return "infoa op=build kind=APE_OLD version=%d cl=%d ff=%d ch=%d rate=%d tb=%d tf=%d ffb=%d peak=%d seek=%d wav=%s" % (
            version, cl, ff, ch, rate, tb, tf, ffb, peak, seek, hx(wav))

    def spec_line(self, kind, p):
        H = hm()
        if kind == "APE":
            nseek = min(p["total_frames"], 16)
            return self.new_line(p["version"], 0, b"\0" * (p["descriptor_bytes"] - 52), 24, 4 * nseek, 0, 40 * max(nseek, 1), 0, 0, bytes(range(16)),
                                 p["compression_level"], p["format_flags"], p["blocks_per_frame"], p["final_frame_blocks"], p["total_frames"],
                                 p["bits"], p["channels"], p["rate"])
        flags = p["format_flags"]
        bits = 8 if flags & 1 else 24 if flags & 8 else 16
        wav = b"" if flags & 32 else H._wav_header(p["channels"], p["rate"], bits, 0)
        return self.old_line(p["version"], p["compression_level"], flags, p["channels"], p["rate"], 0, p["total_frames"], p["final_frame_blocks"],
                             12345, min(p["total_frames"], 16), wav)

    def spec_len(self, kind, p, data):
        if kind == "APE":
            return p["descriptor_bytes"] + 24
        flags = p["format_flags"]
        return 32 + (4 if flags & 4 else 0) + (4 if flags & 16 else 0) + (0 if flags & 32 else 44)

    def lattice(self, rng, scale):
        H = hm()
        out = []
        pad = b"\x55" * 80

        def new(label, **kw):
            out.append((label, self.new_line(**kw), pad))

        def old(label, **kw):
            out.append((label, self.old_line(**kw), pad))

        for v in edges(16, 3980) + [3979, 3980, 3981]:
            new("version", version=v)
        for name, bits in (("padding", 16), ("hb", 32), ("stb", 32), ("hdb", 32), ("fdb", 32), ("fdbh", 32), ("tb", 32), ("cl", 16), ("ff", 16),
                           ("bpf", 32), ("ffb", 32), ("tf", 32), ("bits", 16), ("ch", 16), ("rate", 32)):
            for v in edges(bits):
                new(name, **{name: v})
        for n in (1, 4, 8, 24, 100):
            new("extra", extra=rbytes(rng, n))
        for tf in edges(32):
            new("max-blocks", tf=tf, bpf=2 ** 32 - 1, ffb=2 ** 32 - 1, rate=rng.choice([1, 44100, 2 ** 32 - 1]))
        for v in [0, 1, 3199, 3200, 3799, 3800, 3801, 3899, 3900, 3901, 3949, 3950, 3951, 3979]:
            for cl in (1000, 2000, 3000, 3999, 4000, 4001, 5000):
                old("bpf-rule", version=v, cl=cl)
        for ff in range(64):
            bits = 8 if ff & 1 else 24 if ff & 8 else 16
            for wav in (b"", H._wav_header(2, 44100, bits, 1000), H._wav_header(1, 8000, 16, 0)[:20], b"RIFX" + rbytes(rng, 50)):
                if ff & 32 and wav:
                    continue
                old("flags", ff=ff, wav=wav, peak=rng.randrange(1 << 32), seek=rng.randrange(1 << 32))
        for name, bits in (("cl", 16), ("ff", 16), ("ch", 16), ("rate", 32), ("tb", 32), ("tf", 32), ("ffb", 32), ("peak", 32), ("seek", 32)):
            for v in edges(bits):
                old(name, **dict({"ff": 4 | 16, "wav": H._wav_header(2, 44100, 16, 0)}, **{name: v}))
        for _ in range(20 * scale):
            new("random", version=rng.randrange(3980, 1 << 16), padding=rng.randrange(1 << 16), hb=rng.randrange(1 << 32), stb=rng.randrange(1 << 32),
                md5=rbytes(rng, 16), cl=rng.randrange(1 << 16), ff=rng.randrange(1 << 16), bpf=rng.randrange(1 << 32), ffb=rng.randrange(1 << 32),
                tf=rng.randrange(1 << rng.choice([1, 8, 32])), bits=rng.randrange(1 << 16), ch=rng.randrange(1 << 16), rate=rng.randrange(1 << 32))
            ff = rng.randrange(32)
            old("random", version=rng.randrange(3980), cl=rng.choice([1000, 2000, 4000, rng.randrange(1 << 16)]), ff=ff, ch=rng.randrange(1 << 16),
                rate=rng.randrange(1 << 32), tf=rng.randrange(1 << rng.choice([1, 8, 32])), ffb=rng.randrange(1 << 32),
                wav=rng.choice([b"", H._wav_header(2, 44100, rng.choice([8, 16, 24]), 77), rbytes(rng, 44)]))
        return out

    def raw(self, rng, scale):
        out = []
        for n in (0, 3, 4, 32, 75, 76, 77):
            out.append(("short", (b"MAC " + struct.pack("<H", 3990) + b"\0" * 100)[:n]))
            out.append(("short", (b"MAC " + struct.pack("<H", 3970) + b"\0" * 100)[:n]))
        for off in range(40, 56):
            out.append(("wavefmt-offset", b"MAC " + struct.pack("<H", 3970) + b"\1" * (off - 6) + b"WAVEfmt " + b"\2" * 40))
        for _ in range(30 * scale):
            out.append(("random-header", b"MAC " + struct.pack("<H", rng.choice([3970, 3990, rng.randrange(1 << 16)])) + rbytes(rng, rng.choice([70, 70, 80]))))
        return out


# ----------------------------------------------------------------------------------------------
# OptimFROG

class OptimFROGFmt(Fmt):
    theorems = {'OptimFROG': 'ofr_info_decodes'}
    name = "OptimFROG"
    hm_kinds = ("OptimFROG",)
    info_path = "mutagen.optimfrog.OptimFROGInfo"
    file_path = "mutagen.optimfrog.OptimFROG"
    attrs = (("channels", "channels", "int"), ("sample_rate", "sample_rate", "int"), ("bits_per_sample", "bits_per_sample", "optint"),
             ("length", "length", "ratio"), ("encoder_info", "encoder_info", "str"))

    @staticmethod
    def line(total=1000, st=2, ch=2, rate=44100, size=15, enc=0x2580, comp=3, extra=b""):
        return "infoa op=build kind=OptimFROG total=%d st=%d ch=%d rate=%d size=%d enc=%d comp=%d extra=%s" % (total, st, ch, rate, size, enc, comp, hx(extra))

    def spec_line(self, kind, p):
        return self.line(p["total_samples"], p["sample_type"], p["channels"], p["rate"], p["header_size"], p["encoder_id"], 3)

    def spec_len(self, kind, p, data):
        return 8 + (15 if p["header_size"] >= 15 else 12)

    def lattice(self, rng, scale):
        out = []
        pad = b"COMP" + b"\x33" * 80

        def add(label, suffix=pad, **kw):
            out.append((label, self.line(**kw), suffix))

        for st in range(10):
            for size in (12, 15):
                add("sample-type", st=st, size=size)
        for t in edges(48):
            add("total", total=t)
        for ch in [0, 1, 2, 3, 255, 256, 257]:
            add("channels", ch=ch, total=ch * 999)
        for r in edges(32):
            add("rate", rate=r)
        for enc in sorted(set(edges(16) + [15, 16, 17, 0x1F3F, 0x1F40, 0x1F4F, 0x1F50, 7999, 8000, 8015, 8016, 0x3E7F, 0x3E80, 87999 & 0xFFFF])):
            add("encoder", enc=enc)
        for n in (0, 1, 5, 40):
            add("extra", extra=rbytes(rng, n))
        for n in (0, 10, 52, 53, 54):
            add("short-file", suffix=b"\1" * n)
        for _ in range(25 * scale):
            add("random", total=rng.randrange(1 << 48), st=rng.randrange(8), ch=rng.randrange(1, 257), rate=rng.randrange(1, 1 << 32),
                size=rng.choice([12, 15]), enc=rng.randrange(1 << 16), comp=rng.randrange(256))
        return out

    def raw(self, rng, scale):
        out = []
        for size in list(range(0, 20)) + [2 ** 32 - 1, 2 ** 31]:
            out.append(("block-size", b"OFR " + struct.pack("<I", size) + rbytes(rng, 80)))
        for st in (8, 9, 100, 255):
            out.append(("sample-type", b"OFR " + struct.pack("<IIHBBI", 12, 1000, 0, st, 1, 44100) + b"\0" * 60))
        for _ in range(30 * scale):
            out.append(("random-header", b"OFR " + struct.pack("<I", rng.choice([12, 15, 16])) + rbytes(rng, rng.choice([67, 68, 69, 100]))))
        return out


# ----------------------------------------------------------------------------------------------
# True Audio

def syncsafe(n):
    return bytes([(n >> 21) & 0x7F, (n >> 14) & 0x7F, (n >> 7) & 0x7F, n & 0x7F])


class TrueAudioFmt(Fmt):
    theorems = {'TTA': 'tta_info_decodes'}
    name = "TrueAudio"
    hm_kinds = ("TTA",)
    info_path = "mutagen.trueaudio.TrueAudioInfo"
    file_path = "mutagen.trueaudio.TrueAudio"
    attrs = (("sample_rate", "sample_rate", "int"), ("length", "length", "ratio"))

    def info(self, data, case=None):
        return cls_of(self.info_path)(io.BytesIO(data), (case or {}).get("prefix_len", 0) or None)

    def public(self, data, case=None):
        off = (case or {}).get("prefix_len", 0)
        if (off and not data.startswith(b"ID3")) or (not off and data.startswith(b"ID3")):
            return None
        return cls_of(self.file_path)(io.BytesIO(data)).info

    def parse_args(self, case):
        return " offset=%d" % (case or {}).get("prefix_len", 0)

    @staticmethod
    def line(fmt=1, ch=2, bits=16, rate=44100, samples=88200):
        return "infoa op=build kind=TTA format=%d ch=%d bits=%d rate=%d samples=%d" % (fmt, ch, bits, rate, samples)

    def spec_line(self, kind, p):
        return self.line(p["format"], p["channels"], p["bits"], p["rate"], p["samples"])

    def spec_len(self, kind, p, data):
        return 22

    def lattice(self, rng, scale):
        out = []

        def add(label, prefix=b"", suffix=b"\x11" * 30, **kw):
            out.append((label, self.line(**kw), suffix, prefix))

        for name, bits in (("fmt", 16), ("ch", 16), ("bits", 16), ("rate", 32), ("samples", 32)):
            for v in edges(bits):
                add(name, **{name: v})
        for n in (0, 1, 100, 1000):
            add("id3-prefix", prefix=b"ID3\x04\x00\x00" + syncsafe(n) + b"\0" * n)
        for n in (1, 7, 200):
            add("junk-prefix", prefix=rbytes(rng, n))
        for n in range(0, 6):
            add("no-crc", suffix=b"")
        for _ in range(25 * scale):
            add("random", fmt=rng.randrange(1 << 16), ch=rng.randrange(1 << 16), bits=rng.randrange(1 << 16), rate=rng.randrange(1 << 32),
                samples=rng.randrange(1 << 32), suffix=rbytes(rng, rng.randrange(0, 9)))
        return out

    def raw(self, rng, scale):
        out = []
        for m in (b"TTA1", b"TTA2", b"TTA\0", b"TTB1", b"tta1", b"\0TTA", b"ID3\x04"):
            out.append(("magic", m + struct.pack("<HHHII", 1, 2, 16, 48000, 96000)))
        for n in range(0, 23):
            out.append(("short", (b"TTA1" + struct.pack("<HHHII", 1, 2, 16, 48000, 96000) + b"abcd")[:n]))
        for _ in range(30 * scale):
            out.append(("random-header", b"TTA" + rbytes(rng, rng.choice([14, 15, 16, 40]))))
        return out


# ----------------------------------------------------------------------------------------------
# TAK

class TakFmt(Fmt):
    theorems = {'TAK': 'tak_info_decodes'}
    name = "TAK"
    hm_kinds = ("TAK",)
    info_path = "mutagen.tak.TAKInfo"
    file_path = "mutagen.tak.TAK"
    attrs = (("channels", "channels", "int"), ("sample_rate", "sample_rate", "int"), ("bits_per_sample", "bits_per_sample", "int"),
             ("length", "length", "ratio"), ("encoder_info", "encoder_info", "str"))

    @staticmethod
    def line(codec=2, profile=2, fdt=3, samples=1000, dt=0, rate=44100, bits=16, ch=2, hasext=0, ext=b"", pre=(), post=()):
        def ml(ms):
            return (",".join(str(t) for t, _ in ms), ",".join(hx(p) for _, p in ms))
        pt, pp = ml(pre)
        qt, qp = ml(post)
        return ("infoa op=build kind=TAK codec=%d profile=%d fdt=%d samples=%d dt=%d rate=%d bits=%d ch=%d hasext=%d ext=%s pt=%s pp=%s qt=%s qp=%s" % (
            codec, profile, fdt, samples, dt, rate, bits, ch, hasext, hx(ext), pt, pp, qt, qp))

    def spec_line(self, kind, p):
        enc = [(4, bytes([p["enc_patch"], p["enc_minor"], p["enc_major"], 2]))] if p["with_encoder"] else []
        first = p["order"] == "enc-first" and p["with_encoder"]
        pre = enc if first else []
        post = ([] if first else enc) + [(6, bytes(range(16))), (5, b"\x00" * 12)]
        ext = bytes([p["bits"] - 8]) if p["has_extension"] else b""
        return self.line(p["codec"], p["profile"], p["frame_duration_type"], p["samples"], 0, p["rate"], p["bits"], p["channels"],
                         p["has_extension"], ext, pre, post)

    def spec_len(self, kind, p, data):
        return len(data) - 64

    def lattice(self, rng, scale):
        out = []

        def add(label, suffix=b"\x21" * 20, **kw):
            out.append((label, self.line(**kw), suffix))

        for name, bits, lo in (("codec", 6, 0), ("profile", 4, 0), ("fdt", 4, 0), ("samples", 35, 0), ("dt", 3, 0), ("hasext", 1, 0)):
            for v in edges(bits, lo):
                add(name, **{name: v})
        for v in edges(18):
            add("rate", rate=6000 + v)
        for v in range(32):
            add("bits", bits=8 + v)
        for v in range(16):
            add("channels", ch=1 + v)
        add("out-of-range", rate=5999)
        add("out-of-range", bits=7)
        add("out-of-range", ch=0)
        add("out-of-range", ch=17)
        for n in range(0, 13):
            add("ext", ext=rbytes(rng, n), hasext=1)
        encs = [(4, bytes([1, 2, 3, 4])), (4, bytes([255, 0, 255])), (4, bytes([9, 8, 7, 6, 5, 4]))]
        others = [(2, b""), (3, rbytes(rng, 30)), (5, b"\0" * 12), (6, bytes(range(16))), (7, rbytes(rng, 5)), (127, b"x"), (8, rbytes(rng, 300))]
        for pre in ([], [encs[0]], [others[0], encs[1]], [encs[0], others[3], encs[2]], others[:3]):
            for post in ([], [encs[1]], [others[4], encs[2], others[5]], others[3:], [encs[0], encs[1]]):
                add("blocks", pre=pre, post=post)
        add("bad-block", pre=[(4, b"ab")])
        add("bad-block", pre=[(1, rbytes(rng, 10))])
        add("bad-block", post=[(0, b"abc")])
        add("bad-block", post=[(1, bytes(10))])
        add("bad-block", post=[(1, bytes(range(10, 22)))])
        for _ in range(25 * scale):
            def blocks():
                return [rng.choice(encs + others + [(rng.randrange(2, 128), rbytes(rng, rng.randrange(3, 20)))]) for _ in range(rng.randrange(0, 4))]
            add("random", codec=rng.randrange(64), profile=rng.randrange(16), fdt=rng.randrange(16), samples=rng.randrange(1 << 35), dt=rng.randrange(8),
                rate=6000 + rng.randrange(1 << 18), bits=8 + rng.randrange(32), ch=1 + rng.randrange(16), hasext=rng.randrange(2),
                ext=rbytes(rng, rng.randrange(0, 11)), pre=blocks(), post=blocks(), suffix=rbytes(rng, rng.randrange(0, 10)))
        return out

    def raw(self, rng, scale):
        out = []

        def meta(t, size, payload):
            return bytes([t]) + struct.pack("<I", size)[:3] + payload

        si = bytes(range(1, 11))
        for size in list(range(0, 30)) + [2 ** 24 - 1]:
            out.append(("si-size", b"tBaK" + meta(1, size, si + b"\0" * 30) + meta(0, 0, b"") + b"\0" * 40))
        for t in range(0, 256, 1):
            out.append(("type-byte", b"tBaK" + meta(t, 13, si + b"crc") + meta(1, 13, si + b"crc") + meta(0, 0, b"")))
        for size in (0, 1, 2, 3, 4, 100):
            out.append(("enc-size", b"tBaK" + meta(1, 13, si + b"crc") + meta(4, size, b"\1\2\3\4\5\6\7"[:max(size, 3)]) + meta(0, 0, b"") + b"\0" * 8))
        out.append(("no-end", b"tBaK" + meta(1, 13, si + b"crc")))
        out.append(("no-streaminfo", b"tBaK" + meta(4, 7, b"\1\2\3\4crc") + meta(0, 0, b"")))
        out.append(("two-streaminfo", b"tBaK" + meta(1, 13, si + b"crc") + meta(1, 13, bytes(range(50, 60)) + b"crc") + meta(0, 0, b"")))
        for _ in range(40 * scale):
            n = rng.randrange(1, 5)
            body = b"".join(meta(rng.choice([0, 1, 1, 4, 5, rng.randrange(256)]), rng.choice([0, 3, 10, 11, 13, 14, 23, 24, rng.randrange(40)]),
                                 rbytes(rng, rng.randrange(0, 30))) for _ in range(n))
            out.append(("random-blocks", b"tBaK" + body))
        return out


# ----------------------------------------------------------------------------------------------
# Musepack

def mpc_varint(v):
    out = [v & 0x7F]
    v >>= 7
    while v:
        out.append(0x80 | (v & 0x7F))
        v >>= 7
    return bytes(reversed(out))


def mpc_packet(key, payload):
    size = len(payload) + 2 + 1
    while len(mpc_varint(size)) + 2 + len(payload) != size:
        size += 1
    return key + mpc_varint(size) + payload


class MusepackFmt(Fmt):
    theorems = {'MPC_SV7': 'mpc_sv7_info_decodes_partial', 'MPC_SV8': 'mpc_sv8_info_decodes'}
    name = "Musepack"
    hm_kinds = ("MPC_SV7", "MPC_SV8")
    info_path = "mutagen.musepack.MusepackInfo"
    file_path = "mutagen.musepack.Musepack"
    attrs = (("version", "version", "int"), ("channels", "channels", "int"), ("sample_rate", "sample_rate", "int"),
             ("length", "length", "ratio"), ("bitrate", "bitrate", "bitrate"), ("title_gain", "title_gain", "rg-gain"),
             ("title_peak", "title_peak", "rg-peak"), ("album_gain", "album_gain", "rg-gain"), ("album_peak", "album_peak", "rg-peak"))

    @staticmethod
    def line7(minor=0, frames=1000, is_=0, ms=1, maxband=31, profile=10, link=0, ri=0, maxlevel=0, tp=0, tg=0, ap=0, ag=0, gapless=0, last=0,
              fastseek=0, u5=0, enc=118, u6=0):
        return ("infoa op=build kind=MPC_SV7 minor=%d frames=%d is=%d ms=%d maxband=%d profile=%d link=%d ri=%d maxlevel=%d tp=%d tg=%d ap=%d ag=%d "
                "gapless=%d last=%d fastseek=%d u5=%d enc=%d u6=%d" % (minor, frames, is_, ms, maxband, profile, link, ri, maxlevel, tp, tg, ap, ag,
                                                                      gapless, last, fastseek, u5, enc, u6))

    @staticmethod
    def line8(crc=0x01020304, ver=8, samples=100000, silence=10, ri=0, maxbands=32, ch=2, ms=1, bp=3, shpad=b"", mid=(), rgver=1, tg=0, tp=0, ag=0,
              ap=0, rgpad=b""):
        return ("infoa op=build kind=MPC_SV8 crc=%d ver=%d samples=%d silence=%d ri=%d maxbands=%d ch=%d ms=%d bp=%d shpad=%s mk=%s mp=%s rgver=%d "
                "tg=%d tp=%d ag=%d ap=%d rgpad=%s" % (crc, ver, samples, silence, ri, maxbands, ch, ms, bp, hx(shpad), ",".join(hx(k) for k, _ in mid),
                                                     ",".join(hx(p) for _, p in mid), rgver, tg, tp, ag, ap, hx(rgpad)))

    def spec_line(self, kind, p):
        if kind == "MPC_SV7":
            return self.line7(p["minor"], p["frames"], 0, p["ms"], p["max_band"], p["profile"], p["link"], p["rate_index"], p["max_level"],
                              p["title_peak"], p["title_gain"], p["album_peak"], p["album_gain"], p["true_gapless"], p["last_frame_samples"],
                              p["fast_seek"], 0, p["encoder"], 0)
        H = hm()
        body = bytes([8]) + mpc_varint(p["samples"]) + mpc_varint(p["begin_silence"]) + H._BW().put(p["rate_index"], 3).put(p["max_bands"] - 1, 5) \
            .put(p["channels"] - 1, 4).put(p["ms"], 1).put(p["block_pwr"], 3).bytes()
        return self.line8(zlib.crc32(body) & 0xFFFFFFFF, 8, p["samples"], p["begin_silence"], p["rate_index"], p["max_bands"], p["channels"], p["ms"],
                          p["block_pwr"])

    def spec_len(self, kind, p, data):
        if kind == "MPC_SV7":
            return 28
        body_len = 1 + len(mpc_varint(p["samples"])) + len(mpc_varint(p["begin_silence"])) + 2
        return 4 + len(mpc_packet(b"SH", b"\0" * (4 + body_len))) + len(mpc_packet(b"RG", b"\0" * 9))

    def lattice(self, rng, scale):
        out = []
        tail7 = b"\x13" * 40
        tail8 = mpc_packet(b"EI", b"\1\2\3\4\5\6\7") + mpc_packet(b"AP", b"x" * 20) + mpc_packet(b"SE", b"")

        def a7(label, suffix=tail7, **kw):
            out.append((label, self.line7(**kw), suffix))

        def a8(label, suffix=tail8, **kw):
            out.append((label, self.line8(**kw), suffix))

        for name, bits in (("minor", 4), ("frames", 32), ("is_", 1), ("ms", 1), ("maxband", 6), ("profile", 4), ("link", 2), ("maxlevel", 16),
                           ("tp", 16), ("ap", 16), ("fastseek", 1), ("u5", 19), ("enc", 8), ("u6", 24), ("last", 11)):
            for v in edges(bits):
                a7("sv7-" + name, **{name: v})
        for ri in range(4):
            for gl in (0, 1):
                a7("sv7-rate", ri=ri, gapless=gl, last=rng.randrange(1, 1153) if gl else 0, frames=rng.randrange(1, 1 << 32))
        for g in (-32768, -32767, -1, 0, 1, 32766, 32767):
            a7("sv7-gain", tg=g, ag=-g - 1)
        for n in (0, 1, 2, 3, 4, 5):
            a7("sv7-short", suffix=b"\0" * n)
        for ri in range(4):
            for ch in (1, 2, 16):
                a8("sv8-rate", ri=ri, ch=ch)
        for name, bits, lo in (("crc", 32, 0), ("ver", 8, 0), ("maxbands", 5, 1), ("ms", 1, 0), ("bp", 3, 0), ("rgver", 8, 0), ("tp", 15, 0), ("ap", 15, 0)):
            for v in edges(bits, lo):
                a8("sv8-" + name, **{name: v})
        a8("sv8-maxbands", maxbands=32)
        for v in sorted(set(edges(63) + [127, 128, 16383, 16384, 2 ** 21 - 1, 2 ** 21, 2 ** 28, 2 ** 35, 2 ** 42, 2 ** 49, 2 ** 56 - 1, 2 ** 56])):
            a8("sv8-samples", samples=v, silence=0)
            a8("sv8-samples", samples=v, silence=v)
            a8("sv8-samples", samples=0, silence=v)
        for g in (-32768, -1, 0, 1, 32767):
            a8("sv8-gain", tg=g, ag=-g - 1, tp=rng.randrange(1 << 15), ap=rng.randrange(1 << 15))
        for peak in (32768, 65535):
            a8("sv8-peak-unsigned", tp=peak, ap=peak)
        mids = [(b"EI", b"\1\2\3\4\5\6\7"), (b"AA", b""), (b"ZZ", rbytes(rng, 200)), (b"ST", rbytes(rng, 130)), (b"SO", rbytes(rng, 17000))]
        for mid in ([], mids[:1], mids[:3], mids, [mids[4], mids[4]]):
            for pad in (b"", b"\0", b"\0" * 120):
                a8("sv8-mid", mid=mid, shpad=pad, rgpad=pad)
        for suffix in (b"", b"A", b"AP", b"ap\x03", b"@A\x03", b"SE\x03", b"ZZ", b"Z[\x03", b"B\x00\x03"):
            a8("sv8-next-key", suffix=suffix)
        for _ in range(25 * scale):
            a7("sv7-random", minor=rng.randrange(16), frames=rng.randrange(1, 1 << 32), is_=rng.randrange(2), ms=rng.randrange(2), maxband=rng.randrange(64),
               profile=rng.randrange(16), link=rng.randrange(4), ri=rng.randrange(4), maxlevel=rng.randrange(1 << 16), tp=rng.randrange(1 << 16),
               tg=rng.randrange(-32768, 32768), ap=rng.randrange(1 << 16), ag=rng.randrange(-32768, 32768), gapless=0, last=rng.randrange(1 << 11),
               fastseek=rng.randrange(2), u5=rng.randrange(1 << 19), enc=rng.randrange(256), u6=rng.randrange(1 << 24), suffix=rbytes(rng, rng.randrange(4, 30)))
            s = rng.randrange(1 << rng.choice([7, 20, 40, 63]))
            a8("sv8-random", crc=rng.randrange(1 << 32), ver=rng.randrange(256), samples=s, silence=rng.randrange(0, min(s, 5000) + 1), ri=rng.randrange(4),
               maxbands=rng.randrange(1, 33), ch=rng.randrange(1, 17), ms=rng.randrange(2), bp=rng.randrange(8), shpad=b"\0" * rng.randrange(0, 5),
               mid=[rng.choice(mids[:4]) for _ in range(rng.randrange(0, 3))], rgver=rng.randrange(256), tg=rng.randrange(-32768, 32768),
               tp=rng.randrange(1 << 15), ag=rng.randrange(-32768, 32768), ap=rng.randrange(1 << 15), rgpad=b"\0" * rng.randrange(0, 4))
        return out

    def raw(self, rng, scale):
        out = []
        sh_body = bytes([8]) + mpc_varint(100000) + mpc_varint(10) + bytes([0x3F, 0x1B])
        sh = mpc_packet(b"SH", b"\1\2\3\4" + sh_body)
        rg = mpc_packet(b"RG", bytes([1]) + struct.pack(">hhhh", 100, -200, 0, 32767))
        tail = mpc_packet(b"EI", b"\1\2\3\4\5\6\7") + mpc_packet(b"AP", b"x" * 20) + mpc_packet(b"SE", b"")
        out.append(("sv8-plain", b"MPCK" + sh + rg + tail))
        out.append(("sv8-order", b"MPCK" + rg + sh + tail))
        out.append(("sv8-order", b"MPCK" + mpc_packet(b"EI", b"abc") + sh + mpc_packet(b"XY", b"") + rg + tail))
        out.append(("sv8-dup", b"MPCK" + sh + sh + rg + tail))
        out.append(("sv8-dup", b"MPCK" + rg + rg + sh + tail))
        out.append(("sv8-missing", b"MPCK" + sh + tail))
        out.append(("sv8-missing", b"MPCK" + rg + tail))
        out.append(("sv8-missing", b"MPCK" + tail))
        for key in (b"AA", b"ZZ", b"A@", b"Z[", b"@Z", b"[A", b"B\0", b"Y\xff", b"aa", b"A", b""):
            out.append(("sv8-key", b"MPCK" + key + b"\x03" + sh + rg + tail))
            out.append(("sv8-key", b"MPCK" + sh + key + b"\x03" + rg + tail))
        # packet sizes: too small, huge, unterminated varints
        for size in (b"\0", b"\1", b"\2", b"\3", b"\4", b"\x80\x03", b"\x80" * 8 + b"\x03", b"\x80" * 9 + b"\x03", b"\xff" * 8 + b"\x7f",
                     b"\xff" * 9, b"\xc0" + b"\x80" * 7 + b"\0", b"\xbf" + b"\xff" * 7 + b"\x7f", b"\xff" * 8 + b"\x70", b"\xff" * 3):
            for key in (b"EI", b"SH", b"RG"):
                out.append(("sv8-size", b"MPCK" + key + size + sh + rg + tail))
                out.append(("sv8-size", b"MPCK" + sh + key + size + rg + tail))
        for n in range(0, 14):
            out.append(("sv8-rg-size", b"MPCK" + sh + mpc_packet(b"RG", bytes(range(1, n + 1))) + tail))
            out.append(("sv8-sh-size", b"MPCK" + mpc_packet(b"SH", (b"\1\2\3\4" + sh_body + b"\0\0\0")[:n]) + rg + tail))
        for ri in range(8):
            for ch in range(16):
                out.append(("sv8-rate-ch", b"MPCK" + mpc_packet(b"SH", b"crc!" + bytes([8]) + mpc_varint(5000) + mpc_varint(0) + bytes([ri << 5 | 3, ch << 4 | 9])) + rg + tail))
        for s, k in ((0, 0), (5, 5), (5, 6), (0, 2 ** 63 - 1), (2 ** 63 - 1, 0), (2 ** 63 - 1, 2 ** 63 - 1), (2 ** 56, 1), (127, 0), (128, 0), (16383, 1), (16384, 1)):
            out.append(("sv8-samples", b"MPCK" + mpc_packet(b"SH", b"crc!" + bytes([8]) + mpc_varint(s) + mpc_varint(k) + bytes([0x20, 0x10])) + rg + tail))
        for g in (-32768, -1, 0, 1, 32767, 256, 24660):
            out.append(("sv8-gain", b"MPCK" + sh + mpc_packet(b"RG", bytes([1]) + struct.pack(">hhhh", g, -g - 1, g // 2, g)) + tail))
        # SV7 / SV4-6
        def sv7(vbyte=7, frames=1000, flags=0, tp=0, tg=0, ap=0, ag=0, rest=b"\0" * 12, magic=b"MP+"):
            return magic + bytes([vbyte]) + struct.pack("<IIHhHh", frames, flags, tp, tg, ap, ag) + rest
        for vb in range(0, 256, 1):
            out.append(("sv7-version", sv7(vbyte=vb)))
        for fr in edges(32):
            out.append(("sv7-frames", sv7(frames=fr)))
        for bit in range(32):
            out.append(("sv7-flags", sv7(flags=1 << bit)))
        for n in range(0, 12):
            out.append(("sv7-short", sv7(rest=b"\0" * n)))
        for v in range(0, 9):
            for br in (0, 1, 128, 511):
                dword = (br << 23) | (v << 11) | rng.randrange(1 << 11)
                out.append(("sv456", struct.pack("<IHH", dword, rng.randrange(1 << 16), rng.choice([0, 1, 1000, 65535])) + rbytes(rng, 40)))
        out.append(("sv456", struct.pack("<II", 5 << 11, 0) + b"\0" * 24))
        out.append(("sv456", struct.pack("<II", 6 << 11, 0) + b"\0" * 24))
        # ID3 skipping
        for n in (0, 1, 127, 128, 300):
            tag = b"ID3\x04\x00\x00" + syncsafe(n) + b"\0" * n
            out.append(("id3-skip", tag + sv7()))
            out.append(("id3-skip", tag + b"MPCK" + sh + rg + tail))
            out.append(("id3-skip", tag[:rng.randrange(4, 10 + n + 1)]))
        out.append(("id3-skip", b"ID3\x04\x00\x00\xff\xff\xff\xff" + b"\0" * 50))
        out.append(("id3-skip", b"ID3\x04\x00\x00\x80\x80\x80\x8a" + sv7()))
        for _ in range(40 * scale):
            out.append(("random", rng.choice([b"MPCK", b"MP+\x07", b"MP+\x17", b""]) + rbytes(rng, rng.randrange(0, 60))))
            n = rng.randrange(1, 5)
            out.append(("random-packets", b"MPCK" + b"".join(rng.choice([b"SH", b"RG", b"EI", b"AP", b"SE", b"QQ"]) + bytes([rng.randrange(0, 30)]) + rbytes(rng, rng.randrange(0, 25)) for _ in range(n))))
        return out


# ----------------------------------------------------------------------------------------------
# AAC (ADTS / ADIF)

class BW(object):
    """MSB-first bit writer"""
    def __init__(self):
        self.v = 0
        self.n = 0

    def put(self, val, bits):
        assert 0 <= val < (1 << bits)
        self.v = (self.v << bits) | val
        self.n += bits
        return self

    def bytes(self):
        pad = (-self.n) % 8
        return ((self.v << pad).to_bytes((self.n + pad) // 8, "big")) if self.n else b""


def adts_frame(flen=64, sfi=4, cc=2, pa=1, nordbif=0, id_=0, layer=0, profile=1, priv=0, orig=0, home=0, cbits=0, bf=0x7FF, sync=0xFFF, body=None, fill=0x21):
    w = BW().put(sync, 12).put(id_, 1).put(layer, 2).put(pa, 1).put(profile, 2).put(sfi, 4).put(priv, 1).put(cc, 3).put(orig, 1).put(home, 1)
    w.put(cbits, 2).put(flen, 13).put(bf, 11).put(nordbif, 2)
    return w.bytes() + (body if body is not None else bytes([fill]) * max(flen - 7, 0))


def pce_bits(w, sfi=4, front=(1,), side=(), back=(), lfe=0, assoc=0, cc=0, mono=None, stereo=None, matrix=None, comment=b"", tag=0, ot=1):
    w.put(tag, 4).put(ot, 2).put(sfi, 4).put(len(front), 4).put(len(side), 4).put(len(back), 4).put(lfe, 2).put(assoc, 3).put(cc, 4)
    for x in (mono, stereo):
        if x is None:
            w.put(0, 1)
        else:
            w.put(1, 1).put(x, 4)
    if matrix is None:
        w.put(0, 1)
    else:
        w.put(1, 1).put(matrix, 3)
    for e in list(front) + list(side) + list(back):
        w.put(e, 1).put(3, 4)
    for _ in range(lfe):
        w.put(1, 4)
    for _ in range(assoc):
        w.put(2, 4)
    for _ in range(cc):
        w.put(9, 5)
    w.put(0, (-w.n) % 8)
    w.put(len(comment), 8)
    for c in comment:
        w.put(c, 8)
    return w


def adif_file(bitrate=128000, copyright=None, btype=0, pces=None, payload=b"\x21" * 50, orig=0, home=0, fullness=0):
    w = BW()
    for c in b"ADIF":
        w.put(c, 8)
    if copyright is None:
        w.put(0, 1)
    else:
        w.put(1, 1)
        for c in copyright:
            w.put(c, 8)
    w.put(orig, 1).put(home, 1).put(btype, 1).put(bitrate, 23)
    pces = pces if pces is not None else [dict()]
    w.put(len(pces) - 1, 4)
    for i, pc in enumerate(pces):
        if btype == 0 and i == 0:
            w.put(fullness, 20)
        pce_bits(w, **pc)
    return w.bytes() + payload


class AacFmt(Fmt):
    theorems = {'AAC_ADTS': 'aac_adts_info_decodes_partial / aac_adts_info_decodes_long_partial', 'ADIF': 'aac_adif_info_decodes_partial'}
    name = "AAC"
    hm_kinds = ("AAC_ADTS",)
    info_path = "mutagen.aac.AACInfo"
    file_path = "mutagen.aac.AAC"
    attrs = (("channels", "channels", "int"), ("sample_rate", "sample_rate", "int"), ("bitrate", "bitrate", "floordiv"),
             ("length", "length", "ratio"), ("type", "_type", "text"))

    @staticmethod
    def line(id_=0, pa=1, profile=1, sfi=4, priv=0, cc=2, orig=0, home=0, frames=()):
        return ("infoa op=build kind=AAC_ADTS id=%d pa=%d profile=%d sfi=%d priv=%d cc=%d orig=%d home=%d cb=%s bf=%s nb=%s bodies=%s" % (
            id_, pa, profile, sfi, priv, cc, orig, home, ",".join(str(f[0]) for f in frames), ",".join(str(f[1]) for f in frames),
            ",".join(str(f[2]) for f in frames), ",".join(hx(f[3]) for f in frames)))

    @staticmethod
    def pce_args(sfx, tag=0, ot=1, sfi=4, front=(16,), side=(), back=(), lfe=(), assoc=(), cc=(), mono=None, stereo=None, matrix=None, comment=b""):
        """elements: is_cpe * 16 + tag; cc: ind_sw * 16 + tag"""
        def l(x):
            return ",".join(str(v) for v in x) if x else "-"
        o = lambda v: -1 if v is None else v
        return ("ptag%s=%d pot%s=%d psfi%s=%d pfront%s=%s pside%s=%s pback%s=%s plfe%s=%s passoc%s=%s pcc%s=%s pmono%s=%d pstereo%s=%d pmatrix%s=%d pcomment%s=%s" % (
            sfx, tag, sfx, ot, sfx, sfi, sfx, l(front), sfx, l(side), sfx, l(back), sfx, l(lfe), sfx, l(assoc), sfx, l(cc), sfx, o(mono), sfx, o(stereo),
            sfx, o(matrix), sfx, hx(comment)))

    def line_adif(self, cid=None, oc=0, home=0, bt=1, bitrate=128000, pces=None, payload=b"\x21" * 50):
        pces = pces if pces is not None else [(0, dict())]
        parts = ["infoa op=build kind=ADIF cid=%s oc=%d home=%d bt=%d bitrate=%d n=%d payload=%s" % (
            "none" if cid is None else hx(cid), oc, home, bt, bitrate, len(pces), hx(payload))]
        for i, (full, kw) in enumerate(pces):
            parts.append("full%d=%d %s" % (i, full, self.pce_args(str(i), **kw)))
        return " ".join(parts)

    def extra_builder_checks(self, rng, scale):
        """the program_config_element of headers_more (written independently from ISO/IEC 13818-7 / 14496-3) against Spec.Aac.Pce.bits"""
        H = hm()
        out = []
        layouts = [("S", "", "", 0), ("C", "", "", 0), ("SC", "", "C", 1), ("", "", "", 0), ("SCC", "S", "CC", 3), ("C" * 15, "S" * 15, "C" * 15, 2),
                   ("S", "C", "", 1), ("", "", "S", 0)]
        for front, side, back, lfe in layouts:
            for pos in (0, 1, 3, 7, 8, 12, 35):
                for sfi, ot in ((4, 1), (0, 0), (12, 3), (rng.randrange(13), rng.randrange(4))):
                    w = H._BW()
                    if pos:
                        w.put(0, pos)
                    H._pce_bits(w, sfi, front, side, back, lfe, ot)
                    tag = 0
                    groups = []
                    for grp in (front, side, back):
                        g = []
                        for e in grp:
                            g.append((16 if e == "C" else 0) + (tag & 15))
                            tag += 1
                        groups.append(g)
                    line = "infoa op=build kind=PCE pos=%d %s" % (pos, self.pce_args("0", 0, ot, sfi, groups[0], groups[1], groups[2], list(range(lfe))))
                    out.append((line, w.bytes(), dict(fmt="PCE", front=front, side=side, back=back, lfe=lfe, pos=pos, sfi=sfi, ot=ot)))
        return out

    def spec_line(self, kind, p):
        data = hm().BUILDERS[kind](p)[0]
        frames = []
        pos = 0
        for i in range(p["frames"]):
            flen = p["frame_length"] + (p["length_jitter"] * (i % 3) if p["length_jitter"] else 0)
            frames.append((0, p["buffer_fullness"], p["nordbif"], data[pos + 7:pos + flen]))
            pos += flen
        return self.line(p["id"], p["protection_absent"], p["profile"], p["sf_index"], p["private_bit"], p["chan_config"], p["original"], p["home"], frames)

    def lattice(self, rng, scale):
        out = []

        def add(label, suffix=b"", n=4, blen=None, cb=0, bf=0x7FF, nb=0, **kw):
            pa = kw.get("pa", 1)
            need = 0 if pa == 1 else (2 if nb == 0 else 4 * nb + 4)
            frames = [(cb, bf, nb, rbytes(rng, (blen if blen is not None else rng.randrange(need + 1, 60))).replace(b"\xff", b"\x7f")) for _ in range(n)]
            out.append((label, self.line(frames=frames, **kw), suffix))

        for sfi in range(13):
            for cc in range(8):
                add("adts-row", sfi=sfi, cc=cc, id_=rng.randrange(2), profile=rng.randrange(4))
        for name in ("id_", "pa", "priv", "orig", "home"):
            add("adts-bit", **{name: 1 if name != "pa" else 0})
        for cb in range(4):
            add("adts-copyright", cb=cb)
        for bf in edges(11):
            add("adts-fullness", bf=bf)
        for nb in range(4):
            for pa in (0, 1):
                add("adts-blocks", nb=nb, pa=pa, blen=40)
        for n in (3, 4, 50, 99, 100, 101, 130):
            add("adts-count", n=n, blen=9)
        for blen in (0, 1, 2, 8184):
            add("adts-body-len", blen=blen, n=3)
        for suffix in (b"\0", b"\0" * 9, b"\0" * 10, b"\0" * 11, b"TAG" + b"\0" * 125, b"\x7f" * 20, b"\xff\x00", b"\xff\xf1"):
            add("adts-suffix", suffix=suffix)
        for _ in range(20 * scale):
            add("adts-random", id_=rng.randrange(2), pa=rng.randrange(2), profile=rng.randrange(4), sfi=rng.randrange(13), priv=rng.randrange(2), cc=rng.randrange(8),
                orig=rng.randrange(2), home=rng.randrange(2), n=rng.randrange(3, 20), cb=rng.randrange(4), bf=rng.randrange(1 << 11), nb=rng.randrange(4), blen=rng.randrange(16, 200))
        # ADIF through the Lean builder
        def adif(label, **kw):
            out.append((label, self.line_adif(**kw), b""))

        pcs = [dict(), dict(front=(0,), sfi=0), dict(front=(0, 17), back=(18,), lfe=(0,), sfi=3, comment=b"abc"),
               dict(front=tuple([16 + i for i in range(15)]), side=tuple(range(15)), back=tuple([16 + i for i in range(15)]), lfe=(1, 2, 3),
                    assoc=tuple(range(7)), cc=tuple([16 + i for i in range(15)]), mono=5, stereo=9, matrix=7, comment=bytes(range(255)), tag=15, ot=3, sfi=12),
               dict(front=(), sfi=7), dict(front=(16,), mono=0), dict(front=(16,), stereo=15, matrix=0, assoc=(3,), cc=(1,))]
        for pc in pcs:
            for bt in (0, 1):
                for cid in (None, bytes(range(9))):
                    adif("adif-pce", bt=bt, cid=cid, pces=[(rng.randrange(1 << 20), pc)], oc=rng.randrange(2), home=rng.randrange(2))
        for br in edges(23):
            adif("adif-bitrate", bitrate=br)
        for n in (2, 3, 16):
            for bt in (0, 1):
                adif("adif-npce", bt=bt, pces=[(0xFFFFF, pcs[i % len(pcs)]) for i in range(n)])
        for sfi in range(16):
            adif("adif-sfi", pces=[(0, dict(sfi=sfi))])
        for _ in range(10 * scale):
            adif("adif-random", bt=rng.randrange(2), bitrate=rng.randrange(1 << 23), cid=rng.choice([None, rbytes(rng, 9)]),
                 pces=[(rng.randrange(1 << 20), rng.choice(pcs)) for _ in range(rng.randrange(1, 4))], payload=rbytes(rng, rng.randrange(0, 60)))
        return out

    def raw(self, rng, scale):
        out = []
        for sfi in range(16):
            for cc in range(8):
                out.append(("adts-rate-cc", b"".join(adts_frame(rng.randrange(8, 300), sfi, cc) for _ in range(rng.randrange(3, 7)))))
        for nframes in (0, 1, 2, 3, 4, 99, 100, 101, 120):
            out.append(("adts-frames", adts_frame(40) * nframes))
            out.append(("adts-frames", adts_frame(40) * nframes + b"\0" * 30))
        for pa in (0, 1):
            for n in range(4):
                out.append(("adts-crc", adts_frame(60, pa=pa, nordbif=n) * 4))
                out.append(("adts-crc", adts_frame(9, pa=pa, nordbif=n) * 4))
        for flen in (0, 1, 6, 7, 8, 9, 8191):
            out.append(("adts-flen", adts_frame(flen) * 4))
            out.append(("adts-flen", adts_frame(64) * 2 + adts_frame(flen) + adts_frame(64) * 3))
        for cut in (1, 6, 7, 8, 30, 63):
            out.append(("adts-truncated", (adts_frame(64) * 3)[:-cut]))
            out.append(("adts-truncated", (adts_frame(64) * 4)[:-cut]))
        for junk in (b"\0", b"\xff", b"\xff\x00", b"\xff\xef", b"abc\xff\xf0", b"\xff" * 5, b"\x00" * 9, b"\x00" * 10, b"\x00" * 11, b"\xff\x00" * 5, b"\xff\x00" * 6):
            out.append(("adts-junk-between", adts_frame(64) * 2 + junk + adts_frame(64) * 3))
            out.append(("adts-junk-front", junk + adts_frame(64) * 4))
        for n in (0, 1, 100, 509, 510, 511, 512, 513, 600):
            out.append(("adts-late-sync", b"\x01" * n + adts_frame(32) * 5))
        for k in range(1, 13):
            # k false syncs in front of the real stream (ten tries)
            out.append(("adts-tries", b"\xff\xf1\x50\x80\x00\x1f\xfc" * k + b"\0" * 20 + adts_frame(32) * 4))
        for field, kw in (("id", dict(id_=1)), ("layer", dict(layer=1)), ("profile", dict(profile=2)), ("sfi", dict(sfi=5)), ("priv", dict(priv=1)), ("cc", dict(cc=1)),
                          ("orig", dict(orig=1)), ("home", dict(home=1)), ("cbits", dict(cbits=3)), ("bf", dict(bf=0)), ("pa", dict(pa=0))):
            out.append(("adts-key-change", adts_frame(64) * 3 + adts_frame(64, **kw) + adts_frame(64) * 2))
            out.append(("adts-key-change", adts_frame(64) + adts_frame(64, **kw) + adts_frame(64) * 4))
        for n in (0, 1, 127, 300):
            tag = b"ID3\x04\x00\x00" + syncsafe(n) + b"\0" * n
            out.append(("id3-skip", tag + adts_frame(50) * 4))
            out.append(("id3-skip", tag + adif_file()))
            out.append(("id3-skip", tag[:7]))
        # ADIF
        for br in edges(23):
            out.append(("adif-bitrate", adif_file(bitrate=br)))
        for sfi in range(16):
            out.append(("adif-sfi", adif_file(pces=[dict(sfi=sfi)])))
        for btype in (0, 1):
            for cr in (None, b"copyright"):
                out.append(("adif-head", adif_file(btype=btype, copyright=cr, orig=1, home=1, fullness=0xFFFFF)))
        layouts = [((0,), (), (), 0), ((1,), (), (), 0), ((0, 1), (), (1,), 1), ((1,) * 15, (1,) * 15, (1,) * 15, 3), ((), (), (), 0), ((0, 1, 1), (0,), (), 2)]
        for front, side, back, lfe in layouts:
            for extra in (dict(), dict(mono=5, stereo=9, matrix=3), dict(assoc=7, cc=15), dict(comment=b"hello world")):
                out.append(("adif-pce", adif_file(pces=[dict(front=front, side=side, back=back, lfe=lfe, **extra)])))
        for n in (2, 3, 16):
            out.append(("adif-npce", adif_file(pces=[dict(front=(1,))] + [dict(front=(0,), sfi=3, comment=b"x" * i) for i in range(n - 1)])))
        base = adif_file(pces=[dict(front=(0, 1), back=(1,), lfe=1, comment=b"abc")], payload=b"")
        for k in range(0, len(base) + 1):
            out.append(("adif-truncated", base[:k]))
        out.append(("adif-comment-beyond-eof", adif_file(pces=[dict()], payload=b"")[:-1] + b"\xff"))
        out.append(("adif-comment-beyond-eof", adif_file(pces=[dict()], payload=b"")[:-1] + b"\x05ab"))
        for _ in range(40 * scale):
            out.append(("random-adif", b"ADIF" + rbytes(rng, rng.randrange(0, 60))))
            out.append(("random-adts", b"".join(rng.choice([b"\xff", b"\xff\xf1", b"\xff\xf9", rbytes(rng, 3), adts_frame(rng.randrange(7, 40), rng.randrange(13), rng.randrange(8))[:rng.randrange(5, 50)]])
                                                for _ in range(rng.randrange(1, 30)))))
        return out


# ----------------------------------------------------------------------------------------------
# AC-3 / E-AC-3

def ac3_head(fscod=0, fsc=20, bsid=8, bsmod=0, acmod=2, mix=(1, 1, 1), lfeon=0, groups=None, cb=1, tc=(None, None), addbsi=None, crc1=0):
    """syncinfo + bsi as bits; groups: per programme (dialnorm, compr or None, langcod or None, audprod or None)"""
    w = BW().put(0x0B77, 16).put(crc1, 16).put(fscod, 2).put(fsc, 6).put(bsid, 5).put(bsmod, 3).put(acmod, 3)
    if (acmod & 1) and acmod != 1:
        w.put(mix[0], 2)
    if acmod & 4:
        w.put(mix[1], 2)
    if acmod == 2:
        w.put(mix[2], 2)
    w.put(lfeon, 1)
    groups = groups or [(27, None, None, None)] * (2 if acmod == 0 else 1)
    for dn, compr, lang, prod in groups:
        w.put(dn, 5)
        for x, bits in ((compr, 8), (lang, 8), (prod, 7)):
            if x is None:
                w.put(0, 1)
            else:
                w.put(1, 1).put(x, bits)
    w.put(cb, 2)
    for t in tc:
        w.put(0 if t is None else 1, 1)
    for t in tc:
        if t is not None:
            w.put(t, 14)
    if addbsi is None:
        w.put(0, 1)
    else:
        w.put(1, 1).put(len(addbsi) - 1, 6)
        for c in addbsi:
            w.put(c, 8)
    return w


def eac3_head(strmtyp=0, sid=0, frmsiz=383, fscod=0, fscod2=0, nbc=3, acmod=2, lfeon=0, bsid=16, dialnorm=27, compr=None, chanmap=None, mixmdate=0,
              info=None, convsync=0, blkid=None, addbsi=None):
    w = BW().put(0x0B77, 16).put(strmtyp, 2).put(sid, 3).put(frmsiz, 11).put(fscod, 2)
    if fscod == 3:
        w.put(fscod2, 2)
        nbc = 3
    else:
        w.put(nbc, 2)
    w.put(acmod, 3).put(lfeon, 1).put(bsid, 5)
    for _ in range(2 if acmod == 0 else 1):
        w.put(dialnorm, 5)
        if compr is None:
            w.put(0, 1)
        else:
            w.put(1, 1).put(compr, 8)
    if strmtyp == 1:
        if chanmap is None:
            w.put(0, 1)
        else:
            w.put(1, 1).put(chanmap, 16)
    w.put(mixmdate, 1)
    if mixmdate:
        return w
    if info is None:
        w.put(0, 1)
    else:
        w.put(1, 1).put(info & 31, 5)
        if acmod == 2:
            w.put(5, 4)
        elif acmod >= 6:
            w.put(2, 2)
        for _ in range(2 if acmod == 0 else 1):
            if info & 32:
                w.put(1, 1).put(0xA5, 8)
            else:
                w.put(0, 1)
        if fscod < 3:
            w.put(1, 1)
    if strmtyp == 0 and nbc == 3:
        w.put(convsync, 1)
    if strmtyp == 2 and nbc != 3:
        if blkid is None:
            w.put(0, 1)
        else:
            w.put(1, 1).put(blkid, 6)
    if addbsi is None:
        w.put(0, 1)
    else:
        w.put(1, 1).put(len(addbsi) - 1, 6)
        for c in addbsi:
            w.put(c, 8)
    return w


class Ac3Fmt(Fmt):
    theorems = {'AC3': 'ac3_info_decodes_partial', 'EAC3': 'eac3_info_decodes_partial'}
    name = "AC3"
    hm_kinds = ("AC3", "EAC3")
    info_path = "mutagen.ac3.AC3Info"
    file_path = "mutagen.ac3.AC3"
    attrs = (("channels", "channels", "int"), ("sample_rate", "sample_rate", "int"), ("bitrate", "bitrate", "int"),
             ("length", "length", "optratio"), ("codec", "codec", "text"))

    @staticmethod
    def o(v):
        return -1 if v is None else v

    def expect_line(self, build_line, rest):
        head, _, payload = build_line.rpartition(" payload=")
        old = b"" if payload == "-" else bytes.fromhex(payload)
        return head.replace("op=build", "op=expect", 1) + " payload=" + hx(old + rest)

    def line_ac3(self, crc1=0, fscod=0, fsc=20, bsid=8, bsmod=0, acmod=2, cmix=1, surmix=1, dsur=1, lfe=0, g1=(27, None, None, None),
                 g2=(27, None, None, None), cb=1, ob=1, tc1=None, tc2=None, addbsi=None, payload=b""):
        o = self.o
        return ("infoa op=build kind=AC3 crc1=%d fscod=%d fsc=%d bsid=%d bsmod=%d acmod=%d cmix=%d surmix=%d dsur=%d lfe=%d dn1=%d compr1=%d lang1=%d "
                "prod1=%d dn2=%d compr2=%d lang2=%d prod2=%d cb=%d ob=%d tc1=%d tc2=%d addbsi=%s payload=%s" % (
                    crc1, fscod, fsc, bsid, bsmod, acmod, cmix, surmix, dsur, lfe, g1[0], o(g1[1]), o(g1[2]), o(g1[3]), g2[0], o(g2[1]), o(g2[2]), o(g2[3]),
                    cb, ob, o(tc1), o(tc2), "none" if addbsi is None else hx(addbsi), hx(payload)))

    def line_eac3(self, strmtyp=0, sid=0, frmsiz=383, fscod=0, fscod2=0, nb=3, acmod=2, lfe=0, bsid=16, dn=27, compr=None, dn2=27, compr2=None,
                  chanmap=None, info=None, convsync=0, blkid=0, fsc=20, addbsi=None, payload=b""):
        o = self.o
        i = info or {}
        return ("infoa op=build kind=EAC3 strmtyp=%d sid=%d frmsiz=%d fscod=%d fscod2=%d nb=%d acmod=%d lfe=%d bsid=%d dn=%d compr=%d dn2=%d compr2=%d "
                "chanmap=%d info=%d ibsmod=%d icb=%d iob=%d idsur4=%d idsurex=%d iaud=%d iaud2=%d isrc=%d convsync=%d blkid=%d fsc=%d addbsi=%s payload=%s" % (
                    strmtyp, sid, frmsiz, fscod, fscod2, nb, acmod, lfe, bsid, dn, o(compr), dn2, o(compr2), o(chanmap), 0 if info is None else 1,
                    i.get("bsmod", 0), i.get("cb", 0), i.get("ob", 0), i.get("dsur4", 0), i.get("dsurex", 0), o(i.get("aud")), o(i.get("aud2")),
                    i.get("src", 0), convsync, blkid, fsc, "none" if addbsi is None else hx(addbsi), hx(payload)))

    def spec_line(self, kind, p):
        if kind == "AC3":
            g = (p["dialnorm"], 0x55 if p["compre"] else None, 0xFF if p["langcode"] else None, 81 if p["audprodie"] else None)
            return self.line_ac3(0, p["fscod"], p["frmsizecod"], p["bsid"], p["bsmod"], p["acmod"], p["cmixlev"], p["surmixlev"], p["dsurmod"],
                                 p["lfeon"], g, g, 1, 1, None, None, None)
        six = p["fscod"] == 3 or p["numblkscod"] == 3
        info = dict(bsmod=0, cb=1, ob=1, dsur4=0, dsurex=0, aud=None, aud2=None, src=0) if p["infomdate"] else None
        return self.line_eac3(p["strmtyp"], p["substreamid"], p["frmsiz"], p["fscod"], p["fscod2"], p["numblkscod"], p["acmod"], p["lfeon"], p["bsid"],
                              p["dialnorm"], 0x55 if p["compre"] else None, p["dialnorm"], 0x55 if p["compre"] else None, None, info, 0,
                              1 if six else 0, 20, None)

    def spec_len(self, kind, p, data):
        # the header of the first frame, padded to a byte: the Lean builder's output with an empty payload
        return None

    def lattice(self, rng, scale):
        out = []
        pay = b"\x21" * 40

        def a(label, **kw):
            out.append((label, self.line_ac3(payload=pay, **kw), b""))

        def e(label, **kw):
            out.append((label, self.line_eac3(payload=pay, **kw), b""))

        for fscod in range(3):
            for fsc in range(38):
                a("ac3-row", fscod=fscod, fsc=fsc, acmod=rng.randrange(8), lfe=rng.randrange(2), bsid=rng.choice([0, 4, 6, 8, 9, 10]))
        groups = [(0, None, None, None), (31, 255, None, None), (9, None, 0, None), (9, None, None, 127), (17, 1, 2, 3)]
        for acmod in range(8):
            for lfe in (0, 1):
                for g in groups:
                    a("ac3-acmod", acmod=acmod, lfe=lfe, g1=g, g2=groups[(groups.index(g) + 1) % 5], cmix=rng.randrange(4), surmix=rng.randrange(4), dsur=rng.randrange(4))
        for tc1 in (None, 0, 0x2000, 0x3FFF):
            for tc2 in (None, 0, 0x3FFF):
                for addbsi in (None, b"x", b"y" * 64):
                    a("ac3-tail", tc1=tc1, tc2=tc2, addbsi=addbsi, cb=rng.randrange(2), ob=rng.randrange(2))
        for v in edges(16):
            a("ac3-crc1", crc1=v)
        for v in range(8):
            a("ac3-bsmod", bsmod=v)
        for strmtyp in range(3):
            for nb in range(4):
                for fscod in range(4):
                    e("eac3-type", strmtyp=strmtyp, nb=nb, fscod=fscod, fscod2=rng.randrange(3), blkid=rng.randrange(2), convsync=rng.randrange(2),
                      chanmap=rng.choice([None, 0xFFFF]), frmsiz=rng.choice([95, 383, 2047]))
        for acmod in range(8):
            for lfe in (0, 1):
                for info in (None, dict(bsmod=7, cb=1, ob=0, dsur4=15, dsurex=3, aud=255, aud2=None, src=1), dict(aud=None, aud2=0)):
                    e("eac3-acmod", acmod=acmod, lfe=lfe, info=info, compr=rng.choice([None, 0, 255]), compr2=rng.choice([None, 7]), strmtyp=1, chanmap=rng.choice([None, 1]))
        for fs in edges(11, 3):
            e("eac3-frmsiz", frmsiz=fs, nb=rng.randrange(4), strmtyp=1)
        for bsid in range(11, 17):
            e("eac3-bsid", bsid=bsid, strmtyp=1)
        for addbsi in (None, b"q", b"r" * 64):
            for strmtyp in range(3):
                e("eac3-addbsi", addbsi=addbsi, strmtyp=strmtyp)
        return out

    def raw(self, rng, scale):
        out = []
        pad = b"\x21" * 40
        for fscod in range(4):
            for fsc in list(range(0, 40)) + [63]:
                out.append(("ac3-rate", ac3_head(fscod=fscod, fsc=fsc, acmod=rng.randrange(8), lfeon=rng.randrange(2)).bytes() + pad))
        for bsid in range(0, 32):
            out.append(("bsid", ac3_head(bsid=bsid).bytes() + pad))
            out.append(("bsid", eac3_head(bsid=bsid).bytes() + pad))
        for acmod in range(8):
            for lfe in (0, 1):
                for groups in (None, [(1, 0x55, None, None)] * 2, [(31, None, 0xFF, 0x7F)] * 2, [(9, 1, 2, 3)] * 2):
                    g = groups if groups is None else groups[:2 if acmod == 0 else 1]
                    out.append(("ac3-acmod", ac3_head(acmod=acmod, lfeon=lfe, groups=g, mix=(rng.randrange(4), rng.randrange(4), rng.randrange(4))).bytes() + pad))
                for info in (None, 7, 32 | 9):
                    out.append(("eac3-acmod", eac3_head(acmod=acmod, lfeon=lfe, info=info, compr=rng.choice([None, 3]), fscod=rng.randrange(4), fscod2=rng.randrange(3)).bytes() + pad))
        for tc in ((None, None), (5, None), (None, 9), (0x3FFF, 0x3FFF)):
            for addbsi in (None, b"x", b"y" * 64):
                out.append(("ac3-tail", ac3_head(tc=tc, addbsi=addbsi).bytes() + pad * 3))
        for strmtyp in range(4):
            for nbc in range(4):
                for extra in (dict(), dict(mixmdate=1), dict(chanmap=0xFFFF), dict(blkid=33), dict(addbsi=b"z" * 10), dict(convsync=1)):
                    out.append(("eac3-type", eac3_head(strmtyp=strmtyp, nbc=nbc, **extra).bytes() + pad))
        for fscod in range(4):
            for f2 in range(4):
                out.append(("eac3-rate", eac3_head(fscod=fscod, fscod2=f2).bytes() + pad))
        for fs in edges(11):
            out.append(("eac3-frmsiz", eac3_head(frmsiz=fs, nbc=rng.randrange(4), fscod=rng.randrange(3)).bytes() + pad))
        base = ac3_head(acmod=0, groups=[(9, 1, 2, 3)] * 2, tc=(1, 2), addbsi=b"abc").bytes()
        for k in range(0, len(base) + 2):
            out.append(("ac3-truncated", (base + b"\0\0")[:k]))
        base = eac3_head(acmod=0, info=32 | 5, compr=4, addbsi=b"abc").bytes()
        for k in range(0, len(base) + 2):
            out.append(("eac3-truncated", (base + b"\0\0")[:k]))
        out.append(("addbsi-beyond-eof", ac3_head(addbsi=b"x" * 64).bytes()[:12]))
        for m in (b"\x0b\x76", b"\x77\x0b", b"\x0b", b""):
            out.append(("magic", m + ac3_head().bytes()[2:] + pad))
        for _ in range(60 * scale):
            out.append(("random", b"\x0b\x77" + rbytes(rng, rng.randrange(0, 40))))
            out.append(("random-bsid", b"\x0b\x77" + rbytes(rng, 3) + bytes([rng.randrange(17) << 3 | rng.randrange(8)]) + rbytes(rng, rng.randrange(0, 30))))
        return out


FORMATS = [WavPackFmt(), MonkeysAudioFmt(), OptimFROGFmt(), TrueAudioFmt(), TakFmt(), MusepackFmt(), AacFmt(), Ac3Fmt()]


# ----------------------------------------------------------------------------------------------

def damaged(rng, data, magic_len, scale):
    """damaged variants of a loadable file: truncations, bad magic, flipped bytes"""
    out = []
    n = min(len(data), 110)
    for k in sorted(set(list(range(0, min(n, 80) + 1)) + [n])):
        out.append(("truncated", data[:k]))
    for i in range(magic_len):
        out.append(("bad-magic", data[:i] + bytes([data[i] ^ 0x20]) + data[i + 1:]))
    for _ in range(12 * scale):
        i = rng.randrange(min(len(data), 90))
        out.append(("flipped", data[:i] + bytes([rng.randrange(256)]) + data[i + 1:]))
    out.append(("empty", b""))
    out.append(("random", rbytes(rng, rng.randrange(1, 200))))
    return out


def run_format(ctx, fmt, only=None):
    H = hm()
    rng = ctx.rng
    scale = ctx.budget(1, 12)
    inputs = []        # (label, data, params or None)
    expect_of = {}     # id(case dict of an input) -> (op=expect request, build line, build kind)
    # 1. headers_more cases + builder agreement
    build_reqs = []    # (line, expected bytes prefix, suffix len, case)
    for kind, fn in H._CASE_FUNCS:
        if kind not in fmt.hm_kinds:
            continue
        for params in fn(rng, 80 if not ctx.quick else 1):
            try:
                data, expect = H.BUILDERS[kind](params)
            except AssertionError:
                # the case generator asked the independent builder for something it does not build (e.g. an ADTS frame
                # length below header + CRC): not an input
                ctx.hist["hm:unbuildable:" + kind] += 1
                continue
            case = dict(params, fmt=kind)
            inputs.append(("hm:" + kind, data, case))
            line = fmt.spec_line(kind, params)
            if line is not None:
                build_reqs.append((line, data, case))
    for line, data, case in fmt.extra_builder_checks(rng, scale):
        build_reqs.append((line, data, case))
    # 2. lattices through the Lean builder
    lat = fmt.lattice(rng, scale)
    lines = [r[0] for r in build_reqs] + [l[1] for l in lat]
    answers = ctx.driver.ask(lines) if lines else []
    if any(a == "bad-op" for a in answers):
        ctx.notes.append("info_tie_a: the driver does not know `infoa kind=%s` (not linked into Driver/Main.lean); skipped" % fmt.name)
        return 0
    for (line, data, case), ans in zip(build_reqs, answers):
        st, d = parse_fields(ans)
        ctx.traces_validated += 1
        ctx.hist["infoa:%s:builder-vs-headers_more" % fmt.name] += 1
        got = bytes.fromhex(d.get("v", "")) if d.get("v", "-") != "-" else b""
        if st == "ok" and data.startswith(got) and case["fmt"] in fmt.theorems:
            expect_of[id(case)] = (fmt.expect_line(line, data[len(got):]), line, case["fmt"])
        want = fmt.spec_len(case["fmt"], case, data)
        if st != "ok" or not data.startswith(got) or (want is not None and len(got) != want) or (want is None and len(got) < 7):
            ctx.disagree("spec builder differs from headers_more (%s)" % fmt.name, case, model=ans[:300], impl=hx(data)[:300])
    sample_valid = None
    for item, ans in zip(lat, answers[len(build_reqs):]):
        label, line, suffix = item[:3]
        prefix = item[3] if len(item) > 3 else b""
        st, d = parse_fields(ans)
        if st != "ok":
            ctx.disagree("spec builder refused (%s)" % fmt.name, dict(line=line), model=ans[:200])
            continue
        data = prefix + (bytes.fromhex(d["v"]) if d["v"] != "-" else b"") + suffix
        case = dict(build=line, suffix=hx(suffix), prefix_len=len(prefix))
        inputs.append(("lat:%s:%s" % (label, "valid" if d.get("valid") == "1" else "outside"), data, case))
        m = re.search(r"kind=(\w+)", line)
        if m and m.group(1) in fmt.theorems:
            expect_of[id(case)] = (fmt.expect_line(line, suffix), line, m.group(1))
        if sample_valid is None and d.get("valid") == "1":
            sample_valid = data
    # 3. raw lattices and damaged files
    for label, data in fmt.raw(rng, scale):
        inputs.append(("raw:" + label, data, None))
    bases = [i[1] for i in inputs if i[0].startswith("hm:")][:3]
    if sample_valid is not None:
        bases.append(sample_valid)
    for b in bases[:4]:
        for label, data in damaged(rng, b, 4, scale):
            inputs.append(("damaged:" + label, data, None))
    # run the real code
    reqs = []
    instances = []     # (op=expect request, build line, build kind, outcome kind, outcome, desc)
    for i, (label, data, case) in enumerate(inputs):
        desc = dict(case or {}, label=label, data=hx(data) if len(data) < 600 else "len=%d:%s…" % (len(data), hx(data[:200])))
        k, r = timed(lambda: fmt.info(data, case), 20)
        if k == "hang":
            ctx.violation("%s:hang" % fmt.name, "info parser did not finish", desc)
            continue
        impl = "ok" if k == "ok" else classify(r)
        ctx.case(key=(fmt.name, label, i), nontrivial=(k == "ok"), modelled=True, sample=desc if i in (3, 400) else None)
        ctx.hist["infoa:%s:%s" % (fmt.name, impl)] += 1
        ctx.hist["infoa:%s:in:%s" % (fmt.name, label.split(":")[0] + ":" + label.split(":")[1])] += 1
        if impl not in ("ok", "err mutagen"):
            ctx.violation("%s:escape:%s" % (fmt.name, impl.split()[1]), "info parser raised %r instead of a MutagenError" % (r,), desc)
        # the public class on top
        k2, r2 = timed(lambda: fmt.public(data, case), 20)
        if k2 == "ok" and r2 is None:
            pass
        elif k2 == "hang":
            ctx.violation("%s:hang" % fmt.name, "file class did not finish", desc)
        elif k == "ok" and k2 == "ok":
            diff = {a: (getattr(r, a, None), getattr(r2, a, None)) for _, a, _ in fmt.attrs if getattr(r, a, None) != getattr(r2, a, None)}
            if diff:
                ctx.disagree("%s: file class info differs from the info class" % fmt.name, desc, impl=repr(diff)[:300])
        elif k != "ok" and (k2 == "ok" or classify(r2) != impl):
            ctx.disagree("%s: file class %s where the info class raised %s" % (fmt.name, "loaded" if k2 == "ok" else classify(r2), impl), desc)
        reqs.append(("infoa kind=%s data=%s%s" % (fmt.name, hx(data), fmt.parse_args(case)), k, r, impl, desc))
        if case is not None and id(case) in expect_of:
            instances.append(expect_of[id(case)] + (k, r, dict(desc, data=hx(data))))
    # the real code against the instances of the decode theorems (Props/C05_Instances.lean): where every hypothesis of
    # the theorem holds for the generated fields (hyp=1) the class has to report the theorem's right-hand side
    answers = ctx.driver.ask([q[0] for q in instances]) if instances else []
    for (eline, bline, bkind, k, r, desc), ans in zip(instances, answers):
        st, d = parse_fields(ans)
        if st != "ok" or "hyp" not in d:
            ctx.disagree("%s: op=expect refused" % fmt.name, dict(line=eline[:300]), model=ans[:200])
            continue
        ctx.traces_validated += 1
        ctx.hist["infoa:%s:theorem-instance:hyp=%s" % (fmt.name, d["hyp"])] += 1
        if d["hyp"] != "1":
            continue
        thm = fmt.theorems.get(bkind, "?")
        desc = dict(desc, build=bline, theorem=thm)
        if k != "ok":
            ctx.violation("%s:theorem-instance:rejected" % fmt.name,
                          "%r raised where the header fields are valid and encode %s (theorem %s)" % (r, ans[9:300], thm), desc)
            continue
        bad = fmt.compare(d, r)
        if bad:
            first = sorted(bad)[0]
            ctx.violation("%s:theorem-instance:%s" % (fmt.name, first),
                          "%r reported where the header fields encode %r (theorem %s); all differences (encoded, reported): %r" % (
                              bad[first][1], bad[first][0], thm, bad), desc)
    answers = ctx.driver.ask([q[0] for q in reqs]) if reqs else []
    for (line, k, r, impl, desc), ans in zip(reqs, answers):
        ctx.traces_validated += 1
        st, d = parse_fields(ans)
        if k == "ok":
            if st != "ok":
                ctx.disagree("%s info" % fmt.name, desc, model=ans[:200], impl="ok " + " ".join("%s=%r" % (a, getattr(r, a, None)) for _, a, _ in fmt.attrs))
                continue
            bad = fmt.compare(d, r)
            if bad:
                ctx.disagree("%s info attributes (model, real): %r" % (fmt.name, bad), desc, model=ans[:300])
        else:
            if ans != impl:
                ctx.disagree("%s info" % fmt.name, desc, model=ans[:200], impl=impl + " (%r)" % (r,))
    return len(reqs)


def run(ctx, only=None):
    if not ctx.model_ok():
        ctx.notes.append("info_tie_a: model driver unavailable, tie skipped")
        return 0
    n = 0
    for fmt in FORMATS:
        if only and fmt.name not in only:
            continue
        n += run_format(ctx, fmt)
    return n


if __name__ == "__main__":
    # stand-alone: /venv/bin/python harness/info_tie_a.py [quick|thorough] [Fmt …]
    import sys, json
    sys.path.insert(0, os.path.join(os.path.dirname(os.path.abspath(__file__)), "props"))
    import vcheck
    tier = sys.argv[1] if len(sys.argv) > 1 else "quick"
    ctx = vcheck.Ctx("C05", tier, 1)
    ctx.build = vcheck.BuildStatus()
    ctx.driver = vcheck.Driver(os.path.exists(vcheck.DRIVER))
    n = run(ctx, only=sys.argv[2:] or None)
    print("cases", n, "traces", ctx.traces_validated, "disagreements", len(ctx.disagreements), "violations", len(ctx.violations))
    for k in sorted(ctx.hist):
        print("  ", k, ctx.hist[k])
    for d in ctx.disagreements[:8]:
        print("DISAGREE", json.dumps(d, default=repr)[:1200])
    seen = set()
    for v in ctx.violations:
        if v["key"] not in seen:
            seen.add(v["key"])
            print("VIOLATION", v["key"], v["what"][:200], json.dumps(v["case"], default=repr)[:600])
    for nt in ctx.notes:
        print("NOTE", nt)
