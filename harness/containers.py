"""containers.py — edit histories over every taggable format with the independent walkers as
oracle.  Shared by C02 (foreign data), C03 (structure), C07 (idempotence), C08 (delete),
C09 (padding)."""
import io, importlib
import formats as F
import walkers
from guards import timed
from vcheck import hx

TEXTS = ["x", "", "tiny", "Ünïcödé ✓ 日本語 \U0001F3B5", "a" * 300, "b" * 5000, "c" * 70000]


class PadRecorder(object):
    """padding callback that records what it was handed and answers by a fixed rule"""
    def __init__(self, rule):
        self.rule = rule          # ("const", n) | ("keep",) | ("default",)
        self.seen = []

    def __call__(self, info):
        self.seen.append((info.padding, info.size))
        if self.rule[0] == "const":
            return self.rule[1]
        if self.rule[0] == "keep":
            return max(info.padding, 0)
        return info.get_default_padding()


def module_delete(fmt):
    mod = importlib.import_module(fmt.path.rsplit(".", 1)[0])
    return getattr(mod, "delete", None)


def gen_history(rng, fmt, length):
    ops = []
    for _ in range(length):
        r = rng.random()
        if r < 0.45:
            n = rng.randrange(5)
            ops.append(("set", n, rng.choice(TEXTS)))
            pad = rng.choice([("none",), ("none",), ("const", 0), ("const", rng.choice([1, 7, 333, 1024, 5000, 40000])), ("keep",)])
            if not fmt.padding:
                pad = ("none",)
            ops.append(("save", pad, rng.random() < 0.3))
        elif r < 0.6:
            pad = rng.choice([("none",), ("const", 0), ("keep",)]) if fmt.padding else ("none",)
            ops.append(("save", pad, rng.random() < 0.5))
        elif r < 0.8:
            ops.append(("delete", rng.random() < 0.4))
        else:
            ops.append(("reload",))
    return ops


class Session(object):
    """applies ops to an in-memory file through the real mutagen type"""
    def __init__(self, fmt, data, name):
        self.fmt = fmt
        self.name = name
        self.fobj = F.NamedBytesIO(data, name)
        self.obj = fmt.cls(self.fobj)
        self.last_pad = None

    @property
    def data(self):
        return self.fobj.getvalue()

    def reload(self):
        self.fobj = F.NamedBytesIO(self.data, self.name)
        self.obj = self.fmt.cls(self.fobj)

    def apply(self, op):
        kind = op[0]
        self.last_pad = None
        if kind == "set":
            F.put(self.fmt, self.obj, op[1], op[2])
        elif kind == "save":
            if op[2]:
                # save through a fresh object carrying the same tags
                snap_tags = self.obj.tags
                self.reload_keep_tags(snap_tags)
            kw = {}
            if op[1][0] != "none":
                self.last_pad = PadRecorder(op[1])
                kw["padding"] = self.last_pad
            F.save(self.obj, self.fobj, **kw)
        elif kind == "delete":
            if op[1] and module_delete(self.fmt) is not None:
                self.fobj.seek(0)
                module_delete(self.fmt)(self.fobj)
                self.reload()
            else:
                F.delete(self.obj, self.fobj)
        elif kind == "reload":
            self.reload()

    def reload_keep_tags(self, tags):
        """fresh object for the current bytes, with the in-memory tags of the old object"""
        self.fobj = F.NamedBytesIO(self.data, self.name)
        fresh = self.fmt.cls(self.fobj)
        if tags is not None:
            if fresh.tags is None:
                fresh.add_tags()
            fam = self.fmt.family
            if fam == "id3":
                fresh.tags.clear()
                for fr in tags.values():
                    fresh.tags.add(fr)
            else:
                for k in list(fresh.tags.keys()):
                    del fresh.tags[k]
                for k in tags.keys():
                    fresh.tags[k] = tags[k]
        self.obj = fresh


def foreign_key(w):
    return [(label, hash(b), len(b)) for label, b in w.foreign]


def describe_foreign_diff(a, b):
    la = [(l, len(x)) for l, x in a.foreign]; lb = [(l, len(x)) for l, x in b.foreign]
    if [l for l, _ in la] != [l for l, _ in lb]:
        return "foreign pieces changed identity/order: %r -> %r" % (la[:8], lb[:8])
    for (l, x), (_, y) in zip(a.foreign, b.foreign):
        if x != y:
            i = next((k for k in range(min(len(x), len(y))) if x[k] != y[k]), min(len(x), len(y)))
            return "foreign piece %r differs at byte %d (lengths %d -> %d)" % (l, i, len(x), len(y))
    return "foreign data differs"


def ape_tag(total, rng):
    """an APEv2 tag with header whose total length (header + items + footer) is exactly `total` bytes (>= 64 + 11)"""
    import struct
    room = total - 64
    key = b"Verif"
    vlen = room - 8 - len(key) - 1
    if vlen < 0:
        return None
    value = bytes(rng.choice(b"abcdefghij klmnopq") for _ in range(vlen))
    item = struct.pack("<2L", vlen, 0) + key + b"\x00" + value
    size = len(item) + 32
    head = b"APETAGEX" + struct.pack("<4L", 2000, size, 1, 0xA0000000) + b"\x00" * 8
    foot = b"APETAGEX" + struct.pack("<4L", 2000, size, 1, 0x80000000) + b"\x00" * 8
    return head + item + foot


def lyrics3(n):
    body = b"LYRICSBEGIN" + b"IND00002" + b"10" + b"LYR" + (b"%05d" % n) + b"x" * n
    return body + (b"%06d" % len(body)) + b"LYRICS200"


def id3v1_block():
    return b"TAG" + b"old title".ljust(30, b"\x00") + b"artist".ljust(30, b"\x00") + b"album".ljust(30, b"\x00") + b"2001" + \
        b"comment".ljust(30, b"\x00") + b"\x0c"


def synth_samples(ctx, fmt):
    """synthesised layouts (the quantifier's 'synthesised layouts'): foreign tags of boundary sizes behind the audio of
    ID3-framed files, MP4 atom layouts from the C10 builder"""
    rng = ctx.rng
    out = []
    if fmt.kind in ("MP3", "TrueAudio"):
        base = F.sample_bytes(ctx.repo, fmt.samples[0])
        w = walkers.walk(fmt.kind, base)
        audio = dict(w.foreign).get("payload", b"")
        # APEv2 tags whose length is around the 128 bytes of an ID3v1 block (find_id3v1 looks 128+3 bytes back)
        sizes = list(range(120, 140)) if not ctx.quick else sorted(set(rng.sample(range(124, 135), 4) + [128, 131]))
        sizes += [rng.randrange(76, 400) for _ in range(ctx.budget(1, 6))]
        for n in sizes:
            t = ape_tag(n, rng)
            if t is None:
                continue
            out.append(("synth:audio+apev2[%d]" % n, audio + t))
            if rng.random() < 0.5:
                out.append(("synth:id3v2+audio+apev2[%d]+id3v1" % n, base[:len(base) - len(audio)] if False else
                            (b"ID3\x04\x00\x00\x00\x00\x00\x0b" + b"TIT2\x00\x00\x00\x02\x00\x00\x00a" + audio + t + id3v1_block())))
        out.append(("synth:audio+lyrics3+id3v1", audio + lyrics3(40) + id3v1_block()))
        out.append(("synth:audio+apev2+lyrics3+id3v1", audio + ape_tag(200, rng) + lyrics3(17) + id3v1_block()))
        out.append(("synth:audio+id3v1", audio + id3v1_block()))
        # audio whose last bytes spell "TAG" directly in front of the ID3v1 block (the block is still the last 128 bytes)
        out.append(("synth:audio+'TAG'+id3v1", audio + b"TAG" + id3v1_block()))
        out.append(("synth:audio+'xTAGTA'+id3v1", audio + b"xTAGTA" + id3v1_block()))
        # legacy short ID3v1 blocks (year field of 0-3 bytes): 124-127 bytes
        v1 = id3v1_block()
        for y in (range(4) if not ctx.quick else [rng.randrange(4), 3]):
            short = v1[:93] + v1[93:97][:y] + v1[97:]
            out.append(("synth:audio+short-id3v1[%d]" % len(short), audio + short))
            if rng.random() < 0.5:
                out.append(("synth:id3v2+audio+short-id3v1[%d]" % len(short),
                            b"ID3\x04\x00\x00\x00\x00\x00\x0b" + b"TIT2\x00\x00\x00\x02\x00\x00\x00a" + audio + short))
    if fmt.kind == "FLAC":
        base = F.sample_bytes(ctx.repo, fmt.samples[0])
        # a second / third VORBIS_COMMENT block (mutagen issue #377 layout): vendor + one comment each
        def vc_block(text, last=False):
            body = (4).to_bytes(4, "little") + b"test" + (1).to_bytes(4, "little") + len(text).to_bytes(4, "little") + text
            return bytes([4 | (0x80 if last else 0)]) + len(body).to_bytes(3, "big") + body
        pos = 4; blocks = []
        while True:
            h = base[pos]; size = int.from_bytes(base[pos + 1:pos + 4], "big")
            blocks.append((h & 0x7F, base[pos:pos + 4 + size])); pos += 4 + size
            if h & 0x80:
                break
        audio = base[pos:]
        for extra in (1, 2):
            out_blocks = []
            for code, raw in blocks:
                out_blocks.append(bytes([raw[0] & 0x7F]) + raw[1:])
                if code == 4:
                    for i in range(extra):
                        out_blocks.append(vc_block(b"ARTIST=SECOND-BLOCK-VALUE-%d" % i))
            out_blocks[-1] = bytes([out_blocks[-1][0] | 0x80]) + out_blocks[-1][1:]
            out.append(("synth:flac+%d-extra-comment-blocks" % extra, b"fLaC" + b"".join(out_blocks) + audio))
        # STREAMINFO with field extremes (36-bit sample count above 2**32, 24-bit frame sizes, 5-bit depth): the block is
        # parsed and re-serialised by every save
        for total, bps in ((2 ** 36 - 1, 32), (6451200000, 24), (2 ** 32, 4)):
            si = bytearray(base[8:8 + 34])
            v = int.from_bytes(si[10:18], "big")
            v = (v >> 41 << 41) | ((bps - 1) << 36) | total
            si[10:18] = v.to_bytes(8, "big")
            si[4:10] = b"\xff\xff\xff\xff\xff\xfe"
            out.append(("synth:flac-streaminfo-extremes[%d]" % total, base[:8] + bytes(si) + base[42:]))
    if fmt.kind == "MP4":
        try:
            from props import c10
            lays = [c10.Layout(split=True), c10.Layout(moov_first=False, traks=["co64", "stco"], free=("before-ilst", "top-mid")),
                    c10.Layout(moov_first=True, udta="none", meta=False, ilst="none"), c10.Layout(nmoof=1, free=("after-ilst",)),
                    c10.Layout(wide=("moov", "udta", "meta", "table"), traks=["stco", "co64"]),
                    c10.Layout(moov_first=False, wide=("moov", "udta"), udta="after", meta=False, ilst="none"),
                    c10.Layout(ilst_first=True, free=("meta-far",)), c10.Layout(zero_last=True, moov_first=False)]
            for i, lay in enumerate(lays):
                out.append(("synth:mp4-layout-%d%s" % (i, "-wide" if getattr(lay, "wide", None) else ""), c10.build(lay)[0]))
        except Exception as e:      # the C10 builder is not ours: its absence must not break C02
            ctx.notes.append("MP4 synthesised layouts unavailable: %s" % type(e).__name__)
    return out


def samples_for(ctx, fmt):
    out = []
    for s in (fmt.samples if not ctx.quick else fmt.samples[:4]):
        data = F.sample_bytes(ctx.repo, s)
        w = walkers.walk(fmt.kind, data)
        out.append((s, data, w))
    for name, data in synth_samples(ctx, fmt):
        w = walkers.walk(fmt.kind, data)
        if w.errors:
            ctx.hist["synth-not-wellformed:" + fmt.kind] += 1
            continue
        ctx.hist["synth:" + fmt.kind] += 1
        out.append((name, data, w))
    return out


MARK = "Zq7VERIF"


def marked(text, i):
    return "%s%d_%s" % (MARK, i, text)


def marker_present(data):
    return (MARK.encode() in data) or (MARK.encode("utf-16-le") in data) or (MARK.encode("utf-16-be") in data)


INFO_ATTRS = ("sample_rate", "channels", "bits_per_sample", "total_samples")
LENGTH_FROM_HEADER = {"FLAC", "AIFF", "WAVE", "DSF", "DSDIFF", "TrueAudio", "WavPack", "MonkeysAudio", "OptimFROG", "Musepack",
                      "TAK", "MP4", "ASF", "OggVorbis", "OggOpus", "OggSpeex", "OggTheora", "OggFLAC"}
FREE_STANDING = {"MP3", "TrueAudio", "WavPack", "Musepack", "MonkeysAudio", "OptimFROG", "TAK"}


def info_key(fmt, obj):
    out = {}
    for a in INFO_ATTRS:
        if hasattr(obj.info, a):
            out[a] = getattr(obj.info, a)
    if fmt.kind in LENGTH_FROM_HEADER and hasattr(obj.info, "length"):
        out["length"] = repr(obj.info.length)
    return out


def run_histories(ctx, checks, rule):
    """checks ⊆ {"foreign", "wf", "info", "delete", "padding", "resave"}"""
    from mutagen import MutagenError
    ctx.rule = rule
    rng = ctx.rng
    nhist = ctx.budget(2, 10)
    hlen = ctx.budget(5, 12)
    for fmt in F.TAGGABLE:
        for sname, data, w0 in samples_for(ctx, fmt):
            if w0.errors:
                ctx.hist["skipped-not-wellformed"] += 1
                continue
            for h in range(nhist):
                ops = gen_history(rng, fmt, hlen)
                if "padding" in checks and h == 0 and fmt.padding:
                    # sequences of saves on the SAME object (no reload, no fresh object): what the callback is offered must
                    # track the file as it is now, not as it was when the object was loaded
                    ops = [("set", 0, TEXTS[5]), ("save", ("const", 600), False), ("set", 0, TEXTS[2]), ("save", ("keep",), False),
                           ("set", 1, TEXTS[4]), ("save", ("keep",), False), ("set", 0, TEXTS[6]), ("save", ("const", 0), False),
                           ("set", 0, TEXTS[0]), ("save", ("keep",), False), ("save", ("keep",), False)]
                name = "h" + (fmt.exts[0] if fmt.exts else "")
                try:
                    sess = Session(fmt, data, name)
                except Exception as e:
                    ctx.notes.append("cannot load sample %s: %s" % (sname, type(e).__name__)); break
                info0 = info_key(fmt, sess.obj)
                wprev = w0
                trail = []
                counter = [0]
                for op in ops:
                    if op[0] == "set":
                        counter[0] += 1
                        op = ("set", op[1], marked(op[2], counter[0]))
                    trail.append(op if op[0] != "set" else ("set", op[1], "%d chars" % len(op[2])))
                    case = {"format": fmt.kind, "sample": sname, "history": [list(map(str, o)) for o in trail]}
                    before = sess.data
                    had_tags = not F.is_empty_tags(fmt, sess.obj)
                    kind, r = timed(lambda: sess.apply(op), 20)
                    ctx.case(key=(fmt.kind, sname, h, len(trail)), nontrivial=(sess.data != before) or op[0] in ("delete", "save"),
                             modelled=(fmt.kind == "FLAC"),
                             sample=case if (fmt.kind in ("FLAC", "MP4") and h == 0 and len(trail) == 3 and sname == fmt.samples[0]) else None)
                    ctx.hist["op:" + op[0]] += 1
                    ctx.hist["fmt:" + fmt.kind] += 1
                    if kind == "hang":
                        ctx.violation("%s:%s:hang" % (fmt.kind, op[0]), "operation did not finish", case); break
                    if kind == "exc":
                        if isinstance(r, MutagenError):
                            ctx.hist["op-raised-MutagenError"] += 1
                            # the file must still be what it was or a valid file; start over from what is there
                            try:
                                sess.reload()
                            except Exception:
                                break
                            continue
                        ctx.violation("%s:%s:raises-%s" % (fmt.kind, op[0], type(r).__name__),
                                      "%s raised %s: %s" % (op[0], type(r).__name__, str(r)[:120]), case)
                        break
                    after = sess.data
                    if op[0] in ("set", "reload"):
                        if after != before:
                            ctx.violation("%s:%s:writes" % (fmt.kind, op[0]), "file changed without save/delete", case)
                        continue
                    w = walkers.walk(fmt.kind, after)
                    if "foreign" in checks and foreign_key(w) != foreign_key(wprev):
                        ctx.violation("%s:%s:foreign-changed" % (fmt.kind, op[0]), describe_foreign_diff(wprev, w), case)
                    if "wf" in checks and w.errors:
                        import re as _re
                        what = w.errors[0].split(":", 1)[1] if ":" in w.errors[0] else w.errors[0]
                        what = _re.sub(r"[0-9]+", "N", what).strip()[:48]
                        ctx.violation("%s:%s:malformed:%s" % (fmt.kind, op[0], what),
                                      "structural rules broken after %s: %s" % (op[0], "; ".join(w.errors[:3])), case)
                    if "info" in checks or "wf" in checks:
                        k2, o2 = timed(lambda: fmt.cls(F.NamedBytesIO(after, name)), 20)
                        if k2 != "ok":
                            ctx.violation("%s:%s:reload-fails" % (fmt.kind, op[0]), "file no longer loads: %r" % (o2,), case)
                        elif "info" in checks and info_key(fmt, o2) != info0:
                            ctx.violation("%s:%s:info-changed" % (fmt.kind, op[0]),
                                          "stream info changed: %r -> %r" % (info0, info_key(fmt, o2)), case)
                    if "padding" in checks and op[0] == "save" and sess.last_pad is not None:
                        rec = sess.last_pad
                        if len(rec.seen) == 0 and after == before:
                            pass      # nothing to save (no tags): the callback is not consulted
                        elif len(rec.seen) != 1:
                            ctx.violation("%s:padding-callback-calls" % fmt.kind, "padding callback called %d times" % len(rec.seen), case)
                        else:
                            offered, size = rec.seen[0]
                            ans = rec.rule[1] if rec.rule[0] == "const" else max(offered, 0)
                            cap = (1 << 24) - 1 if fmt.kind == "FLAC" else None
                            eff = min(ans, cap) if cap else ans
                            if fmt.kind.startswith("Ogg") and "comment_packet_len" in w.book and "comment_packet_len" in wprev.book \
                                    and wprev.tagged:
                                # the packet written = new content + answered padding; the padding offered must be the space
                                # the old packet leaves once the new content is in it (independent of how pages are cut)
                                new_content = w.book["comment_packet_len"] - eff
                                expect_offered = wprev.book["comment_packet_len"] - new_content
                                ctx.hist["ogg-offered-padding-checked"] += 1
                                if offered != expect_offered:
                                    ctx.violation("%s:info.padding-wrong" % fmt.kind,
                                                  "the callback was offered padding=%d; the old comment packet has %d bytes and the new "
                                                  "content %d, so %d remain" % (offered, wprev.book["comment_packet_len"], new_content,
                                                                                expect_offered), case)
                            if w.padding is not None and fmt.kind not in ("AIFF", "WAVE", "DSDIFF") and w.padding != eff:
                                ctx.violation("%s:padding-not-obeyed" % fmt.kind,
                                              "callback answered %d, file has %d bytes of padding" % (ans, w.padding), case)
                            if w.padding is not None and fmt.kind in ("AIFF", "WAVE", "DSDIFF") and w.padding not in (eff, eff + 1):
                                ctx.violation("%s:padding-not-obeyed" % fmt.kind,
                                              "callback answered %d, chunk has %d bytes of padding" % (ans, w.padding), case)
                            grow = len(after) - len(before)
                            # an ID3v1 block that is rewritten (legacy short blocks become 128 bytes) is not padding
                            grow -= w.book.get("id3v1_len", 0) - wprev.book.get("id3v1_len", 0)
                            expect = eff - offered
                            tol = 1 if fmt.kind in ("AIFF", "WAVE", "DSDIFF") else 0
                            if fmt.kind.startswith("Ogg"):
                                tol = None      # page headers / lacing values change with the packet size
                            if tol is not None and abs(grow - expect) > tol and wprev.tagged:
                                ctx.violation("%s:info.padding-wrong" % fmt.kind,
                                              "callback was offered padding=%d and answered %d, so the file should change by %d bytes, "
                                              "it changed by %d" % (offered, ans, expect, grow), case)
                            if rec.rule[0] == "keep" and offered >= 0 and grow != 0:
                                ctx.violation("%s:keep-not-inplace" % fmt.kind, "returning the offered padding resized the file", case)
                    if "resave" in checks and op[0] == "save":
                        # the property: load the file, save it unmodified (X1), save a second time (X2): X2 == X1 and no tag
                        # is lost.  (Loading may legitimately merge an ID3v1 block into the tag, so X1 is taken after a reload.)
                        def first():
                            sess.reload()
                            snap = F.snapshot(fmt, sess.obj)
                            sess.apply(("save", ("none",), False))
                            return snap
                        k3, snap1 = timed(first, 20)
                        b1 = sess.data
                        k4, r4 = timed(lambda: sess.apply(("save", ("none",), False)), 20)
                        b2 = sess.data
                        def again():
                            sess.reload()
                            snap = F.snapshot(fmt, sess.obj)
                            sess.apply(("save", ("none",), False))
                            return snap
                        k5, snap3 = timed(again, 20)
                        b3 = sess.data
                        if k3 == "ok" and k4 == "ok" and k5 == "ok":
                            if b2 != b1 or b3 != b1:
                                ctx.violation("%s:resave-not-idempotent" % fmt.kind,
                                              "saving unchanged tags again gives different bytes (%d, %d, %d bytes)" % (len(b1), len(b2), len(b3)), case)
                            if snap3 != snap1:
                                ctx.violation("%s:resave-loses-tags" % fmt.kind, "tags differ after an unchanged save", case)
                            w = walkers.walk(fmt.kind, sess.data)
                    if "delete" in checks and op[0] == "delete":
                        k5, o5 = timed(lambda: fmt.cls(F.NamedBytesIO(after, name)), 20)
                        if k5 == "ok" and not F.is_empty_tags(fmt, o5):
                            ctx.violation("%s:delete-leaves-tags" % fmt.kind, "tags present after delete: %r" % (list(o5.tags.keys())[:5],), case)
                        if not F.is_empty_tags(fmt, sess.obj):
                            ctx.violation("%s:delete-keeps-memory-tags" % fmt.kind, "in-memory tags not cleared by delete", case)
                        if marker_present(after):
                            ctx.violation("%s:delete-leaves-bytes" % fmt.kind, "bytes of a removed value are still in the file", case)
                        if w.padding not in (None, 0) and (had_tags or wprev.tagged) and sess.obj.tags is not None or \
                                (w.padding not in (None, 0) and had_tags):
                            ctx.violation("%s:delete-leaves-padding" % fmt.kind, "%d bytes of tag padding remain" % w.padding, case)
                        if fmt.kind in FREE_STANDING and w.tagged:
                            ctx.violation("%s:delete-leaves-header" % fmt.kind, "a tag header remains after delete", case)
                        k6, r6 = timed(lambda: sess.apply(("delete", False)), 20)
                        if k6 == "ok" and sess.data != after:
                            ctx.violation("%s:delete-not-idempotent" % fmt.kind, "deleting again changed the file", case)
                        # "new tags can be added and saved afterwards" - through the SAME object (no reload in between):
                        # nothing that was deleted may come back, in memory or in the file
                        if k6 == "ok":
                            w_del = walkers.walk(fmt.kind, sess.data)
                            def retag():
                                F.put(fmt, sess.obj, 1, "retagged after delete")
                                sess.apply(("save", ("none",), False))
                                mem = F.snapshot(fmt, sess.obj)
                                data_now = sess.data
                                fresh = fmt.cls(F.NamedBytesIO(data_now, name))
                                # the same edit through an object freshly loaded from the deleted file
                                f2 = F.NamedBytesIO(after, name)
                                other = fmt.cls(f2)
                                F.put(fmt, other, 1, "retagged after delete")
                                F.save(other, f2)
                                return mem, F.snapshot(fmt, fresh), data_now, f2.getvalue()
                            k8, r8 = timed(retag, 20)
                            if k8 == "ok":
                                mem, disk, data_now, data_fresh = r8
                                w8 = walkers.walk(fmt.kind, data_now)
                                # the tag data in the file (every owned region the walker finds, independent of mutagen's
                                # reader) must be as large as when the same tag is written by a freshly loaded object, up to what
                                # is not tag content (FLAC/Ogg vendor string, position of the block)
                                w_fresh = walkers.walk(fmt.kind, data_fresh)
                                if fmt.kind == "FLAC" and w8.book.get("vc_blocks") != w_fresh.book.get("vc_blocks"):
                                    ctx.violation("FLAC:retag-after-delete:stale-comment-block",
                                                  "after delete and a new save through the same object the file has %r Vorbis comment "
                                                  "blocks (a freshly loaded object writes %r): a deleted block came back"
                                                  % (w8.book.get("vc_blocks"), w_fresh.book.get("vc_blocks")), case)
                                elif fmt.family != "vorbis" and abs(len(w8.tag_bytes) - len(w_fresh.tag_bytes)) > 64 and \
                                        not fmt.kind.startswith("Ogg"):
                                    ctx.violation("%s:retag-after-delete:stale-state" % fmt.kind,
                                                  "after delete, the same object writes %d bytes of tag data, a freshly loaded one %d for "
                                                  "the same new tag" % (len(w8.tag_bytes), len(w_fresh.tag_bytes)), case)
                                w8 = walkers.walk(fmt.kind, data_now)
                                if mem != disk or disk is None or len(disk) != 1:
                                    ctx.violation("%s:retag-after-delete:tags-differ" % fmt.kind,
                                                  "delete, set one value, save (same object): reload shows %r, the object holds %r"
                                                  % (sorted(disk or {})[:6], sorted(mem or {})[:6]), case)
                                if marker_present(data_now):
                                    ctx.violation("%s:retag-after-delete:old-bytes-back" % fmt.kind,
                                                  "bytes of a value removed by delete are in the file again after the next save", case)
                                if foreign_key(w8) != foreign_key(w_del):
                                    ctx.violation("%s:retag-after-delete:foreign-changed" % fmt.kind, describe_foreign_diff(w_del, w8), case)
                                if w8.errors:
                                    ctx.violation("%s:retag-after-delete:malformed" % fmt.kind, "; ".join(w8.errors[:3]), case)
                            elif k8 == "exc" and not isinstance(r8, MutagenError):
                                ctx.violation("%s:retag-after-delete:raises-%s" % (fmt.kind, type(r8).__name__), str(r8)[:120], case)
                            ctx.hist["retag-after-delete"] += 1
                            # back to the deleted state for the rest of the history
                            sess.fobj = F.NamedBytesIO(after, name)
                            sess.reload()
                        # saving the (now empty) tags and deleting once more must again leave no trace
                        def save_delete():
                            sess.apply(("save", ("none",), False))
                            sess.reload()
                            sess.apply(("delete", False))
                        k7, r7 = timed(save_delete, 20)
                        if k7 == "ok":
                            w7 = walkers.walk(fmt.kind, sess.data)
                            if fmt.kind in FREE_STANDING and w7.tagged:
                                ctx.violation("%s:delete-leaves-header:after-empty-save" % fmt.kind,
                                              "delete, save (no tags), reload, delete: a tag header remains in the file", case)
                            w = w7
                    wprev = w
