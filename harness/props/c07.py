"""C07 — Saving unchanged tags is lossless and idempotent; ID3/APEv2 bytes do not depend on insertion order."""
import struct
import containers
import id3file_tie
import dsf_tie
import asf_tie
import ogginject_tie
import apefile_tie
import formats as F
import walkers
import id3spec
from guards import timed

RULE = ("(1) random edit histories over every sample of every taggable format; after every save the unchanged tags are saved again, "
        "then through a reloaded object: bytes must be identical and the tag snapshot unchanged (FLAC additionally modelled and proved "
        "in Lean: flac_resave_idempotent, flac_resave_lossless). (2) layouts with very large existing padding (0.5-12 MiB) for every "
        "padded format: load, save (default policy), reload, save again: byte-identical. (3) tag data mutagen cannot interpret: unknown "
        "but valid ID3 frames of the tag's own version (v2.3 and v2.4, found again by the independent ID3 walker), MP4 ilst children that "
        "fail to parse, FLAC application/unknown blocks and unknown ASF objects (via the walkers' foreign lists) survive load+save. "
        "(4) insertion order: the same ID3 frame set / APEv2 item set inserted in two random orders into fresh objects over the same "
        "file gives identical bytes (Lean: ape_order_independent, id3_order_independent over the model of the sort keys). "
        "Non-trivial: a save ran and the file had tags; distinct by (format, sample, history/step or generated set)")

HUGE = [512 * 1024, 3 * 1024 * 1024 + 17, 12 * 1024 * 1024]


def huge_padding(ctx):
    """existing padding so large that the default policy shrinks it: the shrunk file must be a fixed point"""
    sizes = HUGE if not ctx.quick else [HUGE[0], HUGE[2]]
    for fmt in F.TAGGABLE:
        if not fmt.padding:
            continue
        sname = fmt.samples[0]
        data = F.sample_bytes(ctx.repo, sname)
        for pad in sizes:
            if fmt.kind.startswith("Ogg") and pad > 4 * 1024 * 1024:
                pad = 4 * 1024 * 1024          # page CRCs in Python: keep the run short
            if fmt.kind == "FLAC":
                pad = min(pad, 2 ** 24 - 1)
            case = {"format": fmt.kind, "sample": sname, "existing_padding": pad, "sub": "huge-padding"}
            name = "h" + (fmt.exts[0] if fmt.exts else "")
            def build():
                s = containers.Session(fmt, data, name)
                F.put(fmt, s.obj, 0, "huge padding layout")
                s.apply(("save", ("const", pad), False))
                return s
            k, sess = timed(build, 60)
            if k != "ok":
                ctx.hist["huge:cannot-build:" + fmt.kind] += 1
                continue
            b0 = sess.data
            def step():
                sess.reload()
                sess.apply(("save", ("none",), False))
                return sess.data
            k1, b1 = timed(step, 60)
            k2, b2 = timed(step, 60)
            k3, b3 = timed(step, 60)
            ctx.case(key=("huge", fmt.kind, pad), nontrivial=True, modelled=False,
                     sample=case if fmt.kind == "MP3" else None)
            ctx.hist["huge:" + fmt.kind] += 1
            if (k1, k2, k3) != ("ok", "ok", "ok"):
                ctx.violation("%s:huge-padding:save-fails" % fmt.kind, "saving a file with %d bytes of padding failed: %r" % (pad, (b1, b2, b3)), case)
                continue
            if b2 != b1 or b3 != b2:
                ctx.violation("%s:resave-not-idempotent:huge-padding" % fmt.kind,
                              "file with %d bytes of tag padding: successive unchanged saves give %d, %d, %d, %d bytes"
                              % (pad, len(b0), len(b1), len(b2), len(b3)), case)
            w = walkers.walk(fmt.kind, b1)
            if w.errors:
                ctx.violation("%s:huge-padding:malformed" % fmt.kind, "; ".join(w.errors[:3]), case)


def syncsafe4(n):
    return bytes([(n >> 21) & 0x7F, (n >> 14) & 0x7F, (n >> 7) & 0x7F, n & 0x7F])


def id3_tag_with_unknown(rng, ver):
    """a tag holding known frames and unknown-but-valid frames (upper-case alnum ids that no table knows)"""
    frames = []
    def fr(fid, body, flags=0):
        size = syncsafe4(len(body)) if ver == 4 else struct.pack(">L", len(body))
        return fid + size + struct.pack(">H", flags) + body
    unknown = []
    frames.append(fr(b"TIT2", b"\x03known title"))
    for i in range(rng.randrange(1, 4)):
        fid = bytes(rng.choice(b"XYZQ") for _ in range(1)) + bytes(rng.choice(b"ABCDEFGHIJKLMNOPQRSTUVWXYZ0123456789") for _ in range(3))
        body = bytes(rng.randrange(256) for _ in range(rng.choice([1, 2, 17, 300])))
        if ver == 4:
            body = body.replace(b"\xff", b"\x7f")     # keep it free of false syncs so that no flag games are needed
        f = fr(fid, body)
        unknown.append(f)
        frames.append(f)
    # known frame ids mutagen cannot interpret: encrypted (method byte in front), also together with compression -
    # they are kept as raw frames and must be written back unchanged for the tag's own version
    for fid in rng.sample([b"TPE2", b"APIC", b"COMM", b"TALB"], rng.randrange(0, 3)):
        payload = bytes(rng.randrange(1, 128) for _ in range(rng.choice([5, 40])))
        if ver == 4:
            flags = rng.choice([0x0004, 0x000C | 0x0001])          # encrypted; compressed+encrypted+data length
            extra = b"\x80" + (syncsafe4(100) if flags & 1 else b"")
        else:
            flags = rng.choice([0x0040, 0x00C0])                  # encrypted; compressed+encrypted
            extra = (struct.pack(">L", 100) if flags & 0x80 else b"") + b"\x80"
        f = fr(fid, extra + payload, flags)
        unknown.append(f)
        frames.append(f)
    frames.append(fr(b"TPE1", b"\x00artist"))
    body = b"".join(frames) + b"\x00" * rng.choice([0, 10, 200])
    return b"ID3" + bytes([ver, 0, 0]) + syncsafe4(len(body)) + body, unknown


def unknown_kept(ctx):
    from mutagen.id3 import ID3
    from mutagen.mp3 import MP3
    rng = ctx.rng
    audio = F.sample_bytes(ctx.repo, "no-tags.mp3")
    for _ in range(ctx.budget(20, 200)):
        ver = rng.choice([3, 4])
        tag, unknown = id3_tag_with_unknown(rng, ver)
        data = tag + audio
        case = {"sub": "unknown-id3-frames", "version": ver, "tag": tag.hex(), "unknown": [u.hex() for u in unknown]}
        fobj = F.NamedBytesIO(data, "u.mp3")
        k, r = timed(lambda: MP3(fobj), 20)
        ctx.case(key=("unknown", ver, tag[:64].hex(), len(tag)), nontrivial=True, modelled=False, sample=None)
        ctx.hist["unknown-id3:v2.%d" % ver] += 1
        if k != "ok":
            ctx.violation("MP3:unknown-frames:load-fails", repr(r)[:120], case); continue
        m = r
        # (no frame id starting with X/Y/Z/Q is known to mutagen, so the random ids cannot collide with real frames)
        ctx.hist["unknown-id3:kept-at-load:%d-of-%d" % (len(m.tags.unknown_frames), len(unknown))] += 0
        fobj.seek(0)
        k, r = timed(lambda: m.save(fobj, v2_version=ver), 20)
        if k != "ok":
            ctx.violation("MP3:unknown-frames:save-fails", repr(r)[:120], case); continue
        out = fobj.getvalue()
        tagbytes = out[:10 + id3spec.syncsafe(out[6:10])]
        missing = [u.hex()[:40] for u in unknown if u not in tagbytes]
        if missing:
            ctx.violation("MP3:unknown-frames-lost:v2.%d" % ver,
                          "unknown frames of the tag's own version are not in the saved tag: %r" % missing[:3], case)
        if out[len(tagbytes):] != audio:
            ctx.violation("MP3:unknown-frames:audio-changed", "audio differs after save", case)
    # MP4: an ilst child that cannot be (fully) interpreted must be written back unchanged
    from mutagen.mp4 import MP4
    base = F.sample_bytes(ctx.repo, "has-tags.m4a")

    def data_atom(typ, payload):
        body = struct.pack(">BBHI", 0, 0, typ, 0) + payload        # version, flags (type in the low bytes), locale
        return struct.pack(">L4s", 8 + len(body), b"data") + body
    cases = [
        ("text:good+bad-utf8", b"\xa9cmt", [data_atom(1, b"good text"), data_atom(1, b"\xff\xfe not utf-8")]),
        ("text:good+good+bad-utf8", b"\xa9lyr", [data_atom(1, b"one"), data_atom(1, "zw\u00f6".encode("utf-8")), data_atom(1, b"\xc3")]),
        ("text:bad-utf8", b"\xa9cmt", [data_atom(1, b"\xff\xfe")]),
        ("text:good+non-text-type", b"\xa9cmt", [data_atom(1, b"good"), data_atom(21, b"\x00\x01")]),
        ("unknown:good+non-text-type", b"XYZW", [data_atom(1, b"txt"), data_atom(13, b"\xff\xd8jpeg")]),
        ("unknown:good+bad-utf8", b"QRST", [data_atom(1, b"txt"), data_atom(1, b"\xe2\x82")]),
        ("pair:too-short", b"trkn", [data_atom(0, b"\x00\x01")]),
        ("int:three-bytes", b"tmpo", [data_atom(21, b"\x01\x02\x03")]),
        ("int:good+three-bytes", b"tmpo", [data_atom(21, b"\x00\x78"), data_atom(21, b"\x01\x02\x03")]),
        ("cover:good+unknown-format", b"covr", [data_atom(13, b"\xff\xd8a"), data_atom(99, b"zzzz")]),
    ]
    # several uninterpretable children with the same name: each one must survive
    def raw_atom(name, payload):
        return struct.pack(">L4s", 8 + len(payload), name) + payload
    multi = [
        ("same-name:unknown-non-text", [raw_atom(b"ownr", data_atom(0, b"\x01first")), raw_atom(b"ownr", data_atom(0, b"\x02second"))]),
        ("same-name:freeform-malformed", [raw_atom(b"----", raw_atom(b"mean", b"\0\0\0\0com.a") + b"\x00\x00\x00\x05junk"),
                                          raw_atom(b"----", raw_atom(b"mean", b"\0\0\0\0com.b") + b"\x00\x00\x00\x05JUNK")]),
        ("same-name:text-bad-utf8", [raw_atom(b"\xa9wrt", data_atom(1, b"\xff\xfe1")), raw_atom(b"\xa9wrt", data_atom(1, b"\xff\xfe2"))]),
    ]
    for label, atoms in multi:
        data2 = base
        for a in atoms:
            data2 = splice_ilst_child(data2, a) if data2 is not None else None
        case = {"sub": "mp4-uninterpretable-atoms", "label": label, "atoms": [a.hex() for a in atoms]}
        if data2 is None:
            ctx.hist["mp4-uninterpretable:cannot-build"] += 1; continue
        fobj = F.NamedBytesIO(data2, "a.m4a")
        k, m2 = timed(lambda: MP4(fobj), 20)
        ctx.case(key=("mp4-uninterpretable", label), nontrivial=True, modelled=False, sample=None)
        if k != "ok":
            ctx.hist["mp4-uninterpretable:load-raises:" + label] += 1; continue
        fobj.seek(0)
        k, r = timed(lambda: m2.save(fobj), 20)
        if k != "ok":
            ctx.violation("MP4:uninterpretable-atom:save-fails", repr(r)[:120], case); continue
        out1 = fobj.getvalue()
        lost = [a.hex()[:60] for a in atoms if a not in out1]
        if lost:
            ctx.violation("MP4:uninterpretable-atom-lost:same-name",
                          "load + unchanged save dropped %d of %d uninterpretable ilst children that share a name" % (len(lost), len(atoms)), case)
        ctx.hist["mp4-uninterpretable:checked:" + label] += 1
    for label, name, kids in cases:
        body = b"".join(kids)
        child = struct.pack(">L4s", 8 + len(body), name) + body
        # has-tags.m4a already has covr: use a file without tags for it? keep simple: skip if the key exists already
        data2 = splice_ilst_child(base, child)
        case = {"sub": "mp4-uninterpretable-atom", "label": label, "atom": child.hex()}
        if data2 is None:
            ctx.hist["mp4-uninterpretable:cannot-build"] += 1; continue
        fobj = F.NamedBytesIO(data2, "a.m4a")
        k, m2 = timed(lambda: MP4(fobj), 20)
        ctx.case(key=("mp4-uninterpretable", label), nontrivial=True, modelled=False, sample=None)
        if k != "ok":
            ctx.hist["mp4-uninterpretable:load-raises:" + label] += 1; continue
        key = name.decode("latin-1")
        fully = key in m2.tags and len(m2.tags[key]) == len(kids) and name != b"covr"
        if name == b"covr" and key in m2.tags and len(m2.tags[key]) >= 3:
            fully = True
        if fully:
            ctx.hist["mp4-uninterpretable:parsed-after-all:" + label] += 1; continue
        fobj.seek(0)
        k, r = timed(lambda: m2.save(fobj), 20)
        if k != "ok":
            ctx.violation("MP4:uninterpretable-atom:save-fails", repr(r)[:120], case); continue
        out1 = fobj.getvalue()
        # every data child of the original atom must still be in the file, in order
        pos = 0; lost = []
        for kid in kids:
            j = out1.find(kid, pos)
            if j < 0:
                lost.append(kid.hex()[:60])
            else:
                pos = j + len(kid)
        if lost and name != b"covr":
            ctx.violation("MP4:uninterpretable-atom-lost:%s" % label.split(":")[0],
                          "load + unchanged save dropped data mutagen could not interpret: %d of %d data atoms of %r are gone"
                          % (len(lost), len(kids), name), case)
        f2 = F.NamedBytesIO(out1, "a.m4a")
        k, m3 = timed(lambda: MP4(f2), 20)
        if k == "ok":
            f2.seek(0)
            k2, _ = timed(lambda: m3.save(f2), 20)
            if k2 == "ok" and f2.getvalue() != out1:
                ctx.violation("MP4:uninterpretable-atom:resave-differs", "second unchanged save differs from the first", case)
        ctx.hist["mp4-uninterpretable:checked:" + label] += 1


def splice_ilst_child(data, child):
    """append `child` to moov.udta.meta.ilst, growing every parent; chunk offsets are fixed by shifting mdat-relative
    tables only when moov precedes mdat — the sample used has moov after mdat? handled: returns None when unsure"""
    def atoms(start, end):
        out = []; pos = start
        while pos + 8 <= end:
            size, name = struct.unpack(">L4s", data[pos:pos + 8])
            if size < 8 or pos + size > end:
                break
            out.append((name, pos, size)); pos += size
        return out
    path = [b"moov", b"udta", b"meta", b"ilst"]
    start, end = 0, len(data)
    chain = []
    for name in path:
        found = None
        for (n, pos, size) in atoms(start, end):
            if n == name:
                found = (pos, size); break
        if found is None:
            return None
        chain.append(found)
        start = found[0] + 8 + (4 if name == b"meta" else 0)
        end = found[0] + found[1]
    ilst_pos, ilst_size = chain[-1]
    moov_pos = chain[0][0]
    # only safe when nothing with absolute offsets lies behind the insertion point
    mdat = [pos for (n, pos, size) in atoms(0, len(data)) if n == b"mdat"]
    if any(p > moov_pos for p in mdat):
        return None
    out = bytearray(data)
    ins = ilst_pos + ilst_size
    out[ins:ins] = child
    for (pos, size) in chain:
        out[pos:pos + 4] = struct.pack(">L", size + len(child))
    return bytes(out)


def order_independence(ctx):
    rng = ctx.rng
    from mutagen import id3 as I
    from mutagen.apev2 import APEv2, APEValue
    texts = ["a", "b", "", "Ünï", "\U0001F3B5", "x" * 40, "same", "same"]
    # --- ID3 carriers
    makers = [
        lambda t: I.TIT2(encoding=3, text=[t]), lambda t: I.TPE1(encoding=3, text=[t]), lambda t: I.TALB(encoding=1, text=[t, t]),
        lambda t: I.TRCK(encoding=0, text=["1/2"]), lambda t: I.TDRC(encoding=0, text=["2001"]), lambda t: I.TCON(encoding=3, text=[t]),
        lambda t: I.TPOS(encoding=0, text=["1"]), lambda t: I.COMM(encoding=3, lang="eng", desc="a", text=[t]),
        lambda t: I.COMM(encoding=3, lang="eng", desc="b", text=[t]), lambda t: I.TXXX(encoding=3, desc="k1", text=[t]),
        lambda t: I.TXXX(encoding=3, desc="k2", text=[t]), lambda t: I.APIC(encoding=0, mime="image/png", type=3, desc="c", data=t.encode("utf-8")),
        lambda t: I.APIC(encoding=0, mime="image/png", type=4, desc="d", data=t.encode("utf-8")), lambda t: I.PRIV(owner="o1", data=b"\x01\x02"),
        lambda t: I.PRIV(owner="o2", data=b"\x02\x01"), lambda t: I.UFID(owner="u", data=b"id"), lambda t: I.POPM(email="e", rating=3, count=7),
        lambda t: I.TPE2(encoding=3, text=[t]), lambda t: I.TCOM(encoding=3, text=[t]), lambda t: I.TSRC(encoding=0, text=["US"]),
    ]
    id3_fmts = [f for f in F.TAGGABLE if f.family == "id3"]
    from mutagen.id3._tags import ID3SaveConfig, save_frame
    PRIO = ["TIT2", "TPE1", "TRCK", "TALB", "TPOS", "TDRC", "TCON"]
    reqs = []       # (request line, expected bytes, case)
    for _ in range(ctx.budget(30, 400)):
        fmt = rng.choice(id3_fmts)
        sname = rng.choice(fmt.samples[:3])
        data = F.sample_bytes(ctx.repo, sname)
        n = rng.randrange(2, 12)
        chosen = rng.sample(range(len(makers)), n)
        t = rng.choice(texts)
        outs = []
        orders = []
        ver = rng.choice([3, 4])
        for rep in range(2):
            order = chosen[:]
            rng.shuffle(order)
            orders.append(order)
            fobj = F.NamedBytesIO(data, "o" + fmt.exts[0])
            try:
                obj = fmt.cls(fobj)
                if obj.tags is None:
                    obj.add_tags()
                obj.tags.clear()
                for i in order:
                    obj.tags.add(makers[i](t))
                fobj.seek(0)
                if fmt.kind in ("MP3", "TrueAudio"):
                    obj.save(fobj, v2_version=ver, v1=0)
                else:
                    obj.save(fobj, v2_version=ver)
                outs.append(fobj.getvalue())
                if rep == 0:
                    cfg = ID3SaveConfig(ver, "/")
                    fl = []
                    for fr in obj.tags.values():
                        prio = PRIO.index(fr.FrameID) if fr.FrameID in PRIO else len(PRIO)
                        d = save_frame(fr, config=cfg)
                        fl.append("%d:%s:%s" % (prio, d.hex() or "-", ".".join(str(ord(c)) for c in fr.HashKey) or "-"))
                    reqs.append(("tagc op=id3body frames=%s" % (",".join(fl) or "_"), bytes(obj.tags._write(cfg)),
                                 {"sub": "order-model", "format": fmt.kind, "frames": chosen, "order": order, "text": t, "version": ver}))
            except Exception as e:
                outs.append(("exc", type(e).__name__))
        case = {"sub": "order", "format": fmt.kind, "sample": sname, "frames": chosen, "orders": orders, "text": t, "version": ver}
        ctx.case(key=("order", fmt.kind, sname, tuple(sorted(chosen)), t, ver), nontrivial=orders[0] != orders[1], modelled=True, sample=None)
        ctx.hist["order:" + fmt.kind] += 1
        if outs[0] != outs[1]:
            ctx.violation("%s:order-dependent-bytes" % fmt.kind,
                          "the same %d frames inserted in two orders give different files (%s vs %s)"
                          % (n, len(outs[0]) if isinstance(outs[0], bytes) else outs[0], len(outs[1]) if isinstance(outs[1], bytes) else outs[1]), case)
    # --- APEv2 family
    ape_fmts = [f for f in F.TAGGABLE if f.family == "ape"]
    keys = ["Title", "Artist", "Album", "Year", "Track", "Genre", "Comment", "Cover Art (front)", "X-A", "X-B", "ab", "ba"]
    for _ in range(ctx.budget(30, 400)):
        fmt = rng.choice(ape_fmts)
        sname = rng.choice(fmt.samples[:3])
        data = F.sample_bytes(ctx.repo, sname)
        n = rng.randrange(2, len(keys))
        chosen = rng.sample(keys, n)
        vals = {k: (rng.choice(texts) if not k.startswith("Cover") else APEValue(b"\x00\x01" + rng.choice(texts).encode("utf-8"), 1)) for k in chosen}
        outs = []; orders = []
        for rep in range(2):
            order = chosen[:]
            rng.shuffle(order)
            orders.append(order)
            fobj = F.NamedBytesIO(data, "o" + fmt.exts[0])
            try:
                obj = fmt.cls(fobj)
                if obj.tags is None:
                    obj.add_tags()
                for k in list(obj.tags.keys()):
                    del obj.tags[k]
                for k in order:
                    obj.tags[k] = vals[k]
                fobj.seek(0)
                obj.save(fobj)
                outs.append(fobj.getvalue())
                if rep == 0:
                    il = []
                    for k, v in obj.tags.items():
                        il.append("%s:%d:%s" % (k.encode("utf-8").hex(), v.kind, v._write().hex() or "-"))
                    w = walkers.walk(fmt.kind, outs[-1])
                    tb = w.tag_bytes
                    # header(32) + items + footer(32)
                    body = tb[32:len(tb) - 32] if tb[:8] == b"APETAGEX" else None
                    if body is not None:
                        reqs.append(("tagc op=apebody items=%s" % (",".join(il) or "_"), body,
                                     {"sub": "order-model", "format": fmt.kind, "keys": order}))
            except Exception as e:
                outs.append(("exc", type(e).__name__))
        case = {"sub": "order", "format": fmt.kind, "sample": sname, "keys": chosen, "orders": orders,
                "values": {k: (v if isinstance(v, str) else "binary") for k, v in vals.items()}}
        ctx.case(key=("order", fmt.kind, sname, tuple(sorted(chosen)), tuple(sorted(case["values"].items()))),
                 nontrivial=orders[0] != orders[1], modelled=True, sample=None)
        ctx.hist["order:" + fmt.kind] += 1
        if outs[0] != outs[1]:
            ctx.violation("%s:order-dependent-bytes" % fmt.kind, "the same %d items inserted in two orders give different files" % n, case)
    # --- model tie: the Lean sort model (TagOrder.apeBody / id3Body) produces the bytes mutagen wrote
    if ctx.model_ok() and reqs:
        from vcheck import parse_fields
        answers = ctx.driver.ask([r[0] for r in reqs])
        for (line, expect, case), ans in zip(reqs, answers):
            st, fields = parse_fields(ans)
            got = fields.get("v", "")
            got = b"" if got == "-" else bytes.fromhex(got) if st == "ok" else None
            ctx.traces_validated += 1
            if got != expect:
                ctx.disagree("order model: Lean body differs from the bytes mutagen wrote", case,
                             model=(got.hex()[:80] if got is not None else ans), impl=expect.hex()[:80])
        ctx.hist["order:model-traces"] += len(reqs)


def run(ctx):
    containers.run_histories(ctx, {"resave"}, RULE)
    huge_padding(ctx)
    # MP4: every layout of the C10 family re-saved unchanged and after edits (structure, offset tables, media bytes)
    from props import c10
    H = [[("save", None, "default", False), ("save", None, "default", True)],
         [("save", "small", "default", False), ("save", None, "default", False), ("save", "small", "default", True)],
         [("save", "5k", "zero", False), ("save", None, "zero", False), ("save", "empty", "default", False)]]
    c10.run_shared(ctx, lambda i: [H[i % 3]] if ctx.quick else H, "c07")
    unknown_kept(ctx)
    order_independence(ctx)
    id3file_tie.run(ctx)
    import flacblocks_tie
    flacblocks_tie.run(ctx)
    dsf_tie.run(ctx)
    asf_tie.run(ctx)
    ogginject_tie.run(ctx)
    apefile_tie.run(ctx)


def search(ctx):
    old = ctx.tier; ctx.tier = "thorough"
    try:
        run(ctx)
    finally:
        ctx.tier = old
