"""C08 — delete() removes the tags and nothing else."""
import io
import containers
import formats as F
import walkers
from guards import timed
import id3file_tie
import dsf_tie
import asf_tie
import ogginject_tie
import iff_tie
import apefile_tie

RULE = ("random edit histories (set tiny/huge/empty/unicode values, save with default/0/n/keep padding, save through a fresh object, "
        "delete by method and by module function, reload) over every sample of every taggable format; after each save/delete an independent "
        "container walker extracts everything the tagging type does not own (audio, other Ogg streams and packets, non-comment FLAC blocks, "
        "non-metadata MP4 atoms, other IFF chunks, unknown ASF objects, tags of another family) and compares it byte for byte and in order "
        "with the state before. FLAC is additionally modelled and proved in Lean. Non-trivial: a save or delete ran; distinct by "
        "(format, sample, history index, step)")


def opus_trailing_data(ctx):
    """OpusTags packets with data behind the comment list (RFC 7845 §5.2: padding, to be preserved only when the least
    significant bit of its first byte is set).  After delete the comment packet is the empty comment header, plus that data
    exactly when it is to be preserved - never left-over padding."""
    from mutagen.ogg import OggPage
    from mutagen.oggopus import OggOpus
    rng = ctx.rng
    base = F.sample_bytes(ctx.repo, "example.opus")
    f0 = io.BytesIO(base)
    pages = []
    while True:
        try:
            pages.append(OggPage(f0))
        except EOFError:
            break
    serial = pages[0].serial
    old = [p for p in pages[1:3] if p.serial == serial][:1]
    i = 1
    old = [pages[1]]
    while not (old[-1].complete or len(old[-1].packets) > 1):
        i += 1; old.append(pages[i])
    packets = OggPage.to_packets(old, strict=False)
    comment = packets[0]
    if not comment.startswith(b"OpusTags"):
        ctx.notes.append("opus_trailing_data: unexpected layout"); return
    # the comment list proper (vendor + comments), without whatever trails in the sample
    import struct
    pos = 8
    vlen = struct.unpack("<I", comment[pos:pos + 4])[0]; pos += 4 + vlen
    n = struct.unpack("<I", comment[pos:pos + 4])[0]; pos += 4
    for _ in range(n):
        l = struct.unpack("<I", comment[pos:pos + 4])[0]; pos += 4 + l
    core = comment[:pos]
    trails = [b"", b"\0" * 300, b"\x02" + b"\xaa" * 299, b"\xfe" * 40, b"\x20junk", b"\x01keep-me" + b"\x55" * 30, b"\xff" * 10]
    for t in trails:
        pk = [core + t] + packets[1:]
        newp = OggPage.from_packets(pk, old[0].sequence, default_size=255 * 255)
        g = io.BytesIO(base)
        try:
            OggPage.replace(g, old, newp)
        except Exception as e:
            ctx.hist["opus-trailing:cannot-build"] += 1; continue
        data = g.getvalue()
        if walkers.walk("OggOpus", data).errors:
            ctx.hist["opus-trailing:not-wellformed"] += 1; continue
        keep = bool(t) and bool(t[0] & 1)
        for how in ("method", "function"):
            f = F.NamedBytesIO(data, "x.opus")
            case = {"sub": "opus-trailing-data", "trailing": t.hex()[:40], "trailing_len": len(t), "how": how}
            def go():
                if how == "method":
                    o = OggOpus(f); f.seek(0); o.delete(f)
                else:
                    import mutagen.oggopus
                    mutagen.oggopus.delete(f)
            k, r = timed(go, 20)
            ctx.case(key=("opus-trailing", t[:2].hex(), len(t), how), nontrivial=True, modelled=False, sample=case if t[:1] == b"\x02" and how == "method" else None)
            ctx.hist["opus-trailing"] += 1
            if k != "ok":
                ctx.violation("OggOpus:trailing-data:delete-fails", repr(r)[:100], case); continue
            w = walkers.walk("OggOpus", f.getvalue())
            pkt = w.tag_bytes
            # empty comment header: "OpusTags", vendor, zero comments
            if not pkt.startswith(b"OpusTags"):
                ctx.violation("OggOpus:trailing-data:no-comment-header", "comment packet missing after delete", case); continue
            vl = struct.unpack("<I", pkt[8:12])[0]
            minimal = 8 + 4 + vl + 4
            cnt = struct.unpack("<I", pkt[12 + vl:16 + vl])[0]
            extra = pkt[minimal:]
            if cnt != 0:
                ctx.violation("OggOpus:delete-leaves-tags", "%d comments after delete" % cnt, case)
            if keep and extra != t:
                ctx.violation("OggOpus:trailing-data:preserved-data-lost", "data that must be preserved (first byte odd) changed: %d -> %d bytes"
                              % (len(t), len(extra)), case)
            if not keep and extra:
                ctx.violation("OggOpus:delete-leaves-padding", "the comment packet still carries %d bytes behind the empty comment header "
                              "(padding whose first byte is even is not to be kept)" % len(extra), case)


def run(ctx):
    containers.run_histories(ctx, {"delete", "foreign", "info"}, RULE)
    opus_trailing_data(ctx)
    # MP4: every layout of the C10 family under delete histories (structure, offset tables, media bytes, reload)
    from props import c10
    H = [[("delete",)], [("delete",), ("delete",)],
         [("save", "5k", "default", False), ("delete",), ("save", "small", "zero", False)],
         [("save", "small", "large", False), ("delete",), ("delete",), ("save", "cover", "default", False)]]
    c10.run_shared(ctx, lambda i: [H[0], H[1 + i % 3]] if ctx.quick else H, "c08")
    id3file_tie.run(ctx)
    dsf_tie.run(ctx)
    asf_tie.run(ctx)
    ogginject_tie.run(ctx)
    iff_tie.run(ctx)
    apefile_tie.run(ctx)


def search(ctx):
    old = ctx.tier; ctx.tier = "thorough"
    try:
        run(ctx)
    finally:
        ctx.tier = old
