"""C14 — Syncsafe integers and unsynchronisation are exact inverses (mutagen/id3/_util.py)."""
import io, itertools, struct
from vcheck import hx, unhx, parse_fields
from guards import timed

RULE = ("BitPaddedInt.to_str / BitPaddedInt(bytes): all integers below 2**10 (quick) / 2**16 (thorough) plus the carry lattice "
        "around 2**(bits*k) up to 2**35 and negatives, x bits 1..8 x widths {0..5,-1} x endianness; unsynch: all strings over "
        "{00,01,7F,80,DF,E0,FE,FF} up to length 5 (quick) / 7 (thorough) plus random long strings, encode and decode (decode also "
        "on unsafe input); hand-built unsynchronised v2.2/v2.3 tags and v2.4 frames read through ID3(). Non-trivial: the call returned a "
        "non-empty encoding or was rejected; distinct by full argument tuple")

HANGS = [0]
ALPHA = [0x00, 0x01, 0x7F, 0x80, 0xDF, 0xE0, 0xFE, 0xFF]


def ref_unsynch(b):
    """independent reference (ID3v2.4 structure §6.1)"""
    out = bytearray()
    for i, x in enumerate(b):
        out.append(x)
        if x == 0xFF and (i + 1 == len(b) or b[i + 1] >= 0xE0 or b[i + 1] == 0x00):
            out.append(0)
    return bytes(out)


def has_false_sync(b):
    if b.endswith(b"\xff"):
        return True
    return any(b[i] == 0xFF and b[i + 1] >= 0xE0 for i in range(len(b) - 1))


def real_tostr(v, bits, be, width, mw):
    from mutagen.id3._util import BitPaddedInt
    if v < 0 and width == -1 and HANGS[0] >= 3:
        return "skipped", None     # three hangs seen already: do not spend the budget on more
    kind, r = timed(lambda: BitPaddedInt.to_str(v, bits=bits, bigendian=be, width=width, minwidth=mw), 0.5)
    if kind == "hang":
        HANGS[0] += 1
    if kind == "ok":
        return "ok", r
    if kind == "hang":
        return "hang", None
    return "err:" + ("value" if isinstance(r, ValueError) else type(r).__name__), None


def bp_cases(ctx):
    top = ctx.budget(1 << 10, 1 << 16)
    vals = set(range(top))
    for bits in range(1, 9):
        for k in range(1, 6):
            c = 1 << (bits * k)
            vals.update([c - 1, c, c + 1])
    for e in (14, 21, 28, 32, 35):
        vals.update([(1 << e) - 1, 1 << e, (1 << e) + 1])
    for _ in range(200):
        vals.add(ctx.rng.randrange(1 << 35))
    neg = [-1, -2, -128, -(1 << 28)]
    cases = []
    for bits in range(1, 9):
        for be in (True, False):
            for width in (0, 1, 2, 3, 4, 5, -1):
                mws = (4,) if width != -1 else (0, 2, 4)
                for mw in mws:
                    for v in vals:
                        if width == -1 and v >= top and bits > 1 and v % 7:
                            continue
                        cases.append((v, bits, be, width, mw))
                    for v in neg:
                        cases.append((v, bits, be, width, mw))
    return cases


def run_bp(ctx):
    from mutagen.id3._util import BitPaddedInt
    cases = bp_cases(ctx)
    if ctx.quick and len(cases) > 150000:
        cases = [c for i, c in enumerate(cases) if c[0] < 0 or c[0] > 1024 or i % 3 != 1 or c[0] < 130]
    model = None
    if ctx.model_ok():
        model = ctx.driver.ask(["bp op=tostr v=%d bits=%d be=%d width=%d mw=%d" % (v, bits, int(be), w, mw)
                                for v, bits, be, w, mw in cases])
    dec_lines = []; dec_expect = []
    for i, (v, bits, be, width, mw) in enumerate(cases):
        st, out = real_tostr(v, bits, be, width, mw)
        ctx.hist["to_str:" + st] += 1
        nontriv = (st == "ok" and len(out) > 0) or st.startswith("err")
        ctx.case(key=("bp", v, bits, be, width, mw), nontrivial=nontriv,
                 sample={"call": "to_str", "v": v, "bits": bits, "bigendian": be, "width": width, "minwidth": mw,
                         "status": st, "out": hx(out) if out is not None else None} if i % 40009 == 5 else None)
        case = {"fn": "to_str", "v": v, "bits": bits, "be": be, "width": width, "mw": mw}
        # oracle
        if st == "skipped":
            continue
        if v < 0:
            if st != "err:value":
                ctx.violation("to_str:negative-not-rejected" + (":growing-width-hangs" if st == "hang" else ""),
                              "to_str(%d, bits=%d, width=%d) -> %s instead of ValueError" % (v, bits, width, st), case)
        elif width >= 0:
            fits = v < (1 << (bits * width))
            if fits:
                ok = (st == "ok" and len(out) == width and all(x < (1 << bits) for x in out)
                      and int(BitPaddedInt(out, bits=bits, bigendian=be)) == v)
                if not ok:
                    ctx.violation("to_str:roundtrip", "to_str/parse round trip failed (status %s)" % st, case)
            elif st != "err:value":
                ctx.violation("to_str:too-wide-not-rejected", "value that does not fit gave %s" % st, case)
        else:
            ok = (st == "ok" and len(out) >= mw and all(x < (1 << bits) for x in out)
                  and int(BitPaddedInt(out, bits=bits, bigendian=be)) == v)
            if ok and len(out) > mw:
                top_byte = out[0] if be else out[-1]
                ok = top_byte != 0
            if not ok:
                ctx.violation("to_str:growing-roundtrip", "growing to_str round trip failed (status %s)" % st, case)
        if model is not None:
            mst, mf = parse_fields(model[i])
            ctx.traces_validated += 1
            impl = (st, hx(out) if out is not None else None)
            if (mst, mf.get("v")) != impl:
                ctx.disagree("to_str", case, model=model[i], impl=impl)
        if st == "ok" and i % 3 == 0:
            dec_lines.append("bp op=frombytes data=%s bits=%d be=%d" % (hx(out), bits, int(be)))
            dec_expect.append((out, bits, be))
    # parse side on arbitrary bytes (padding bits set too) + has_valid_padding + int form
    rng = ctx.rng
    for _ in range(ctx.budget(3000, 30000)):
        n = rng.choice([0, 1, 2, 3, 4, 5, 8])
        b = bytes(rng.choice([0, 1, 0x7F, 0x80, 0xFF, rng.randrange(256)]) for _ in range(n))
        bits = rng.randrange(1, 9); be = rng.random() < 0.5
        dec_lines.append("bp op=frombytes data=%s bits=%d be=%d" % (hx(b), bits, int(be)))
        dec_expect.append((b, bits, be))
    pad_lines = []; pad_expect = []
    for _ in range(ctx.budget(2000, 20000)):
        n = rng.choice([0, 1, 2, 4, 5])
        b = bytes(rng.choice([0, 1, 0x7F, 0x80, 0xFF, rng.randrange(256)]) for _ in range(n))
        bits = rng.randrange(1, 9)
        pad_lines.append("bp op=padbytes data=%s bits=%d" % (hx(b), bits)); pad_expect.append(("b", b, bits))
        v = int.from_bytes(b, "big")
        pad_lines.append("bp op=padint v=%d bits=%d" % (v, bits)); pad_expect.append(("i", v, bits))
        pad_lines.append("bp op=fromint v=%d bits=%d" % (v, bits)); pad_expect.append(("f", v, bits))
    if model is not None:
        mo = ctx.driver.ask(dec_lines)
        for (b, bits, be), line in zip(dec_expect, mo):
            r = int(BitPaddedInt(b, bits=bits, bigendian=be))
            ctx.case(key=("frombytes", b, bits, be), nontrivial=len(b) > 0)
            ctx.traces_validated += 1
            if line != "ok v=%d" % r:
                ctx.disagree("BitPaddedInt(bytes)", {"data": hx(b), "bits": bits, "be": be}, model=line, impl=r)
        mo = ctx.driver.ask(pad_lines)
        for (kind, x, bits), line in zip(pad_expect, mo):
            if kind == "b":
                r = "ok v=%d" % int(BitPaddedInt.has_valid_padding(x, bits))
            elif kind == "i":
                r = "ok v=%d" % int(BitPaddedInt.has_valid_padding(x, bits))
            else:
                r = "ok v=%d" % int(BitPaddedInt(x, bits=bits))
            ctx.case(key=("pad", kind, x, bits), nontrivial=bool(x))
            ctx.traces_validated += 1
            if line != r:
                ctx.disagree("padding/int-parse", {"kind": kind, "x": hx(x) if kind == "b" else x, "bits": bits}, model=line, impl=r)


def run_unsynch(ctx):
    from mutagen.id3._util import unsynch
    rng = ctx.rng
    maxlen = ctx.budget(5, 7)
    strings = []
    for n in range(maxlen + 1):
        for t in itertools.product(ALPHA, repeat=n):
            strings.append(bytes(t))
    nex = len(strings)
    for _ in range(ctx.budget(300, 3000)):
        n = rng.choice([8, 9, 16, 100, 1000, 5000])
        strings.append(bytes(rng.choice(ALPHA + [rng.randrange(256)]) for _ in range(n)))
    model_enc = model_dec = None
    if ctx.model_ok():
        model_enc = ctx.driver.ask(["uns op=enc data=" + hx(s) for s in strings])
        model_dec = ctx.driver.ask(["uns op=dec data=" + hx(s) for s in strings])
    for i, s in enumerate(strings):
        enc = unsynch.encode(s)
        try:
            back = unsynch.decode(enc); st = "ok"
        except ValueError:
            back = None; st = "err:value"
        ctx.case(key=("uns", s), nontrivial=(enc != s),
                 sample={"call": "unsynch.encode", "in": hx(s), "out": hx(enc)} if i % 50021 == 77 else None)
        ctx.hist["unsynch:" + ("changed" if enc != s else "unchanged")] += 1
        if back != s:
            ctx.violation("unsynch:roundtrip", "decode(encode(s)) != s", {"fn": "unsynch", "s": hx(s)})
        if has_false_sync(enc):
            ctx.violation("unsynch:false-sync", "encode(s) contains a false sync or ends with 0xFF", {"fn": "unsynch", "s": hx(s)})
        if enc != ref_unsynch(s):
            ctx.violation("unsynch:not-spec", "encode(s) differs from the ID3v2.4 unsynchronisation scheme", {"fn": "unsynch", "s": hx(s)})
        # decode of arbitrary input
        try:
            d = ("ok", unsynch.decode(s))
        except ValueError:
            d = ("err:value", None)
        except Exception as e:
            d = ("err:" + type(e).__name__, None)
            ctx.violation("unsynch:decode-raises-" + type(e).__name__, "decode raised " + type(e).__name__, {"fn": "unsynch.decode", "s": hx(s)})
        if model_enc is not None:
            ctx.traces_validated += 2
            if model_enc[i] != "ok v=" + hx(enc):
                ctx.disagree("unsynch.encode", {"s": hx(s)}, model=model_enc[i], impl=hx(enc))
            mst, mf = parse_fields(model_dec[i])
            if (mst, mf.get("v")) != (d[0], hx(d[1]) if d[1] is not None else None):
                ctx.disagree("unsynch.decode", {"s": hx(s)}, model=model_dec[i], impl=d[0])
    ctx.extra["exhaustive_part"] = "all %d strings over the 8-letter sync alphabet up to length %d" % (nex, maxlen)


def syncsafe(n):
    return bytes([(n >> 21) & 0x7F, (n >> 14) & 0x7F, (n >> 7) & 0x7F, n & 0x7F])


def run_tags(ctx):
    """tags read with the unsynchronisation flag decode to the original frame bytes"""
    from mutagen.id3 import ID3
    rng = ctx.rng
    payloads = [b"\x01\xff\xfeA\x00\xff\x00", b"\x00\xff\xe0\xff", b"\x00plain", b"\x01\xff\xfe\xff\xff\x00\xe0"]
    for _ in range(ctx.budget(60, 600)):
        n = rng.randrange(1, 40)
        payloads.append(bytes([rng.choice([0, 3])]) + bytes(rng.choice(ALPHA + [0x41]) for _ in range(n)))
    for i, p in enumerate(payloads):
        # APIC-like binary carrier: PRIV owner\0 data keeps arbitrary bytes
        frames23 = b""
        body = b"own\x00" + p
        frames23 += b"PRIV" + struct.pack(">LH", len(body), 0) + body
        t = b"\x00title"
        frames23 += b"TIT2" + struct.pack(">LH", len(t), 0) + t
        plain23 = b"ID3\x03\x00\x00" + syncsafe(len(frames23)) + frames23
        u = ref_unsynch(frames23)
        uns23 = b"ID3\x03\x00\x80" + syncsafe(len(u)) + u
        # v2.4: per-frame unsynchronisation flag 0x0002 (+ global flag)
        ub = ref_unsynch(body)
        f24p = b"PRIV" + syncsafe(len(body)) + b"\x00\x00" + body + b"TIT2" + syncsafe(len(t)) + b"\x00\x00" + t
        f24u = b"PRIV" + syncsafe(len(ub)) + b"\x00\x02" + ub + b"TIT2" + syncsafe(len(t)) + b"\x00\x00" + t
        plain24 = b"ID3\x04\x00\x00" + syncsafe(len(f24p)) + f24p
        uns24 = b"ID3\x04\x00\x80" + syncsafe(len(f24u)) + f24u
        # v2.2: 3-byte ids and sizes, whole-tag unsynchronisation (flag bit 7); PRIV has no v2.2 form: UFI carries bytes
        b22 = b"own\x00" + p
        frames22 = b"UFI" + len(b22).to_bytes(3, "big") + b22 + b"TT2" + len(t).to_bytes(3, "big") + t
        plain22 = b"ID3\x02\x00\x00" + syncsafe(len(frames22)) + frames22
        u22 = ref_unsynch(frames22)
        uns22 = b"ID3\x02\x00\x80" + syncsafe(len(u22)) + u22
        # v2.4: compressed (zlib) + data length indicator + unsynchronised frame: the unsynchronisation is undone first,
        # then the frame is inflated (ID3v2.4 structure §4.1.2: flags k, p, n)
        import zlib
        zb = syncsafe(len(body)) + zlib.compress(body)
        uzb = ref_unsynch(zb)
        f24zu = b"PRIV" + syncsafe(len(uzb)) + b"\x00\x0b" + uzb + b"TIT2" + syncsafe(len(t)) + b"\x00\x00" + t
        uns24z = b"ID3\x04\x00\x00" + syncsafe(len(f24zu)) + f24zu
        uns24zg = b"ID3\x04\x00\x80" + syncsafe(len(f24zu)) + f24zu
        # the unsynchronisation flag next to the other header flags: a real extended header (part of the unsynchronised
        # area in v2.3), the extended-header flag of taggers that set it without writing one (a frame id follows the
        # header directly; the reader detects that), the experimental flag
        def hdr(ver, flags, body):
            return b"ID3" + bytes([ver, 0, flags]) + syncsafe(len(body)) + body
        ext23 = struct.pack(">LHL", 6, 0, 0)
        ext24 = syncsafe(6) + b"\x01\x00"
        more = [("v2.3+exthdr", hdr(3, 0x40, ext23 + frames23), hdr(3, 0xC0, ref_unsynch(ext23 + frames23))),
                ("v2.3+exthdr-flag-only", hdr(3, 0x40, frames23), hdr(3, 0xC0, u)),
                ("v2.3+experimental", hdr(3, 0x20, frames23), hdr(3, 0xA0, u)),
                ("v2.3+exthdr-flag-only+experimental", hdr(3, 0x60, frames23), hdr(3, 0xE0, u)),
                ("v2.4+exthdr", hdr(4, 0x40, ext24 + f24p), hdr(4, 0xC0, ext24 + f24u)),
                ("v2.4+exthdr-flag-only", hdr(4, 0x40, f24p), hdr(4, 0xC0, f24u)),
                ("v2.4+experimental", hdr(4, 0x20, f24p), hdr(4, 0xA0, f24u))]
        for name, a, b in [("v2.3", plain23, uns23), ("v2.4", plain24, uns24), ("v2.2", plain22, uns22),
                           ("v2.4-compressed", plain24, uns24z), ("v2.4-compressed+tagflag", plain24, uns24zg)] + more:
            def load(x):
                tag = ID3(io.BytesIO(x), translate=False)
                return sorted((k, repr(v)) for k, v in tag.items())
            ka, ra = timed(lambda: load(a), 5)
            kb, rb = timed(lambda: load(b), 5)
            ctx.case(key=("tag", name, p), nontrivial=(a != b), modelled=False,
                     sample={"call": "ID3(unsynchronised %s tag)" % name, "payload": hx(p)} if i == 1 else None)
            ctx.hist["tag:" + name] += 1
            if ka != "ok" or kb != "ok" or ra != rb or len(ra) != 2:
                ctx.violation("tag-unsynch:" + name, "unsynchronised %s tag does not read like the plain one" % name,
                              {"fn": "tag", "version": name, "payload": hx(p)})


def run(ctx):
    ctx.rule = RULE
    run_bp(ctx)
    run_unsynch(ctx)
    run_tags(ctx)


def search(ctx):
    old = ctx.tier; ctx.tier = "thorough"
    try:
        run(ctx)
    finally:
        ctx.tier = old
