"""C11 — Resizing a region inside a file moves the rest intact (mutagen/_util.py)."""
import itertools
from vcheck import hx, unhx, parse_fields
from fobj import TraceFile

RULE = ("exhaustive tuples (file length, op, arguments incl. out-of-range, buffer size 1..5) for small lengths, "
        "the lattice {kB-1,kB,kB+1} for B in {1,2,7,4096} and for the real default buffer, random tuples; "
        "a case is non-trivial when the request is valid and actually moves or resizes bytes, or is rejected; "
        "distinct by (op, length, args, B)")


def real(op, data, args, B):
    """run the real primitive on a tracing BytesIO; returns (status, bytes, log)"""
    from mutagen import _util
    f = TraceFile(data)
    try:
        if op == "move":
            _util.move_bytes(f, args[0], args[1], args[2], B)
        elif op == "insert":
            _util.insert_bytes(f, args[0], args[1], B)
        elif op == "delete":
            _util.delete_bytes(f, args[0], args[1], B)
        elif op == "resize":
            di, dd = _util.insert_bytes.__defaults__, _util.delete_bytes.__defaults__
            try:
                _util.insert_bytes.__defaults__ = (B,)
                _util.delete_bytes.__defaults__ = (B,)
                _util.resize_bytes(f, args[0], args[1], args[2])
            finally:
                _util.insert_bytes.__defaults__, _util.delete_bytes.__defaults__ = di, dd
        st = "ok"
    except ValueError:
        st = "err:value"
    except IOError:
        st = "err:io"
    except Exception as e:
        st = "err:" + type(e).__name__
    return st, f.getvalue(), ",".join(f.log) or "-"


def oracle(op, data, args, st, out):
    """the property on the real output against the slice reference; returns None or text"""
    L = len(data)
    neg = any(a < 0 for a in args)
    if op == "move":
        dest, src, count = args
        valid = not neg and max(dest, src) + count <= L
        if valid:
            ref = bytearray(data); ref[dest:dest + count] = data[src:src + count]; ref = bytes(ref)
    elif op == "insert":
        size, off = args
        valid = not neg and off <= L
        ref = None
    elif op == "delete":
        size, off = args
        valid = not neg and off + size <= L
        if valid:
            ref = data[:off] + data[off + size:]
    else:
        old, new, off = args
        valid = not neg and off + old <= L
        ref = None
        if old == new:
            # documented: does nothing if no resizing is needed
            return None if out == data else "resize with old == new changed the file"
    if not valid:
        if st == "ok" or out != data:
            return "request reaching outside the file was not rejected cleanly (status %s, modified=%s)" % (st, out != data)
        if st != "err:value":
            return "rejected with %s instead of ValueError" % st
        return None
    if st != "ok":
        return "valid request failed with " + st
    if op == "insert":
        size, off = args
        if not (len(out) == L + size and out[:off] == data[:off] and out[off + size:] == data[off:]):
            return "insert_bytes lost or moved bytes outside the gap"
        return None
    if op == "resize":
        old, new, off = args
        k = min(old, new)
        if not (len(out) == L - old + new and out[:off + k] == data[:off + k] and out[off + new:] == data[off + old:]):
            return "resize_bytes lost or moved bytes outside the resized region"
        return None
    if out != ref:
        return "%s result differs from the slice reference" % op
    return None


def key_for(op, args):
    if op == "resize" and any(a < 0 for a in args):
        return "resize_bytes:negative-argument-not-rejected"
    return "%s:wrong-result" % op


def gen_cases(ctx):
    rng = ctx.rng
    Lmax = ctx.budget(5, 8)
    cases = []
    for L in range(0, Lmax + 1):
        data = bytes((17 * i + 3) % 251 + 1 for i in range(L))
        rngargs = range(-1, L + 3)
        for B in range(1, 6):
            for a, b in itertools.product(rngargs, rngargs):
                cases.append(("insert", data, (a, b), B))
                cases.append(("delete", data, (a, b), B))
            for a, b, c in itertools.product(rngargs, rngargs, rngargs):
                cases.append(("move", data, (a, b, c), B))
                if ctx.budget(L <= 4, L <= 6):
                    cases.append(("resize", data, (a, b, c), B))
    nex = len(cases)
    # lattice around buffer sizes
    for B in (1, 2, 7, 4096):
        ks = [k * B + d for k in (1, 2, 3) for d in (-1, 0, 1)]
        for n in ks:
            if n < 0:
                continue
            L = n + 3 * B + 5
            if L > 40000:
                L = n + 37
            data = bytes(rng.randrange(256) for _ in range(min(L, 20000)))
            L = len(data)
            for off in (0, 1, min(B, L), L // 2):
                if n <= 12300:
                    cases.append(("insert", data, (n, off), B))
                if off + n <= L:
                    cases.append(("delete", data, (n, off), B))
                    cases.append(("move", data, (off, min(off + 1, L - n), n), B))
                    cases.append(("move", data, (min(off + 1, L - n), off, n), B))
                    cases.append(("resize", data, (n, n + B + 1, off), B))
                    cases.append(("resize", data, (n, max(0, n - B - 1), off), B))
    # random
    for _ in range(ctx.budget(400, 4000)):
        L = rng.choice([0, 1, 2, 3, 10, 64, 300, 1000])
        data = bytes(rng.randrange(256) for _ in range(L))
        B = rng.choice([1, 2, 3, 5, 8, 64, 4096, 1 << 20])
        op = rng.choice(["insert", "delete", "move", "resize"])
        r = lambda: rng.randrange(-1, L + 3) if rng.random() < 0.7 else rng.randrange(0, 2 * L + 5)
        args = (r(), r(), r()) if op in ("move", "resize") else (r(), r())
        cases.append((op, data, args, B))
    # the real default buffer: files of 1-3 MiB
    from mutagen import _util
    D = _util._DEFAULT_BUFFER_SIZE
    big = []
    for mult, delta in ctx.budget([(1, 1)], [(1, -1), (1, 0), (1, 1), (2, 1)]):
        n = mult * D + delta
        blob = bytes((i * 2654435761 >> 7) & 0xFF for i in range(n + 4099))
        big.append(("delete", blob, (4099, 0), D))
        big.append(("insert", blob[:n + 5], (7, 3), D))
        big.append(("move", blob[:n + 9], (0, 9, n), D))
        big.append(("move", blob[:n + 9], (9, 0, n), D))
    # buffer sizes around the real default together with sizes around it (growth and shrink larger than one buffer)
    small = bytes((i * 40503 >> 3) & 0xFF for i in range(5003))
    for B in ctx.budget([D + 1], [D - 1, D, D + 1, 2 * D + 1]):
        for n in ctx.budget([D + 1], [D - 1, D, D + 1, 2 * D + 3]):
            big.append(("insert", small, (n, 17), B))
            big.append(("resize", small, (3, n + 3, 1000), B))
            grown = small[:1000] + bytes((i * 7919 >> 2) & 0xFF for i in range(n + 5)) + small[1000:]
            big.append(("delete", grown, (n, 1000), B))
            big.append(("resize", grown, (n + 5, 2, 1000), B))
    return cases, nex, big


def real_on_file(op, data, args, B, pending):
    """the same primitive on a real buffered file (open(path, "rb+")) whose last `pending` bytes were appended and are
    still in Python's write buffer when the primitive is called (nothing flushed, nothing sought since the write)"""
    import tempfile, os
    from mutagen import _util
    fd, path = tempfile.mkstemp(prefix="verif-c11-")
    os.close(fd)
    try:
        with open(path, "wb") as h:
            h.write(data[:len(data) - pending])
        f = open(path, "rb+")
        try:
            f.seek(0, 2)
            if pending:
                f.write(data[len(data) - pending:])
            try:
                if op == "move":
                    _util.move_bytes(f, args[0], args[1], args[2], B)
                elif op == "insert":
                    _util.insert_bytes(f, args[0], args[1], B)
                elif op == "delete":
                    _util.delete_bytes(f, args[0], args[1], B)
                else:
                    di, dd = _util.insert_bytes.__defaults__, _util.delete_bytes.__defaults__
                    try:
                        _util.insert_bytes.__defaults__ = (B,)
                        _util.delete_bytes.__defaults__ = (B,)
                        _util.resize_bytes(f, args[0], args[1], args[2])
                    finally:
                        _util.insert_bytes.__defaults__, _util.delete_bytes.__defaults__ = di, dd
                st = "ok"
            except ValueError:
                st = "err:value"
            except IOError:
                st = "err:io"
            except Exception as e:
                st = "err:" + type(e).__name__
        finally:
            f.close()
        with open(path, "rb") as h:
            return st, h.read()
    finally:
        os.unlink(path)


def run_real_files(ctx, cases):
    """a sample of the cases on real buffered files, with and without an unflushed appended tail: same status and same
    bytes as on the in-memory file (the primitives are documented for any file object; mutagen itself calls them right
    after writes)"""
    rng = ctx.rng
    pick = [c for c in cases if len(c[1]) >= 2]
    pick = rng.sample(pick, min(len(pick), ctx.budget(400, 4000)))
    for op, data, args, B in pick:
        st0, out0, _log = real(op, data, args, B)
        for pending in sorted({0, 1, len(data) // 2, len(data)}):
            st, out = real_on_file(op, data, args, B, pending)
            ctx.case(key=("realfile", op, len(data), args, B, pending), nontrivial=(pending > 0), modelled=False)
            ctx.hist["realfile:pending=%s" % ("0" if pending == 0 else "all" if pending == len(data) else "some")] += 1
            if (st, out) != (st0, out0) and not (st.startswith("err") and st0.startswith("err") and out == out0):
                ctx.violation("%s:real-file-differs" % op, "on a real buffered file with %d appended bytes not yet flushed: %s, %d bytes; on the "
                              "in-memory file: %s, %d bytes" % (pending, st, len(out), st0, len(out0)),
                              {"op": op, "data": hx(data) if len(data) < 4096 else "len=%d" % len(data), "args": list(args), "B": B, "pending": pending})


def run(ctx, only=None):
    ctx.rule = RULE
    cases, nex, big = gen_cases(ctx)
    allc = cases + big
    model = None
    if ctx.model_ok():
        lines = []
        for op, data, args, B in allc:
            kv = " ".join("%s=%d" % (k, v) for k, v in zip("abc", args))
            lines.append("fo op=%s data=%s B=%d %s" % (op, hx(data), B, kv))
        model = ctx.driver.ask(lines)
    for i, (op, data, args, B) in enumerate(allc):
        st, out, log = real(op, data, args, B)
        valid = st == "ok"
        nontriv = (valid and out != data) or st.startswith("err")
        ctx.case(key=(op, len(data), args, B), nontrivial=nontriv,
                 sample={"op": op, "file_len": len(data), "args": list(args), "B": B, "status": st,
                         "log": log if len(log) < 200 else log[:200] + "..."} if i % 9973 == 17 or i == nex + 3 else None)
        ctx.hist["op:" + op] += 1
        ctx.hist["status:" + st] += 1
        ctx.hist["B:%s" % (B if B <= 7 else ("4096" if B == 4096 else "big"))] += 1
        bad = oracle(op, data, args, st, out)
        if bad:
            ctx.violation(key_for(op, args), bad, {"op": op, "data": hx(data) if len(data) < 4096 else "len=%d" % len(data),
                                                   "args": list(args), "B": B, "status": st})
        if model is not None:
            mst, mf = parse_fields(model[i])
            ctx.traces_validated += 1
            if (mst, mf.get("data"), mf.get("log")) != (st, hx(out), log):
                # B=0 never occurs here; any difference is a broken correspondence
                ctx.disagree("fileop", {"op": op, "data": hx(data)[:200], "args": list(args), "B": B},
                             model=model[i][:300], impl="%s data=%s log=%s" % (st, hx(out)[:200], log[:200]))
    run_real_files(ctx, allc)
    ctx.exhaustive = False
    ctx.extra["exhaustive_part"] = "all tuples with file length <= %d, arguments in [-1, L+2], B in 1..5: %d cases" % (
        ctx.budget(5, 8), nex)


def search(ctx):
    old = ctx.tier
    ctx.tier = "thorough"
    try:
        run(ctx)
    finally:
        ctx.tier = old


def replay(ctx, payload):
    c = payload["case"]
    data = unhx(c["data"]) if not str(c["data"]).startswith("len=") else bytes(int(c["data"][4:]))
    st, out, log = real(c["op"], data, tuple(c["args"]), c["B"])
    ctx.rule = RULE
    ctx.case(key="replay", sample=c)
    ctx.case(key="replay2")
    bad = oracle(c["op"], data, tuple(c["args"]), st, out)
    if bad:
        ctx.violation(key_for(c["op"], tuple(c["args"])), bad, c)
