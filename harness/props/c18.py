"""C18 — Type detection is stable under tagging and option order (mutagen/_file.py File, K.score)."""
import io, itertools
from vcheck import hx, parse_fields
from guards import timed
import formats as F

RULE = ("every sample file of every concrete format x edit histories through the detected type (tags of 5 bytes to 20 KiB, save, delete, "
        "save again; APEv2 / ID3 tags growing past the 128-byte window) x every extension of the type in lower/upper/mixed case (nameless where "
        "the magic stays at offset 0) x easy on/off x random permutations of the options list. Compared per state: every real K.score against "
        "the generated score expression evaluated on the file's observations, type(File(f)) against the model's pick, and that the observed atom "
        "valuation is one of the feature states `reach F` the theorem quantifies over. Non-trivial: distinct (first 128 bytes, trailer, name) state")


def options_list(easy):
    import mutagen._file as mf
    import inspect, ast
    # reproduce File()'s own default list
    from mutagen.asf import ASF
    from mutagen.apev2 import APEv2File
    from mutagen.flac import FLAC
    if easy:
        from mutagen.easyid3 import EasyID3FileType as ID3FileType
        from mutagen.mp3 import EasyMP3 as MP3
        from mutagen.trueaudio import EasyTrueAudio as TrueAudio
        from mutagen.easymp4 import EasyMP4 as MP4
    else:
        from mutagen.id3 import ID3FileType
        from mutagen.mp3 import MP3
        from mutagen.trueaudio import TrueAudio
        from mutagen.mp4 import MP4
    from mutagen.oggflac import OggFLAC
    from mutagen.oggspeex import OggSpeex
    from mutagen.oggtheora import OggTheora
    from mutagen.oggvorbis import OggVorbis
    from mutagen.oggopus import OggOpus
    from mutagen.wavpack import WavPack
    from mutagen.musepack import Musepack
    from mutagen.monkeysaudio import MonkeysAudio
    from mutagen.optimfrog import OptimFROG
    from mutagen.aiff import AIFF
    from mutagen.aac import AAC
    from mutagen.ac3 import AC3
    from mutagen.smf import SMF
    from mutagen.tak import TAK
    from mutagen.dsf import DSF
    from mutagen.dsdiff import DSDIFF
    from mutagen.wave import WAVE
    return [MP3, TrueAudio, OggTheora, OggSpeex, OggVorbis, OggFLAC, FLAC, AIFF, APEv2File, MP4, ID3FileType, WavPack,
            Musepack, MonkeysAudio, OptimFROG, ASF, OggOpus, AAC, AC3, SMF, TAK, DSF, DSDIFF, WAVE]


NAMELESS_OK = {"FLAC", "OggVorbis", "OggOpus", "OggSpeex", "OggFLAC", "OggTheora", "MP4", "ASF", "WavPack", "Musepack",
               "MonkeysAudio", "OptimFROG", "TAK", "AIFF", "WAVE", "DSF", "DSDIFF", "AC3"}


def has_magic(fmt, data):
    if fmt.kind == "Musepack":
        return data.startswith(b"MP+") or data.startswith(b"MPCK")
    return True


def name_variants(fmt, rng, data=b""):
    out = []
    for e in fmt.exts:
        out.append("song" + e)
        out.append("SONG" + e.upper())
        mixed = "".join(c.upper() if i % 2 else c for i, c in enumerate(e))
        out.append("a b" + mixed)
    if fmt.kind in NAMELESS_OK and has_magic(fmt, data):
        out.append("")
    return out


def histories(fmt, data, rng, ctx):
    """yield (label, bytes) states reached through the format's own type"""
    yield "pristine", data
    if fmt.family == "none":
        return
    sizes = [5, 200, 20000] if not ctx.quick else [5, rng.choice([200, 3000])]
    try:
        obj, fobj = F.load(fmt, data, "x" + fmt.exts[0])
    except Exception:
        return
    from mutagen import MutagenError
    for i, n in enumerate(sizes):
        text = ("t%d" % i) * (n // 2)
        F.put(fmt, obj, i, text)
        try:
            F.save(obj, fobj)
        except MutagenError:
            # damaged samples (truncated Theora files) cannot always be re-paged: no new state to detect
            ctx.hist["history:save-raised-MutagenError"] += 1
            return
        yield "set%d+save" % n, fobj.getvalue()
    try:
        F.delete(obj, fobj)
    except MutagenError:
        ctx.hist["history:delete-raised-MutagenError"] += 1
        return
    yield "delete", fobj.getvalue()
    try:
        obj, fobj2 = F.load(fmt, fobj.getvalue(), "x" + fmt.exts[0])
        F.put(fmt, obj, 1, "again")
        F.save(obj, fobj2)
        yield "retag", fobj2.getvalue()
    except Exception:
        pass
    if fmt.kind == "FLAC":
        # a FLAC file with an ID3v2 tag in front (and an ID3v1 block behind): FLAC loads it, keeps the tags on save and
        # removes them with deleteid3=True - all of them states reached through the FLAC type
        from mutagen.id3 import ID3, TIT2
        for n in ([40] if ctx.quick else [1, 40, 5000]):
            f3 = io.BytesIO(data)
            try:
                t = ID3(); t.add(TIT2(encoding=3, text=["i" * n])); t.save(f3, v1=2)
                yield "id3-prefixed%d" % n, f3.getvalue()
                obj, fobj3 = F.load(fmt, f3.getvalue(), "x.flac")
                F.put(fmt, obj, 2, "with id3 in front")
                F.save(obj, fobj3)
                yield "id3-prefixed%d+save" % n, fobj3.getvalue()
                fobj3.seek(0)
                obj.save(fobj3, deleteid3=True)
                yield "id3-prefixed%d+deleteid3" % n, fobj3.getvalue()
            except MutagenError:
                ctx.hist["history:id3-prefixed-raised-MutagenError"] += 1


def run(ctx):
    import mutagen
    ctx.rule = RULE
    rng = ctx.rng
    opts = {False: options_list(False), True: options_list(True)}
    states = []   # (fmt, sample, label, data, name)
    for fmt in F.FORMATS:
        samples = fmt.samples if not ctx.quick else fmt.samples[:3]
        for s in samples:
            data = F.sample_bytes(ctx.repo, s)
            for label, st in histories(fmt, data, rng, ctx):
                names = name_variants(fmt, rng, data)
                if label.startswith("id3-prefixed"):
                    # the magic bytes are no longer at offset 0: nameless streams are outside the property for this state
                    names = [n for n in names if n]
                if ctx.quick and len(names) > 4:
                    names = rng.sample(names, 4)
                for nm in names:
                    states.append((fmt, s, label, st, nm))
    lines = []
    perms = []
    for fmt, s, label, data, nm in states:
        header = data[:128]; trailer = data[-160:] if len(data) >= 160 else data
        p = list(range(24)); rng.shuffle(p); perms.append(p)
        base = "det header=%s name=%s trailer=%s" % (hx(header), hx(nm.encode()), hx(trailer))
        lines.append(base)
        lines.append(base + " easy=1")
        lines.append(base + " order=" + ",".join(map(str, p)))
    model = ctx.driver.ask(lines) if ctx.model_ok() else None
    seen = set()
    for i, (fmt, s, label, data, nm) in enumerate(states):
        key = (data[:128], data[-160:], nm)
        case = {"kind": fmt.kind, "sample": s, "state": label, "name": nm}
        ctx.case(key=key, nontrivial=key not in seen, sample=case if i % 97 == 5 else None)
        seen.add(key)
        ctx.hist["fmt:" + fmt.kind] += 1
        ctx.hist["state:" + label.split("+")[0].rstrip("0123456789")] += 1
        # real behaviour
        def detect(easy, options=None):
            f = F.NamedBytesIO(data, nm if nm else None)
            r = mutagen.File(f, options=options, easy=easy)
            return type(r).__name__ if r is not None else "None"
        got = {}
        for easy in (False, True):
            kind, r = timed(lambda: detect(easy), 10)
            got[easy] = r if kind == "ok" else "%s:%s" % (kind, type(r).__name__)
        if nm:
            # the name given as filename= next to a file object that has another name of its own (a temporary file, an
            # upload): the explicit name is the one that counts, so the type is the same as above
            def detect_kw():
                f = F.NamedBytesIO(data, "upload-7f3a.tmp")
                r = mutagen.File(f, filename=nm)
                return type(r).__name__ if r is not None else "None"
            kind, rk = timed(detect_kw, 10)
            rk = rk if kind == "ok" else "%s:%s" % (kind, type(rk).__name__)
            ctx.hist["detect:filename-kw-over-object-name"] += 1
            if rk != got[False]:
                ctx.violation("detect-filename-kw:%s->%s" % (fmt.kind, rk.split(":")[0]), "File(fileobj named 'upload-7f3a.tmp', filename=%r) gives %s, "
                              "File(fileobj named %r) gives %s (%s file, %s)" % (nm, rk, nm, got[False], fmt.kind, label), case)
        perm_opts = [opts[False][j] for j in perms[i]]
        kind, rp = timed(lambda: detect(False, perm_opts), 10)
        got["perm"] = rp if kind == "ok" else "%s:%s" % (kind, type(rp).__name__)
        expect = fmt.cls.__name__
        expect_easy = (fmt.easy.rsplit(".", 1)[1] if fmt.easy else expect)
        # the property on the real code
        if got[False] != expect:
            ctx.violation("detect:%s->%s" % (fmt.kind, got[False].split(":")[0]),
                          "File() gives %s for a %s file (%s, name %r)" % (got[False], fmt.kind, label, nm), case)
        if got[True] != expect_easy:
            ctx.violation("detect-easy:%s->%s" % (fmt.kind, got[True].split(":")[0]),
                          "File(easy=True) gives %s for a %s file (%s, name %r)" % (got[True], fmt.kind, label, nm), case)
        if got["perm"] != got[False]:
            ctx.violation("detect-order:%s" % fmt.kind, "File() depends on the order of options: %s vs %s" % (got["perm"], got[False]),
                          dict(case, order=perms[i]))
        if model is None:
            continue
        # correspondence: scores, pick, feature state
        f = F.NamedBytesIO(data, nm if nm else None)
        header = data[:128]
        real_scores = []
        for K in opts[False]:
            f.seek(0)
            try:
                real_scores.append(int(K.score(nm, f, header)))
            except Exception as e:
                real_scores.append("exc:" + type(e).__name__)
        st, fld = parse_fields(model[3 * i])
        ctx.traces_validated += 3
        if fld.get("scores") != ",".join(map(str, real_scores)):
            ctx.disagree("score", case, model=fld.get("scores"), impl=real_scores)
        if fld.get("pick") != got[False]:
            ctx.disagree("pick", case, model=fld.get("pick"), impl=got[False])
        st2, fld2 = parse_fields(model[3 * i + 1])
        if fld2.get("pick") != got[True]:
            ctx.disagree("pick(easy)", case, model=fld2.get("pick"), impl=got[True])
        st3, fld3 = parse_fields(model[3 * i + 2])
        if fld3.get("pick") != got["perm"]:
            ctx.disagree("pick(permuted)", case, model=fld3.get("pick"), impl=got["perm"])
        inreach = fld.get("inreach", "-").split(",")
        if fmt.kind not in inreach:
            ctx.hist["outside-feature-model"] += 1
            ctx.disagree("feature-model", case, model="observed valuation is in reach of %s" % inreach,
                         impl="file is a %s in state %s" % (fmt.kind, label))


def search(ctx):
    old = ctx.tier; ctx.tier = "thorough"
    try:
        run(ctx)
    finally:
        ctx.tier = old
