"""C01 — Saved tags read back exactly, in every tag format."""
import io, json, struct, hashlib, random, collections
from vcheck import hx, unhx, parse_fields
from guards import timed
import formats, walkers, id3spec, refdec

RULE = ("for every taggable format x sample file x layout {as shipped, tag deleted, big tag, padded, ID3v1 only, Opus comment with "
        "preserved trailing data} x generated tag set x save options (padding function incl. negative results, ID3 v2.3/v2.4, v1 mode, "
        "v2.3 separator, Vorbis vendor string) x interface {native, list, Easy}: the existing tags are "
        "cleared, the tag set is stored through the tag interface, save() runs on an in-memory file; (1) the saved bytes are loaded again "
        "with mutagen and must equal the tag set (keys, value order, text, binary, typed values) up to the canonical forms the property "
        "names (empty ID3 text frames - T***, TXXX and COMM, all TextFrame in mutagen - are absent; an empty APEv2 tag is no tag; APEv2 "
        "text lists are one NUL-joined value; ASF values of a key are regrouped by the object holding them, which the independent "
        "decoder reports, keeping the set order inside each object, language/stream None = 0; v2.3 saves join multi-values with the "
        "separator; RVA2 gain/peak in their fixed-point units; ID3 timestamps 'T' = ' '); (2) the tag region is located by an independent container walker and decoded by harness/refdec.py / harness/id3spec.py "
        "(written from the specifications, no mutagen import) and must give the same tag set; (3) the Vorbis / APEv2 / UTF-8 bytes are "
        "compared with the Lean model (tagc vcenc/vcdec/apeenc/apedec/utf8enc/utf8dec), MP4 item atoms / integers / pairs and ASF attribute "
        "records / typed values with tagc2 (mp4enc/mp4dec/mp4ffenc/mp4ffdec/mp4int/mp4pair/asfecd/asfml/asftext/asfuint/asfbool) when "
        "that command is built in; a save() that raises is outside the property and only counted. Non-trivial: the tag set is not empty; distinct by (format, sample, layout, interface, tag set, options)")

# ------------------------------------------------------------------------------------------ value material
TEXT_CLASSES = {
    "ascii": ["hello", "A", "The quick brown fox", "x" * 300, "0", "  leading and trailing  ", "UPPER lower"],
    "latin1": ["caf\xe9", "\xff\xfe\xfd", "na\xefve \xa9 \xae", "\x80\x9f\xa0", "\x7f"],
    "bmp": ["日本語のタイトル", "Привет", "߿ࠀ", "퟿",
            "￿￾�", "☃€", "﻿bom-first", "mid﻿bom"],
    "astral": ["\U0001f600", "\U00010000\U0010ffff", "a\U0001f3b5b\U0001f3b6", "\U00020000\U0002a6d6", "\U000e0041"],
    "combining": ["é", "ạ̈", "각", "क्ष", "‍‌"],
    "rtl": ["שלום", "مرحبا", "abc‮def‬", "‏‎"],
    "sep": ["a=b", "=", "a/b", "a;b", "a:b", "line1\nline2", "tab\there", "a\\b", "k=v=w", "//", "a, b"],
    "nul": ["a\x00b", "\x00", "\x00lead", "trail\x00", "a\x00\x00b"],
    "empty": [""],
}


_hist = collections.Counter()      # input distribution of the generators, merged into ctx.hist


def size_bucket(n):
    for lim, name in ((0, "0"), (16, "1-16"), (255, "17-255"), (4096, "256-4Ki"), (65024, "4Ki-65024"), (65535, "65025-65535"),
                      (70000, "64Ki-70000"), (1 << 20, "70001-1Mi")):
        if n <= lim:
            return name
    return ">1Mi"


def gen_text(rng, allow_nul=False, classes=None):
    """-> (text, class)"""
    t, c = gen_text0(rng, allow_nul, classes)
    _hist["text-class:" + c] += 1
    return t, c


def gen_text0(rng, allow_nul=False, classes=None):
    names = classes or ["ascii", "latin1", "bmp", "astral", "combining", "rtl", "sep", "empty", "mixed"] + (["nul"] if allow_nul else [])
    c = rng.choice(names)
    if c == "mixed":
        parts = [rng.choice(TEXT_CLASSES[k]) for k in rng.sample(["ascii", "latin1", "bmp", "astral", "combining", "rtl", "sep"], 3)]
        return " ".join(parts), c
    if c == "astral" and rng.random() < 0.3:
        return "".join(chr(rng.choice([rng.randrange(0x10000, 0x110000), rng.randrange(0x1F300, 0x1F700)])) for _ in range(rng.randrange(1, 8))), c
    if c == "bmp" and rng.random() < 0.3:
        return "".join(chr(rng.choice([rng.randrange(0x100, 0xD800), rng.randrange(0xE000, 0x10000)])) for _ in range(rng.randrange(1, 12))), c
    return rng.choice(TEXT_CLASSES[c]), c


def blob_sizes(ctx):
    small = [0, 1, 2, 3, 16, 255, 256, 1000]
    edge = [65024, 65025, 65026, 65306, 65307, 65308, 65534, 65535, 65536, 65537, 70000]
    big = [1 << 17, 300 * 1024, 500 * 1024 + 7]
    return small, edge, big


def gen_blob(rng, ctx, p_edge=0.12, p_big=0.25):
    """JSON-able blob descriptor"""
    small, edge, big = blob_sizes(ctx)
    r = rng.random()
    if r < p_edge:
        n = rng.choice(edge)
        if not ctx.quick and rng.random() < p_big:
            n = rng.choice(big)
    else:
        n = rng.choice(small + [rng.randrange(0, 5000)])
    _hist["blob-bytes:" + size_bucket(n)] += 1
    k = rng.random()
    if n <= 64 and k < 0.5:
        return ["hex", bytes(rng.randrange(256) for _ in range(n)).hex()]
    if k < 0.7:
        return ["rnd", rng.randrange(1 << 30), n]
    return ["rep", rng.choice(["ff", "00", "fffe", "ff00", "ffe0", "4150455441474558", "4f676753", "3d", "494433", "00000000"]), n]


def mk(x):
    """materialise a descriptor: ['hex', s] / ['rnd', seed, n] / ['rep', hexpattern, n] -> bytes; ['bigtext', cls, seed, n] -> str"""
    if isinstance(x, list) and x and isinstance(x[0], str):
        if x[0] == "hex":
            return bytes.fromhex(x[1])
        if x[0] == "rnd":
            return random.Random(x[1]).randbytes(x[2])
        if x[0] == "rep":
            p = bytes.fromhex(x[1])
            return (p * (x[2] // len(p) + 1))[:x[2]]
        if x[0] == "bigtext":
            alpha = {"ascii": "abcdefghij =/;", "bmp": "日本語éЖ ", "astral": "\U0001f600\U00010000aé"}[x[1]]
            r = random.Random(x[2])
            return "".join(r.choice(alpha) for _ in range(x[3]))
        if x[0] == "reptext":
            return (x[1] * (x[2] // len(x[1]) + 1))[:x[2]]
    return x


def gen_bigtext(rng, ctx):
    small, edge, big = blob_sizes(ctx)
    n = rng.choice(edge if ctx.quick or rng.random() < 0.6 else big)
    cls = rng.choice(["ascii", "ascii", "bmp", "astral"])
    if cls != "ascii":
        n = n // 3
    _hist["bigtext-chars:" + size_bucket(n)] += 1
    return ["bigtext", cls, rng.randrange(1 << 30), n]


def describe(x):
    """short printable form of a materialised value"""
    if isinstance(x, (bytes, bytearray)):
        return "bytes[%d]%s" % (len(x), bytes(x[:8]).hex())
    if isinstance(x, str) and len(x) > 40:
        return "str[%d]%r" % (len(x), x[:20])
    return repr(x)


def digest(obj):
    return hashlib.sha1(json.dumps(obj, sort_keys=True, default=repr).encode()).hexdigest()[:12]


# ------------------------------------------------------------------------------------------ tag set generators
VKEY_POOL = ["title", "artist", "album", "comment", "x-verif", "a", "key with space", "{}[]|", "1", "metadata_block_picture", "date",
             "replaygain_track_gain", "!\"#$%&'()*+,-./", "@^_`"]


def gen_vorbis(rng, ctx, big):
    n = rng.choice([0, 1, 1, 2, 3, 5, 8])
    keys = []
    for _ in range(n):
        k = rng.choice(VKEY_POOL) if rng.random() < 0.8 else "".join(
            chr(rng.choice([c for c in range(0x20, 0x7E) if c != 0x3D and not 0x41 <= c <= 0x5A])) for _ in range(rng.randrange(1, 20)))
        if k not in keys:
            keys.append(k)
    out = []
    for i, k in enumerate(keys):
        vals = [gen_text(rng, allow_nul=True)[0] for _ in range(rng.choice([1, 1, 1, 2, 3]))]
        if big and i == 0:
            vals[rng.randrange(len(vals))] = gen_bigtext(rng, ctx)
        out.append([k, vals])
    return out


AKEY_POOL = ["Title", "Artist", "Album", "Comment", "X-Verif", "Cover Art (Front)", "ab", "Year", "Track", "MixedCase Key", "~~", "  ",
             "REPLAYGAIN_TRACK_GAIN", "id3x", "Tag2", "k" * 255]


def gen_ape(rng, ctx, big):
    n = rng.choice([0, 1, 1, 2, 3, 5, 8])
    out = []
    seen = set()
    for i in range(n):
        k = rng.choice(AKEY_POOL) if rng.random() < 0.8 else "".join(chr(rng.randrange(0x20, 0x7F)) for _ in range(rng.randrange(2, 40)))
        if k.lower() in seen or k.upper() in ("ID3", "TAG", "OGGS", "MP+"):
            continue
        seen.add(k.lower())
        r = rng.random()
        if r < 0.55:
            vals = [gen_text(rng, allow_nul=True)[0] for _ in range(rng.choice([1, 1, 2, 3]))]
            if big and not out and rng.random() < 0.5:
                vals[0] = gen_bigtext(rng, ctx)
            out.append([k, "text", vals, rng.choice(["list", "list", "str", "value"])])
        elif r < 0.85:
            out.append([k, "bin", gen_blob(rng, ctx, p_edge=0.9 if (big and not out) else 0.05), rng.choice(["bytes", "value"])])
        else:
            out.append([k, "ext", gen_text(rng, classes=["ascii", "bmp", "astral", "sep"])[0], "value"])
    return out


MP4_TEXT = ["\xa9nam", "\xa9alb", "\xa9ART", "aART", "\xa9wrt", "\xa9day", "\xa9cmt", "desc", "purd", "\xa9grp", "\xa9gen", "\xa9lyr", "catg",
            "keyw", "\xa9too", "cprt", "soal", "soaa", "soar", "sonm", "soco", "sosn", "tvsh", "purl", "egid", "\xa9wrk", "\xa9mvn", "test",
            "\xa9xyz"]
MP4_INTS = {"plID": 8, "cnID": 4, "geID": 4, "atID": 4, "sfID": 4, "cmID": 4, "akID": 1, "tvsn": 4, "tves": 4, "tmpo": 2, "\xa9mvi": 2,
            "\xa9mvc": 2, "shwm": 1, "stik": 1, "hdvd": 1, "rtng": 1}
MP4_BOOLS = ["cpil", "pgap", "pcst"]
INT_EXTREMES = [0, 1, -1, 127, 128, -128, -129, 255, 256, 1 << 15, (1 << 15) - 1, -(1 << 15), (1 << 16) - 1, 1 << 16, (1 << 31) - 1,
                -(1 << 31), 1 << 31, (1 << 32) - 1, 1 << 32, (1 << 63) - 1, -(1 << 63)]


def gen_mp4(rng, ctx, big):
    n = rng.choice([0, 1, 2, 3, 5, 8])
    out = []
    seen = set()
    for i in range(n):
        r = rng.random()
        if r < 0.4:
            k = rng.choice(MP4_TEXT)
            vals = [gen_text(rng, allow_nul=True)[0] for _ in range(rng.choice([0, 1, 1, 1, 2, 3]))]
            if big and not out and vals:
                vals[0] = gen_bigtext(rng, ctx)
            e = [k, "text", vals]
        elif r < 0.55:
            k = rng.choice(sorted(MP4_INTS))
            e = [k, "int", [rng.choice(INT_EXTREMES + [rng.randrange(-1000, 100000)]) for _ in range(rng.choice([1, 1, 2]))]]
        elif r < 0.65:
            k = rng.choice(["trkn", "disk"])
            e = [k, "pair", [[rng.choice([0, 1, 7, 65535, rng.randrange(65536)]), rng.choice([0, 1, 9, 65535, rng.randrange(65536)])]
                             for _ in range(rng.choice([1, 1, 2]))]]
        elif r < 0.72:
            k = rng.choice(MP4_BOOLS)
            e = [k, "bool", rng.random() < 0.5]
        elif r < 0.84:
            k = "covr"
            e = [k, "cover", [[rng.choice([13, 14]), gen_blob(rng, ctx, p_edge=0.9 if (big and not out and j == 0) else 0.05)]
                              for j in range(rng.choice([0, 1, 1, 2]))]]
        else:
            mean = rng.choice(["com.apple.iTunes", "com.verif", "org.example.\xe9", "m"])
            name = rng.choice(["x", "MusicBrainz Track Id", "a:b", "n\xe4me", "iTunNORM", " "])
            k = "----:%s:%s" % (mean, name)
            vals = []
            for j in range(rng.choice([0, 1, 1, 2, 3])):
                if rng.random() < 0.5:
                    vals.append(["plain", gen_blob(rng, ctx, p_edge=0.5 if (big and not out and j == 0) else 0.03)])
                else:
                    vals.append(["ff", gen_blob(rng, ctx, p_edge=0.02), rng.choice([0, 1, 2, 13, 14, 21, 0xFFFFFF, rng.randrange(1 << 24)]),
                                 rng.choice([0, 0, 1, 255])])
            e = [k, "free", vals]
        if k in seen:
            continue
        seen.add(k)
        out.append(e)
    return out


ASF_NAMES = ["Title", "Author", "Copyright", "Description", "Rating", "WM/AlbumTitle", "WM/Genre", "WM/Year", "WM/TrackNumber", "WM/Picture",
             "X-Verif", "日本語", "\U0001f600 key", "", "a b", "WM/MediaClassSecondaryID", "IsVBR", "title"]
ASF_UNI, ASF_BYTES, ASF_BOOL, ASF_DWORD, ASF_QWORD, ASF_WORD, ASF_GUID = range(7)
ASF_TYPENAMES = ["unicode", "bytes", "bool", "dword", "qword", "word", "guid"]


def gen_asf_value(rng, ctx, big):
    t = rng.choice([0, 0, 0, 0, 1, 1, 2, 3, 4, 5, 6])
    if t == 0:
        v = gen_text(rng, allow_nul=False)[0]
        if big:
            v = ["bigtext", rng.choice(["ascii", "bmp", "astral"]), rng.randrange(1 << 30), rng.choice([32766, 32767, 32768, 35000])]
    elif t == 1:
        v = gen_blob(rng, ctx, p_edge=0.9 if big else 0.1)
    elif t == 2:
        v = rng.random() < 0.5
    elif t == 3:
        v = rng.choice([0, 1, (1 << 32) - 1, 1 << 31, rng.randrange(1 << 32)])
    elif t == 4:
        v = rng.choice([0, 1, (1 << 64) - 1, 1 << 63, 1 << 32, rng.randrange(1 << 64)])
    elif t == 5:
        v = rng.choice([0, 1, 65535, 32768, rng.randrange(1 << 16)])
    else:
        v = ["hex", bytes(rng.randrange(256) for _ in range(16)).hex()]
    lang = rng.choice([None, None, None, None, 0, 1, 5])
    stream = rng.choice([None, None, None, None, 0, 1, 2, 127])
    how = "value"
    if lang is None and stream is None and t in (0, 1, 2, 3) and rng.random() < 0.4:
        how = "python"      # plain str / bytes / bool / int through ASFTags.__setitem__
    return [t, v, lang, stream, how]


def gen_asf(rng, ctx, big):
    n = rng.choice([0, 1, 2, 3, 5, 8])
    out = []
    seen = set()
    for i in range(n):
        k = rng.choice(ASF_NAMES) if rng.random() < 0.85 else gen_text(rng, classes=["ascii", "bmp", "astral", "rtl", "combining"])[0]
        if k in seen:
            continue
        seen.add(k)
        out.append([k, [gen_asf_value(rng, ctx, big and not out and j == 0) for j in range(rng.choice([1, 1, 1, 2, 3, 4]))]])
    return out


ID3_TEXT_FRAMES = ["TIT2", "TPE1", "TALB", "TCOM", "TPUB", "TIT1", "TIT3", "TENC", "TPE2", "TEXT", "TCOP", "TOAL", "TSSE", "TMED"]
ID3_V24_ONLY_TEXT = ["TSOP", "TSOA", "TSOT", "TMOO", "TSST"]
ID3_NUMERIC = ["TBPM", "TLEN"]
ID3_PART = ["TRCK", "TPOS"]
STAMPS = ["2020", "2020-05", "2020-05-06", "2020-05-06 12", "2020-05-06 12:34", "2020-05-06 12:34:56", "0999", "1999-12-31 23:59:59"]
LANGS = ["eng", "deu", "XXX", "jpn", "   "]


def gen_enc_text(rng, v23, n=None, allow_empty=True):
    """-> (encoding, [values]) with the values representable in the encoding"""
    enc = rng.choice([0, 1, 1, 2, 3, 3, 3])
    classes = ["ascii", "latin1", "sep"] if enc == 0 else None
    k = n if n is not None else rng.choice([1, 1, 1, 2, 3])
    vals = []
    for _ in range(k):
        t, c = gen_text(rng, allow_nul=False, classes=classes)
        if t == "" and (not allow_empty or (k > 1 and rng.random() < 0.6)):
            t = "v"
        vals.append(t)
    return enc, vals


def gen_id3(rng, ctx, big, v2_version):
    n = rng.choice([0, 1, 2, 3, 5, 8])
    out = []
    seen = set()
    v23 = v2_version == 3
    for i in range(n):
        r = rng.random()
        if r < 0.35:
            fid = rng.choice(ID3_TEXT_FRAMES + ([] if v23 else ID3_V24_ONLY_TEXT))
            enc, vals = gen_enc_text(rng, v23)
            if big and not out:
                vals[0] = gen_bigtext(rng, ctx); enc = rng.choice([1, 3])
            e = {"id": fid, "enc": enc, "text": vals}; hk = fid
        elif r < 0.42:
            fid = rng.choice(ID3_NUMERIC + ID3_PART)
            v = str(rng.randrange(0, 100000)) if fid in ID3_NUMERIC else rng.choice(["7", "7/9", "0/0", "65535/65535", "12/0"])
            e = {"id": fid, "enc": rng.choice([0, 3]), "text": [v]}; hk = fid
        elif r < 0.47 and not v23:
            e = {"id": rng.choice(["TDRC", "TDOR", "TDRL"]), "enc": rng.choice([0, 3]), "text": [rng.choice(STAMPS) for _ in range(rng.choice([1, 1, 2]))]}
            hk = e["id"]
        elif r < 0.57:
            enc, vals = gen_enc_text(rng, v23)
            desc = gen_text(rng, classes=["ascii", "latin1", "sep"] if enc == 0 else ["ascii", "bmp", "astral", "sep", "empty"])[0]
            e = {"id": "TXXX", "enc": enc, "desc": desc, "text": vals}; hk = "TXXX:" + desc
        elif r < 0.67:
            enc, vals = gen_enc_text(rng, v23)
            desc = gen_text(rng, classes=["ascii", "latin1", "empty"] if enc == 0 else ["ascii", "bmp", "astral", "empty"])[0]
            lang = rng.choice(LANGS)
            e = {"id": "COMM", "enc": enc, "lang": lang, "desc": desc, "text": vals}; hk = "COMM:%s:%s" % (desc, lang)
        elif r < 0.72:
            enc, vals = gen_enc_text(rng, v23, n=1)
            lang = rng.choice(LANGS)
            e = {"id": "USLT", "enc": enc, "lang": lang, "desc": "", "text": vals[0]}; hk = "USLT::" + lang
        elif r < 0.84:
            enc = rng.choice([0, 1, 3])
            desc = gen_text(rng, classes=["ascii", "latin1", "empty"] if enc == 0 else ["ascii", "bmp", "astral", "empty"])[0]
            e = {"id": "APIC", "enc": enc, "mime": rng.choice(["image/jpeg", "image/png", "-->", ""]), "type": rng.choice([0, 3, 4, 20]),
                 "desc": desc, "data": gen_blob(rng, ctx, p_edge=0.9 if (big and not out) else 0.05)}
            hk = "APIC:" + desc
        elif r < 0.90:
            owner = rng.choice(["own", "http://example.org/\xe9", "", "WM/Provider"])
            e = {"id": "PRIV", "owner": owner, "data": gen_blob(rng, ctx, p_edge=0.05)}
            hk = "PRIV:%s:%s" % (owner, digest(e["data"]))
        elif r < 0.93:
            owner = rng.choice(["http://musicbrainz.org", "own", "x"])
            e = {"id": "UFID", "owner": owner, "data": ["hex", bytes(rng.randrange(256) for _ in range(rng.choice([0, 1, 36, 64]))).hex()]}
            hk = "UFID:" + owner
        elif r < 0.96:
            email = rng.choice(["a@b.c", "", "Windows Media Player 9 Series"])
            e = {"id": "POPM", "email": email, "rating": rng.choice([0, 1, 128, 255]),
                 "count": rng.choice([0, 1, 255, 256, (1 << 32) - 1, 1 << 32, (1 << 63)])}
            hk = "POPM:" + email
        elif r < 0.98:
            url = rng.choice(["http://example.org/", "http://example.org/\xe9?a=b", "x"])
            e = {"id": "WOAR", "url": url}; hk = "WOAR:" + url
        else:
            e = {"id": "PCNT", "count": rng.choice([0, 1, (1 << 32) - 1, 1 << 32, 1 << 40])}; hk = "PCNT"
        if hk in seen:
            continue
        seen.add(hk)
        out.append(e)
    return out


# ------------------------------------------------------------------------------------------ family: vorbis
class Vorbis(object):
    name = "vorbis"

    @staticmethod
    def gen(rng, ctx, big, opts):
        return gen_vorbis(rng, ctx, big)

    @staticmethod
    def clear(obj):
        obj.tags.clear()

    @staticmethod
    def apply(obj, ts, iface):
        for k, vals in ts:
            vals = [mk(v) for v in vals]
            if iface == "list":
                for v in vals:
                    obj.tags.append((k, v))
            else:
                obj.tags[k] = vals

    @staticmethod
    def expected(ts, opts):
        return [(k, mk(v)) for k, vals in ts for v in vals]

    @staticmethod
    def reloaded(obj):
        return [(k.lower(), v) for k, v in list(obj.tags)] if obj.tags is not None else []

    @staticmethod
    def compare(exp, got):
        if exp == got:
            return []
        ek = sorted(set(k for k, _ in exp)); gk = sorted(set(k for k, _ in got))
        if ek != gk:
            miss = [k for k in ek if k not in gk]
            return [("keys", "missing" if miss else "extra", "keys %r vs %r" % (ek[:6], gk[:6]))]
        if sorted(exp) == sorted(got):
            return [("text", "order-differs", "same pairs in another order")]
        for k in ek:
            a = [v for kk, v in exp if kk == k]; b = [v for kk, v in got if kk == k]
            if a != b:
                return [("text", "value-differs", "%r: %s vs %s" % (k, [describe(x) for x in a][:4], [describe(x) for x in b][:4]))]
        return [("text", "value-differs", "?")]


# ------------------------------------------------------------------------------------------ family: ape
class Ape(object):
    name = "ape"
    KINDS = {"text": 0, "bin": 1, "ext": 2}
    KNAME = {0: "text", 1: "binary", 2: "external"}

    @staticmethod
    def gen(rng, ctx, big, opts):
        return gen_ape(rng, ctx, big)

    @staticmethod
    def clear(obj):
        obj.tags.clear()

    @staticmethod
    def apply(obj, ts, iface):
        from mutagen.apev2 import APEValue
        for k, kind, v, how in ts:
            if kind == "text":
                vals = [mk(x) for x in v]
                if how == "str" and len(vals) == 1:
                    obj.tags[k] = vals[0]
                elif how == "value":
                    obj.tags[k] = APEValue("\0".join(vals), 0)
                else:
                    obj.tags[k] = vals
            elif kind == "bin":
                b = mk(v)
                obj.tags[k] = b if how == "bytes" else APEValue(b, 1)
            else:
                obj.tags[k] = APEValue(v, 2)

    @staticmethod
    def expected(ts, opts):
        out = {}
        for k, kind, v, how in ts:
            if kind == "text":
                out[k] = (0, "\0".join(mk(x) for x in v).encode("utf-8"))
            elif kind == "bin":
                out[k] = (1, mk(v))
            else:
                out[k] = (2, v.encode("utf-8"))
        return out

    @staticmethod
    def reloaded(obj):
        out = {}
        if obj.tags is None:
            return out
        for k in obj.tags.keys():
            v = obj.tags[k]
            val = v.value
            if v.kind in (0, 2):
                if not isinstance(val, str):
                    val = b"<not str: %r>" % (type(val).__name__,)
                else:
                    if v.kind == 0 and list(v) != val.split("\0"):
                        val = val + "<list view differs>"
                    val = val.encode("utf-8", "surrogatepass")
            out[k] = (v.kind, bytes(val))
        return out

    @staticmethod
    def compare(exp, got):
        return cmp_dict(exp, got, lambda k, v: Ape.KNAME.get(v[0], "kind%r" % (v[0],)), ci=True)


def cmp_dict(exp, got, kindname, ci=False):
    out = []
    if ci:
        le = {k.lower(): k for k in exp}; lg = {k.lower(): k for k in got}
        for k in exp:
            if k not in got and k.lower() in lg:
                out.append(("keys", "case-changed", "%r came back as %r" % (k, lg[k.lower()])))
                got = dict(got); got[k] = got.pop(lg[k.lower()])
    for k in exp:
        if k not in got:
            out.append((kindname(k, exp[k]), "missing", "key %r missing" % (k,)))
        elif exp[k] != got[k]:
            a, b = exp[k], got[k]
            sym = "value-differs"
            if isinstance(a, tuple) and isinstance(b, tuple) and a[:1] != b[:1]:
                sym = "type-differs"
            elif isinstance(a, tuple) and isinstance(b, tuple) and isinstance(a[-1], list) and isinstance(b[-1], list) \
                    and a[-1] != b[-1] and sorted(map(repr, a[-1])) == sorted(map(repr, b[-1])):
                sym = "order-differs"
            out.append((kindname(k, a), sym, "key %r: %s vs %s" % (k, brief(a), brief(b))))
    for k in got:
        if k not in exp:
            out.append((kindname(k, got[k]), "extra", "key %r not set but present: %s" % (k, brief(got[k]))))
    return out


def brief(v):
    if isinstance(v, (tuple, list)):
        s = "(" + ", ".join(brief(x) for x in list(v)[:5]) + (", ..." if len(v) > 5 else "") + ")"
        return s
    return describe(v)


# ------------------------------------------------------------------------------------------ family: mp4
class Mp4(object):
    name = "mp4"

    @staticmethod
    def gen(rng, ctx, big, opts):
        return gen_mp4(rng, ctx, big)

    @staticmethod
    def clear(obj):
        obj.tags.clear()

    @staticmethod
    def apply(obj, ts, iface):
        from mutagen.mp4 import MP4Cover, MP4FreeForm
        for k, kind, v in ts:
            if kind == "text":
                obj.tags[k] = [mk(x) for x in v]
            elif kind == "int":
                obj.tags[k] = list(v)
            elif kind == "pair":
                obj.tags[k] = [tuple(p) for p in v]
            elif kind == "bool":
                obj.tags[k] = v
            elif kind == "cover":
                obj.tags[k] = [MP4Cover(mk(b), imageformat=f) for f, b in v]
            else:
                vals = []
                for x in v:
                    if x[0] == "plain":
                        vals.append(mk(x[1]))
                    else:
                        vals.append(MP4FreeForm(mk(x[1]), dataformat=x[2], version=x[3]))
                obj.tags[k] = vals

    @staticmethod
    def expected(ts, opts):
        out = {}
        for k, kind, v in ts:
            if kind == "text":
                out[k] = ("text", [mk(x) for x in v])
            elif kind == "int":
                out[k] = ("int", list(v))
            elif kind == "pair":
                out[k] = ("pair", [tuple(p) for p in v])
            elif kind == "bool":
                out[k] = ("bool", bool(v))
            elif kind == "cover":
                out[k] = ("cover", [(f, mk(b)) for f, b in v])
            else:
                out[k] = ("free", [(1, 0, mk(x[1])) if x[0] == "plain" else (x[2], x[3], mk(x[1])) for x in v])
        return out

    @staticmethod
    def reloaded(obj):
        from mutagen.mp4 import MP4Cover, MP4FreeForm
        out = {}
        if obj.tags is None:
            return out
        for k in obj.tags.keys():
            v = obj.tags[k]
            if isinstance(v, bool):
                out[k] = ("bool", v)
            elif isinstance(v, list):
                if k.startswith("----"):
                    out[k] = ("free", [(int(getattr(x, "dataformat", -1)), getattr(x, "version", -1), bytes(x)) for x in v])
                elif k == "covr":
                    out[k] = ("cover", [(int(getattr(x, "imageformat", -1)), bytes(x)) for x in v])
                elif v and all(isinstance(x, tuple) for x in v):
                    out[k] = ("pair", [tuple(x) for x in v])
                elif v and all(isinstance(x, int) for x in v):
                    out[k] = ("int", list(v))
                elif all(isinstance(x, str) for x in v):
                    out[k] = ("text", list(v))
                else:
                    out[k] = ("other", [repr(x)[:60] for x in v])
            else:
                out[k] = ("other", repr(v)[:60])
        return out

    @staticmethod
    def compare(exp, got):
        # an empty list of values carries no type: ("text", []) == ("cover", []) == ("free", [])
        def norm(d):
            return {k: (("empty", []) if (isinstance(v[1], list) and not v[1]) else v) for k, v in d.items()}
        e = norm(exp); g = norm(got)
        kinds = {k: v[0] for k, v in got.items()}
        kinds.update({k: v[0] for k, v in exp.items()})
        return cmp_dict(e, g, lambda k, v: kinds[k])


# ------------------------------------------------------------------------------------------ family: asf
class Asf(object):
    name = "asf"

    @staticmethod
    def gen(rng, ctx, big, opts):
        return gen_asf(rng, ctx, big)

    @staticmethod
    def clear(obj):
        del obj.tags[:]

    @staticmethod
    def apply(obj, ts, iface):
        from mutagen.asf import ASFValue
        for name, vals in ts:
            lst = []
            for t, v, lang, stream, how in vals:
                v = mk(v)
                if how == "python":
                    lst.append(v)
                else:
                    kw = {}
                    if lang is not None:
                        kw["language"] = lang
                    if stream is not None:
                        kw["stream"] = stream
                    lst.append(ASFValue(v, t, **kw))
            obj.tags[name] = lst

    @staticmethod
    def expected(ts, opts):
        """name -> [(type, value, language or 0, stream or 0)] in the order set"""
        return {name: [(t, mk(v), lang or 0, stream or 0) for t, v, lang, stream, how in vals] for name, vals in ts}

    @staticmethod
    def reloaded(obj):
        out = {}
        for name, a in list(obj.tags):
            v = a.value
            if isinstance(v, (bytes, bytearray)):
                v = bytes(v)
            out.setdefault(name, []).append((a.TYPE, v, a.language or 0, a.stream or 0))
        return out

    @staticmethod
    def size(t, v):
        if t == 0:
            return len(v.encode("utf-16-le")) + 2
        if t in (1, 6):
            return len(v)
        return {2: 4, 3: 4, 4: 8, 5: 2}[t]


def asf_compare(exp, got, placed=None):
    """exp/got: name -> [(type, value, lang, stream)].  The values of a key must be the same multiset; their order is the order
    set, regrouped by the header object holding each value (placed: name -> list of object ranks in `got` order, from the
    independent decode; without it only the multiset is compared)"""
    out = []
    for name in exp:
        e = exp[name]
        if name not in got:
            if e:
                out.append((ASF_TYPENAMES[e[0][0]], "missing", "key %r missing" % (name,)))
            continue
        g = got[name]
        if e == g:
            continue
        if sorted(map(repr, e)) != sorted(map(repr, g)):
            # find the first differing value for the key
            vk = ASF_TYPENAMES[e[0][0]]; sym = "value-differs"
            ge = list(g)
            for x in e:
                if x in ge:
                    ge.remove(x)
                else:
                    vk = ASF_TYPENAMES[x[0]]
                    same_val = [y for y in ge if y[:2] == x[:2]]
                    same_type = [y for y in ge if y[0] == x[0]]
                    sym = "language-or-stream-differs" if same_val else ("value-differs" if same_type else ("missing" if len(g) < len(e) else "type-differs"))
                    break
            else:
                sym = "extra"
            out.append((vk, sym, "key %r: set %s, got %s" % (name, brief(e), brief(g))))
            continue
        # same multiset, different order: only a regrouping by holding object is canonical
        if placed is not None and name in placed:
            ranks = placed[name]
            ok = ranks == sorted(ranks)
            if ok:
                # within one object the set order must be kept.  Values that read back equal (language / stream None
                # and 0 are the same once stored) may have been placed in different objects: some matching of the
                # values read to the values set must be order-preserving inside every object
                def match(pos, used, last):
                    if pos == len(g):
                        return True
                    r = ranks[pos]
                    for j, x in enumerate(e):
                        if j not in used and x == g[pos] and j > last.get(r, -1):
                            l2 = dict(last); l2[r] = j
                            if match(pos + 1, used | {j}, l2):
                                return True
                    return False
                ok = match(0, frozenset(), {})
            if ok:
                continue
        elif placed is None:
            continue
        out.append(("order", "order-differs", "key %r: set %s, got %s" % (name, brief(e), brief(g))))
    for name in got:
        if name not in exp:
            out.append((ASF_TYPENAMES[got[name][0][0]], "extra", "key %r not set but present" % (name,)))
    return out


# ------------------------------------------------------------------------------------------ family: id3
MULTI_TEXT = ("TXXX", "COMM")


def id3_ident(t):
    """the part of a neutral frame that identifies it (frame id + description / language / owner)"""
    fid = t[0]
    if fid == "TXXX":
        return t[:2]
    if fid in ("COMM", "USLT"):
        return t[:3]
    if fid == "APIC":
        return (fid, t[3])
    if fid in ("UFID", "POPM", "WOAR", "RVA2"):
        return t[:2]
    if fid == "PRIV":
        return t
    return (fid,)


def id3_neutral_spec(e, opts):
    """expected neutral frame for a frame spec, None when the canonical form drops it"""
    fid = e["id"]
    v23 = opts.get("v2_version", 4) == 3
    sep = opts.get("v23_sep", "/")

    def texts(vals):
        vals = [mk(v) for v in vals]
        if "\0".join(vals) == "":
            return None           # empty ID3 text frames are not written
        if v23 and sep is not None:
            return (sep.join(vals),)
        return tuple(vals)
    if fid == "TXXX":
        t = texts(e["text"])
        return None if t is None else ("TXXX", e["desc"], t)
    if fid == "COMM":
        t = texts(e["text"])
        return None if t is None else ("COMM", e["lang"], e["desc"], t)
    if fid == "USLT":
        return ("USLT", e["lang"], e["desc"], mk(e["text"]))
    if fid == "APIC":
        return ("APIC", e["mime"], e["type"], e["desc"], mk(e["data"]))
    if fid in ("PRIV", "UFID"):
        return (fid, e["owner"], mk(e["data"]))
    if fid == "POPM":
        return ("POPM", e["email"], e["rating"], e["count"])
    if fid == "PCNT":
        return ("PCNT", e["count"])
    if fid == "WOAR":
        return ("WOAR", e["url"])
    if fid == "RVA2":
        return ("RVA2", e["desc"], e["channel"], round(e["gain"] * 512), round(e["peak"] * 32768))
    if fid == "TMCL":
        return ("TMCL", tuple(tuple(p) for p in e["people"]))
    t = texts(e["text"])
    return None if t is None else (fid, t)


def id3_neutral_frame(fr):
    """neutral form of a frame object loaded by mutagen"""
    fid = type(fr).__name__
    if fid == "TXXX":
        return ("TXXX", fr.desc, tuple(str(x) for x in fr.text))
    if fid == "COMM":
        return ("COMM", fr.lang, fr.desc, tuple(str(x) for x in fr.text))
    if fid == "USLT":
        return ("USLT", fr.lang, fr.desc, fr.text)
    if fid == "APIC":
        return ("APIC", fr.mime, int(fr.type), fr.desc, bytes(fr.data))
    if fid in ("PRIV", "UFID"):
        return (fid, fr.owner, bytes(fr.data))
    if fid == "POPM":
        return ("POPM", fr.email, fr.rating, getattr(fr, "count", None))
    if fid == "PCNT":
        return ("PCNT", fr.count)
    if fid == "WOAR":
        return ("WOAR", fr.url)
    if fid == "RVA2":
        return ("RVA2", fr.desc, fr.channel, round(fr.gain * 512), round(fr.peak * 32768))     # the fields' fixed-point units
    if fid in ("TMCL", "TIPL", "IPLS"):
        return (fid, tuple(tuple(p) for p in fr.people))
    if hasattr(fr, "text") and isinstance(fr.text, list):
        return (fid, tuple(str(x) for x in fr.text))
    return (fid, repr(fr)[:80])


def id3_neutral_raw(ver, fid, flags, body):
    """neutral form of a frame decoded by id3spec (independent reading)"""
    body = id3spec.frame_payload(ver, flags, body)
    if fid == "RVA2":
        ident, chans = refdec.rva2(body)
        ch, gain, peak = chans[0]
        return ("RVA2", ident, ch, round(gain * 512), round(peak * 32768))
    d = id3spec.decode_frame(fid, body)
    if d is None:
        return (fid, "undecoded:" + body[:20].hex())
    if fid == "TXXX":
        return ("TXXX", d["desc"], tuple(d["text"]))
    if fid == "COMM":
        return ("COMM", d["lang"], d["desc"], tuple(d["text"]))
    if fid == "USLT":
        return ("USLT", d["lang"], d["desc"], "\0".join(d["text"]))
    if fid == "APIC":
        return ("APIC", d["mime"], d["type"], d["desc"], d["data"])
    if fid in ("PRIV", "UFID"):
        return (fid, d["owner"], d["data"])
    if fid == "POPM":
        return ("POPM", d["email"], d["rating"], d["count"])
    if fid == "PCNT":
        return ("PCNT", d["count"])
    if fid.startswith("W"):
        return (fid, d["url"])
    if "people" in d:
        return (fid, tuple(tuple(p) for p in d["people"]))
    if fid in ("TDRC", "TDOR", "TDRL", "TDEN", "TDTG"):
        # ID3v2.4 structure 4: timestamps are yyyy-MM-ddTHH:mm:ss; the tag interface shows the 'T' as a space
        return (fid, tuple(x.replace("T", " ") for x in d["text"]))
    return (fid, tuple(d["text"]))


def id3_compare(exp, got):
    """exp, got: lists of neutral frames"""
    out = []
    ge = {}
    for t in got:
        ge.setdefault(id3_ident(t), []).append(t)
    ee = {}
    for t in exp:
        ee.setdefault(id3_ident(t), []).append(t)
    for ident, ts in ee.items():
        if ident not in ge:
            out.append((ident[0], "missing", "frame %s missing" % brief(ts[0])))
        elif ts != ge[ident]:
            a, b = ts[0], ge[ident][0]
            sym = "value-differs"
            if isinstance(a[-1], tuple) and isinstance(b[-1], tuple) and a[-1] != b[-1] and sorted(a[-1]) == sorted(b[-1]):
                sym = "order-differs"
            out.append((ident[0], sym, "frame %s came back as %s" % (brief(a), brief(b))))
    for ident, ts in ge.items():
        if ident not in ee:
            out.append((ident[0], "extra", "frame %s was not set" % brief(ts[0])))
    return out


class Id3(object):
    name = "id3"

    @staticmethod
    def gen(rng, ctx, big, opts):
        return gen_id3(rng, ctx, big, opts.get("v2_version", 4))

    @staticmethod
    def clear(obj):
        obj.tags.clear()
        # frames mutagen could not parse are kept aside and written back; they are not "what was set"
        obj.tags.unknown_frames = []

    @staticmethod
    def make(e):
        from mutagen import id3
        fid = e["id"]
        if fid == "TXXX":
            return id3.TXXX(encoding=e["enc"], desc=e["desc"], text=[mk(v) for v in e["text"]])
        if fid == "COMM":
            return id3.COMM(encoding=e["enc"], lang=e["lang"], desc=e["desc"], text=[mk(v) for v in e["text"]])
        if fid == "USLT":
            return id3.USLT(encoding=e["enc"], lang=e["lang"], desc=e["desc"], text=mk(e["text"]))
        if fid == "APIC":
            return id3.APIC(encoding=e["enc"], mime=e["mime"], type=e["type"], desc=e["desc"], data=mk(e["data"]))
        if fid == "PRIV":
            return id3.PRIV(owner=e["owner"], data=mk(e["data"]))
        if fid == "UFID":
            return id3.UFID(owner=e["owner"], data=mk(e["data"]))
        if fid == "POPM":
            return id3.POPM(email=e["email"], rating=e["rating"], count=e["count"])
        if fid == "PCNT":
            return id3.PCNT(count=e["count"])
        if fid == "WOAR":
            return id3.WOAR(url=e["url"])
        return getattr(id3, fid)(encoding=e["enc"], text=[mk(v) for v in e["text"]])

    @staticmethod
    def apply(obj, ts, iface):
        for e in ts:
            fr = Id3.make(e)
            if iface == "list":
                obj.tags[fr.HashKey] = fr
            else:
                obj.tags.add(fr)

    @staticmethod
    def expected(ts, opts):
        return [t for t in (id3_neutral_spec(e, opts) for e in ts) if t is not None]

    @staticmethod
    def reloaded(obj):
        return [id3_neutral_frame(fr) for fr in obj.tags.values()] if obj.tags is not None else []

    compare = staticmethod(id3_compare)


# ------------------------------------------------------------------------------------------ Easy interfaces
# what each Easy key must produce (ID3v2.4 frames list 4.2 / MusicBrainz tag mapping; Apple atom names)
EASYID3_TEXT = {"title": "TIT2", "album": "TALB", "artist": "TPE1", "albumartist": "TPE2", "composer": "TCOM", "conductor": "TPE3",
                "lyricist": "TEXT", "grouping": "TIT1", "version": "TIT3", "organization": "TPUB", "copyright": "TCOP", "encodedby": "TENC",
                "media": "TMED", "isrc": "TSRC", "language": "TLAN", "author": "TOLY", "arranger": "TPE4", "composersort": "TSOC"}
EASYID3_TEXT_V24 = {"mood": "TMOO", "discsubtitle": "TSST", "artistsort": "TSOP", "albumsort": "TSOA", "titlesort": "TSOT"}
EASYID3_NUM = {"bpm": "TBPM", "length": "TLEN", "tracknumber": "TRCK", "discnumber": "TPOS", "compilation": "TCMP"}
EASYID3_TXXX = {"musicbrainz_artistid": "MusicBrainz Artist Id", "musicbrainz_albumid": "MusicBrainz Album Id", "barcode": "BARCODE",
                "asin": "ASIN", "catalognumber": "CATALOGNUMBER", "acoustid_id": "Acoustid Id",
                "releasecountry": "MusicBrainz Album Release Country", "musicbrainz_workid": "MusicBrainz Work Id"}


def gen_easyid3(rng, ctx, v2_version):
    v23 = v2_version == 3
    out = []
    seen = set()
    for _ in range(rng.choice([1, 2, 3, 5, 8])):
        r = rng.random()
        if r < 0.45:
            pool = dict(EASYID3_TEXT)
            if not v23:
                pool.update(EASYID3_TEXT_V24)
            k = rng.choice(sorted(pool))
            vals = [gen_text(rng, classes=["ascii", "latin1", "bmp", "astral", "combining", "rtl", "sep", "mixed"])[0] for _ in range(rng.choice([1, 1, 2, 3]))]
        elif r < 0.55:
            k = rng.choice(sorted(EASYID3_NUM))
            vals = [str(rng.randrange(1, 10000)) if k in ("bpm", "length") else "1" if k == "compilation" else rng.choice(["7", "7/9", "12/12"])]
        elif r < 0.7:
            k = rng.choice(sorted(EASYID3_TXXX))
            vals = [gen_text(rng, classes=["ascii", "latin1", "bmp", "astral", "sep"])[0] for _ in range(rng.choice([1, 1, 2]))]
        elif r < 0.78:
            k = "date"
            vals = [rng.choice(["2020", "2020-05-06"])] if v23 else [rng.choice(STAMPS) for _ in range(rng.choice([1, 1, 2]))]
        elif r < 0.84:
            k = "genre"
            vals = [rng.choice(["Rock", "Custom Genre", "Пост-рок", "Hip-Hop"]) for _ in range(rng.choice([1, 1, 2]))]
            vals = list(dict.fromkeys(vals))
        elif r < 0.88:
            k = "website"
            vals = list(dict.fromkeys(rng.choice(["http://example.org/", "http://example.org/a?b=c", "http://x.y/\xe9"]) for _ in range(rng.choice([1, 2]))))
        elif r < 0.92:
            k = "musicbrainz_trackid"
            vals = ["f7a0f2b8-0c6a-4b2e-9f3a-%012x" % rng.randrange(1 << 48)]
        elif r < 0.96 and not v23:
            k = "performer:" + rng.choice(["guitar", "vocals", "ударные", "lead vocals"])
            vals = [gen_text(rng, classes=["ascii", "bmp", "astral"])[0] for _ in range(rng.choice([1, 2]))]
        elif not v23:
            name = rng.choice(["track", "album"])
            k = "replaygain_%s_%s" % (name, rng.choice(["gain", "peak"]))
            vals = ["%+f dB" % (rng.randrange(-32768, 32768) / 512.0)] if k.endswith("gain") else ["%f" % (rng.randrange(0, 65536) / 32768.0)]
        else:
            continue
        vals = [v if v != "" else "v" for v in vals]
        if k in seen:
            continue
        seen.add(k)
        out.append([k, vals])
    return out


def easyid3_expected(ts, opts):
    """-> (easy view: key -> [str], neutral frames the keys must produce)"""
    v23 = opts.get("v2_version", 4) == 3
    sep = opts.get("v23_sep", "/")

    def j(vals):
        return [sep.join(vals)] if (v23 and sep is not None) else list(vals)
    easy = {}
    frames = []
    raw = []
    people = []
    rva = {}
    for k, vals in ts:
        if k in EASYID3_TEXT or k in EASYID3_TEXT_V24 or k in EASYID3_NUM:
            fid = EASYID3_TEXT.get(k) or EASYID3_TEXT_V24.get(k) or EASYID3_NUM[k]
            easy[k] = j(vals); frames.append((fid, tuple(j(vals))))
        elif k in EASYID3_TXXX:
            easy[k] = j(vals); frames.append(("TXXX", EASYID3_TXXX[k], tuple(j(vals))))
        elif k == "date":
            easy[k] = list(vals); frames.append(("TDRC", tuple(vals)))
            if v23:
                # ID3v2.3 has no TDRC: year in TYER, day and month in TDAT (DDMM)
                raw.append(("TYER", (vals[0][:4],)))
                if len(vals[0]) >= 10:
                    raw.append(("TDAT", (vals[0][8:10] + vals[0][5:7],)))
        elif k == "genre":
            easy[k] = j(vals); frames.append(("TCON", tuple(j(vals))))
        elif k == "website":
            easy[k] = list(vals); frames += [("WOAR", u) for u in vals]
        elif k == "musicbrainz_trackid":
            easy[k] = list(vals); frames.append(("UFID", "http://musicbrainz.org", vals[0].encode("ascii")))
        elif k.startswith("performer:"):
            easy[k] = list(vals); people += [(k.split(":", 1)[1], v) for v in vals]
        elif k.startswith("replaygain_"):
            name = k[11:-5]
            g, p = rva.get(name, (0.0, 0.0))
            if k.endswith("_gain"):
                g = float(vals[0].split()[0])
            else:
                p = float(vals[0])
            rva[name] = (g, p)
    if people:
        frames.append(("TMCL", tuple(people)))
    for name, (g, p) in rva.items():
        frames.append(("RVA2", name, 1, round(g * 512), round(p * 32768)))     # RVA2 fixed-point units
        g = round(g * 512) / 512.0; p = round(p * 32768) / 32768.0
        easy["replaygain_%s_gain" % name] = ["%+f dB" % g]
        easy["replaygain_%s_peak" % name] = ["%f" % p]
    raw = [f for f in frames if not (v23 and f[0] == "TDRC")] + raw
    return easy, frames, raw


EASYMP4_TEXT = {"title": "\xa9nam", "album": "\xa9alb", "artist": "\xa9ART", "albumartist": "aART", "date": "\xa9day", "comment": "\xa9cmt",
                "description": "desc", "grouping": "\xa9grp", "genre": "\xa9gen", "copyright": "cprt", "albumsort": "soal",
                "albumartistsort": "soaa", "artistsort": "soar", "titlesort": "sonm", "composersort": "soco"}
EASYMP4_FREE = {"musicbrainz_artistid": "MusicBrainz Artist Id", "musicbrainz_trackid": "MusicBrainz Track Id",
                "musicbrainz_albumid": "MusicBrainz Album Id", "musicip_puid": "MusicIP PUID",
                "musicbrainz_albumstatus": "MusicBrainz Album Status", "releasecountry": "MusicBrainz Release Country"}


def gen_easymp4(rng, ctx):
    out = []
    seen = set()
    for _ in range(rng.choice([1, 2, 3, 5, 8])):
        r = rng.random()
        if r < 0.6:
            k = rng.choice(sorted(EASYMP4_TEXT))
            vals = [gen_text(rng, allow_nul=True)[0] for _ in range(rng.choice([1, 1, 2, 3]))]
        elif r < 0.8:
            k = rng.choice(sorted(EASYMP4_FREE))
            vals = [gen_text(rng, allow_nul=True)[0] for _ in range(rng.choice([1, 1, 2]))]
        elif r < 0.87:
            k = "bpm"; vals = [str(rng.choice([0, 1, 120, 65535, rng.randrange(65536)]))]
        else:
            k = rng.choice(["tracknumber", "discnumber"])
            a = rng.choice([0, 1, 7, 65535]); b = rng.choice([1, 9, 65535])
            vals = [rng.choice(["%d" % a, "%d/%d" % (a, b)]) for _ in range(rng.choice([1, 1, 2]))]
        if k in seen:
            continue
        seen.add(k)
        out.append([k, vals])
    return out


def easymp4_expected(ts):
    easy = {}; native = {}
    for k, vals in ts:
        easy[k] = list(vals)
        if k in EASYMP4_TEXT:
            native[EASYMP4_TEXT[k]] = ("text", list(vals))
        elif k in EASYMP4_FREE:
            native["----:com.apple.iTunes:" + EASYMP4_FREE[k]] = ("free", [(1, 0, v.encode("utf-8")) for v in vals])
        elif k == "bpm":
            native["tmpo"] = ("int", [int(v) for v in vals])
        else:
            native["trkn" if k == "tracknumber" else "disk"] = ("pair", [tuple(int(x) for x in (v.split("/") + ["0"])[:2]) for v in vals])
    return easy, native


# ------------------------------------------------------------------------------------------ layouts
FAMILIES = {"vorbis": Vorbis, "ape": Ape, "mp4": Mp4, "asf": Asf, "id3": Id3}
V1_KINDS = ("MP3", "TrueAudio")
LAYOUTS = ["plain", "deleted", "bigtag", "padded", "v1only", "opuspad"]
_layouts = {}


def strip_id3(data):
    if data[:3] == b"ID3" and len(data) >= 10:
        data = data[10 + id3spec.syncsafe(data[6:10]):]
    if len(data) >= 128 and data[-128:-125] == b"TAG":
        data = data[:-128]
    return data


def layout_bytes(ctx, fmt, sample, layout):
    """the input file of a case (None: the layout does not exist for this format / could not be built)"""
    key = (fmt.kind, sample, layout)
    if key in _layouts:
        return _layouts[key]
    data = formats.sample_bytes(ctx.repo, sample)
    out = None
    try:
        if layout == "plain":
            out = data
        elif layout == "v1only":
            if fmt.kind in V1_KINDS:
                v1 = b"TAG" + b"Old Title".ljust(30, b"\0") + b"Old Artist".ljust(30, b"\0") + b"Old Album".ljust(30, b"\0") + b"1999" + \
                    b"old comment".ljust(28, b"\0") + b"\0\x05\x11"
                out = strip_id3(data) + v1
        else:
            obj, fobj = formats.load(fmt, data)
            if layout == "deleted":
                if fmt.family == "asf":
                    del obj.tags[:]
                    formats.save(obj, fobj)
                else:
                    formats.delete(obj, fobj)
            elif layout == "bigtag":
                for n in range(5):
                    formats.put(fmt, obj, n, "big %d " % n + "x" * 15000)
                formats.save(obj, fobj)
            elif layout == "opuspad" and fmt.kind == "OggOpus":
                # RFC 7845 5.2: data after the comments whose first byte has bit 0 set must be preserved
                obj.tags._pad_data = b"\x01preserve me" + bytes(range(256))
                formats.save(obj, fobj)
            elif layout == "padded" and fmt.padding:
                formats.put(fmt, obj, 0, "padded")
                formats.save(obj, fobj, padding=lambda info: 6000)
            else:
                fobj = None
            if fobj is not None:
                out = fobj.getvalue()
                formats.load(fmt, out)
    except Exception as e:
        ctx.hist["layout-unbuildable:%s:%s:%s" % (fmt.kind, layout, type(e).__name__)] += 1
        out = None
    _layouts[key] = out
    return out


def gen_opts(rng, fmt, iface):
    opts = {}
    if fmt.padding and rng.random() < 0.6:
        opts["padding"] = rng.choice([0, 1, 1000, 1000, 100000] + ([] if fmt.family == "id3" else [-1, -1000]))
    if fmt.family == "vorbis" and rng.random() < 0.2:
        opts["vendor"] = gen_text(rng, allow_nul=True)[0]      # VComment.vendor is part of the tag interface
    if fmt.family == "id3":
        opts["v2_version"] = rng.choice([4, 4, 3])
        if opts["v2_version"] == 3:
            opts["v23_sep"] = rng.choice(["/", "/", None, ";", " / "])
        if fmt.kind in V1_KINDS + ("WAVE",) and rng.random() < 0.7:
            opts["v1"] = rng.choice([0, 1, 2])
    return opts


def save_kwargs(opts):
    kw = {}
    for k in ("v2_version", "v23_sep", "v1"):
        if k in opts:
            kw[k] = opts[k]
    if "padding" in opts:
        n = opts["padding"]
        kw["padding"] = lambda info: n
    return kw


# ------------------------------------------------------------------------------------------ independent decoding
def id3_tag_bytes(kind, saved):
    if kind in V1_KINDS:
        return saved if saved[:3] == b"ID3" else b""
    return walkers.walk(kind, saved).tag_bytes


def independent(fmt, saved, opts, aux):
    """the written bytes under the independent reading -> neutral form of the family (raises refdec.RefError)"""
    fam = fmt.family
    kind = fmt.kind
    if fam == "vorbis":
        packet = walkers.walk(kind, saved).tag_bytes if kind == "FLAC" else refdec.ogg_comment_packet(saved, kind)
        d = refdec.vorbis_decode(kind, packet)
        aux["vorbis"] = d
        return d["comments"]
    if fam == "ape":
        loc = refdec.ape_locate(saved)
        if loc is None:
            return {}
        tag = saved[loc[0]:loc[1]]
        items = refdec.ape_tag(tag)
        aux["ape"] = (tag, items)
        return {k: (kind_, v) for k, kind_, v, fl in items}
    if fam == "mp4":
        w = walkers.walk(kind, saved)
        if w.errors:
            raise refdec.RefError("container: " + w.errors[0])
        items = refdec.mp4_ilst(w.tag_bytes)
        aux["mp4"] = w.tag_bytes
        out = {}
        for k, kd, vals in items:
            if k in out:
                raise refdec.RefError("mp4: item %r twice" % k)
            out[k] = (kd, list(vals) if isinstance(vals, list) else vals)
        return out
    if fam == "asf":
        d = refdec.asf_tags(saved)
        aux["asf"] = d
        out = {}; placed = {}
        for name, v in d["CD"]:
            out.setdefault(name, []).append((0, v, 0, 0)); placed.setdefault(name, []).append(0)
        for name, t, v in d["ECD"]:
            out.setdefault(name, []).append((t, v, 0, 0)); placed.setdefault(name, []).append(1)
        for stream, name, t, v in d["M"]:
            out.setdefault(name, []).append((t, v, 0, stream)); placed.setdefault(name, []).append(2)
        for lang, stream, name, t, v in d["ML"]:
            out.setdefault(name, []).append((t, v, lang, stream)); placed.setdefault(name, []).append(3)
        aux["placed"] = placed
        return out
    if fam == "id3":
        tb = id3_tag_bytes(kind, saved)
        if not tb:
            return []
        t = id3spec.walk_tag(tb)
        if t.errors:
            raise refdec.RefError("id3: " + t.errors[0])
        want = opts.get("v2_version", 4)
        if t.version[0] != want:
            raise refdec.RefError("id3: tag saved with v2_version=%d declares version 2.%d" % (want, t.version[0]))
        out = []
        for fid, fl, body in t.frames:
            try:
                out.append(id3_neutral_raw(t.version[0], fid, fl, body))
            except refdec.RefError:
                raise
            except Exception as e:
                raise refdec.RefError("id3: frame %s does not decode: %s" % (fid, type(e).__name__))
        return out
    raise KeyError(fam)


# ------------------------------------------------------------------------------------------ runner
def stable(msg):
    """a key fragment without data: letters of the first words of a decoder message"""
    import re
    msg = re.sub(r"(b?'[^']*'|b?\"[^\"]*\")", "", msg)
    words = re.findall(r"[A-Za-z][A-Za-z0-9+-]*", msg)
    return "-".join(words[:6])[:60]


def easy_class(k):
    if k.startswith("performer:"):
        return "performer"
    if k.startswith("replaygain_"):
        return "replaygain"
    return k


class Runner(object):
    def __init__(self, ctx):
        self.ctx = ctx
        self.lines = []
        self.cbs = []
        self.save_errors = {}

    def ask(self, line, cb):
        if self.ctx.model_ok():
            self.lines.append(line); self.cbs.append(cb)

    def flush(self):
        if not self.lines:
            return
        lines, cbs = self.lines, self.cbs
        self.lines = []; self.cbs = []
        # batches keep the request size bounded
        i = 0
        while i < len(lines):
            j = i; size = 0
            while j < len(lines) and (j == i or size + len(lines[j]) < 40_000_000) and j - i < 5000:
                size += len(lines[j]); j += 1
            for resp, cb in zip(self.ctx.driver.ask(lines[i:j]), cbs[i:j]):
                self.ctx.traces_validated += 1
                cb(resp)
            i = j

    # -- model ties -------------------------------------------------------------------------
    def tie_vorbis(self, d, case):
        ctx = self.ctx
        body = d["body"]; fr = int(d["framing"])
        kv = ",".join("%s:%s" % (hx(k), hx(v)) for k, v in d["raw"]) or "_"
        short = {k: case[k] for k in ("kind", "sample", "layout", "seed") if k in case}

        def on_dec(resp):
            st, f = parse_fields(resp)
            if st != "ok" or f.get("vendor") != hx(d["vendor_raw"]) or f.get("kv") != kv or f.get("utf8") != "1":
                ctx.disagree("vcdec of the comment bytes mutagen wrote", short, model=resp[:200], impl="vendor=%s kv=%s" % (hx(d["vendor_raw"]), kv[:120]))

        def on_enc(resp):
            if resp != "ok v=" + hx(body):
                ctx.disagree("vcenc differs from VComment.write", short, model=resp[:200], impl=hx(body)[:200])
        self.ask("tagc op=vcdec data=%s framing=%d" % (hx(body), fr), on_dec)
        self.ask("tagc op=vcenc vendor=%s kv=%s framing=%d" % (hx(d["vendor_raw"]), kv, fr), on_enc)

    def tie_ape(self, tag, items, case):
        ctx = self.ctx
        its = ",".join("%s:%d:%s" % (hx(k.encode("ascii")), kd, hx(v)) for k, kd, v, fl in items) or "_"
        short = {k: case[k] for k in ("kind", "sample", "layout", "seed") if k in case}

        def on_enc(resp):
            if resp != "ok v=" + hx(tag):
                ctx.disagree("apeenc differs from APEv2.save", short, model=resp[:200], impl=hx(tag)[:200])

        def on_dec(resp):
            if resp != "ok items=" + its:
                ctx.disagree("apedec of the tag mutagen wrote", short, model=resp[:200], impl=its[:200])
        self.ask("tagc op=apeenc items=%s" % its, on_enc)
        self.ask("tagc op=apedec data=%s" % hx(tag), on_dec)

    # -- one case -----------------------------------------------------------------------------
    def check(self, case):
        ctx = self.ctx
        fmt = formats.BY_KIND[case["kind"]]
        if case.get("iface") == "easy":
            return self.check_easy(case, fmt)
        fam = FAMILIES[fmt.family]
        kind = fmt.kind
        ts = case["tags"]; opts = case["opts"]; iface = case["iface"]
        data = layout_bytes(ctx, fmt, case["sample"], case["layout"])
        if data is None:
            return False

        def viol(vk, sym, what, indep=False):
            ctx.violation("%s:%s:%s:%s%s" % (kind, fam.name, vk, sym, ":independent" if indep else ""),
                          "%s %s [%s, %s]: %s" % (kind, case["sample"], case["layout"], "independent decoder" if indep else "reload", what), case)
        try:
            obj, fobj = formats.load(fmt, data)
        except Exception as e:
            ctx.hist["input-unloadable:%s:%s" % (kind, case["layout"])] += 1
            return False
        formats.ensure_tags(obj)
        fam.clear(obj)
        try:
            fam.apply(obj, ts, iface)
            if "vendor" in opts:
                obj.tags.vendor = opts["vendor"]
        except Exception as e:
            ctx.hist["set-raised:%s:%s" % (fam.name, type(e).__name__)] += 1
            self.save_errors.setdefault("set:%s:%s" % (kind, type(e).__name__), "%s: %s" % (type(e).__name__, str(e)[:100]))
            return False
        exp = fam.expected(ts, opts)
        k, r = timed(lambda: formats.save(obj, fobj, **save_kwargs(opts)), 120)
        nontrivial = bool(ts)
        ctx.case(key=(kind, case["sample"], case["layout"], iface, digest(ts), digest(opts)), nontrivial=nontrivial,
                 modelled=(fmt.family in ("vorbis", "ape", "id3") or self.tagc2),
                 sample={k2: case[k2] for k2 in ("kind", "sample", "layout", "iface", "opts")} if ctx.evaluations % 97 == 3 else None)
        ctx.hist["case:%s" % kind] += 1
        ctx.hist["layout:%s" % case["layout"]] += 1
        ctx.hist["iface:%s" % iface] += 1
        for o, v in opts.items():
            ctx.hist["opt:%s=%r" % (o, v)] += 1
        ctx.hist["tagset-size:%d" % min(len(ts), 8)] += 1
        if k != "ok":
            name = type(r).__name__ if k == "exc" else "hang"
            ctx.hist["save-raised:%s:%s" % (kind, name)] += 1
            self.save_errors.setdefault("save:%s:%s" % (kind, name), "%s %s opts=%r: %r" % (kind, case["sample"], opts, str(r)[:120]))
            return True
        saved = fobj.getvalue()
        # (1) reload with mutagen
        got = None
        k, obj2 = timed(lambda: formats.load(fmt, saved)[0], 120)
        if k != "ok":
            viol("file", "reload-fails", "the saved file does not load: %r" % (obj2,))
        else:
            try:
                got = fam.reloaded(obj2)
            except Exception as e:
                got = None
                viol("file", "reload-unreadable", "reading the reloaded tags raised %s" % type(e).__name__)
            if got is not None:
                diffs = asf_compare(exp, got) if fam is Asf else fam.compare(exp, got)
                for vk, sym, what in diffs[:3]:
                    viol(vk, sym, what)
                if "vendor" in opts and obj2.tags is not None and obj2.tags.vendor != opts["vendor"]:
                    viol("vendor", "value-differs", "vendor %s came back as %s" % (describe(opts["vendor"]), describe(obj2.tags.vendor)))
        # (2) independent reading of the written bytes
        aux = {}
        try:
            ind = independent(fmt, saved, opts, aux)
        except refdec.RefError as e:
            ind = None
            msg = str(e)
            viol("tag-bytes", "invalid:" + stable(msg), msg, indep=True)
        except Exception as e:
            ind = None
            viol("tag-bytes", "undecodable:" + type(e).__name__, "independent decoder crashed: %r" % (e,), indep=True)
        if ind is not None:
            if "vendor" in opts and "vorbis" in aux and aux["vorbis"]["vendor"] != opts["vendor"]:
                viol("vendor", "value-differs", "vendor %s decodes as %s" % (describe(opts["vendor"]), describe(aux["vorbis"]["vendor"])), indep=True)
            if fam is Mp4:
                # items mutagen could not parse in the input are written back verbatim: not part of what was set
                try:
                    before = independent(fmt, data, {}, {})
                except Exception:
                    before = {}
                ind = {k2: v for k2, v in ind.items() if k2 in exp or before.get(k2) != v}
            if fam is Asf:
                diffs = asf_compare(exp, ind)
                if k == "ok" and got is not None and not diffs:
                    # order: mutagen's reloaded list must be the set order regrouped by the holding object
                    diffs = asf_compare(exp, got, aux.get("placed"))
                    for vk, sym, what in diffs[:3]:
                        viol(vk, sym, what)
                    diffs = []
            else:
                diffs = fam.compare(exp, ind)
            for vk, sym, what in diffs[:3]:
                viol(vk, sym, what, indep=True)
        # ID3v1 block presence follows the option
        if fmt.family == "id3" and kind in V1_KINDS:
            had = len(data) >= 128 and data[-128:-125] == b"TAG"
            has = len(saved) >= 128 and saved[-128:-125] == b"TAG"
            v1 = opts.get("v1", 1)
            want = (v1 == 2) or (v1 == 1 and had)
            if has != want:
                viol("v1-block", "unwanted" if has else "missing", "v1=%d, input %s an ID3v1 block, output %s one" % (
                    v1, "had" if had else "had not", "has" if has else "has not"))
        # (3) model tie
        if case.get("model") is False:
            return True
        if "vorbis" in aux:
            self.tie_vorbis(aux["vorbis"], case)
        if "ape" in aux:
            self.tie_ape(aux["ape"][0], aux["ape"][1], case)
        if "mp4" in aux:
            self.tie_mp4(aux["mp4"], case)
        if "asf" in aux:
            self.tie_asf(aux["asf"], saved, case)
        return True

    def probe_tagc2(self):
        self.tagc2 = False
        if self.ctx.model_ok():
            try:
                self.tagc2 = self.ctx.driver.ask(["tagc2 op=ping"])[0] == "ok pong"
            except Exception:
                self.tagc2 = False
        if not self.tagc2:
            self.ctx.notes.append("driver command tagc2 (MP4 data atoms / ASF attribute records) not built in: those codecs are decided by the independent decoders only")

    def tie_mp4(self, ilst, case):
        """each item atom mutagen wrote against the model's item codec, integers and pairs against the typed codecs"""
        if not self.tagc2:
            return
        ctx = self.ctx
        short = {k: case[k] for k in ("kind", "sample", "layout", "seed") if k in case}

        def expect(line, want, what):
            def cb(resp):
                if resp != want:
                    ctx.disagree(what, short, model=resp[:200], impl=want[:200])
            self.ask(line, cb)
        pos = 0
        while pos + 8 <= len(ilst):
            size, name = struct.unpack(">I4s", ilst[pos:pos + 8])
            item = ilst[pos:pos + size]
            pos += size
            if name == b"free" or size < 8 or len(item) > 200000:
                continue
            try:
                kids = refdec.mp4_children(item[8:], "item")
            except refdec.RefError:
                continue
            datas = [(c[0], int.from_bytes(c[1:4], "big"), c[8:]) for n, c in kids if n == b"data"]
            ds = ",".join("%d:%d:%s" % (v, f, hx(p)) for v, f, p in datas) or "_"
            if name == b"----":
                if len(kids) < 2 or kids[0][0] != b"mean" or kids[1][0] != b"name":
                    continue
                mean, nm = kids[0][1][4:], kids[1][1][4:]
                expect("tagc2 op=mp4ffenc mean=%s name=%s datas=%s" % (hx(mean), hx(nm), ds), "ok v=" + hx(item), "mp4ffenc differs from MP4Tags.__render_freeform")
                expect("tagc2 op=mp4ffdec data=%s" % hx(item), "ok mean=%s name=%s datas=%s rest=-" % (hx(mean), hx(nm), ds), "mp4ffdec of the item mutagen wrote")
                continue
            if any(n != b"data" for n, c in kids):
                continue
            expect("tagc2 op=mp4enc name=%s datas=%s" % (hx(name), ds), "ok v=" + hx(item), "mp4enc differs from MP4Tags.__render_data")
            expect("tagc2 op=mp4dec data=%s" % hx(item), "ok name=%s datas=%s rest=-" % (hx(name), ds), "mp4dec of the item mutagen wrote")
            key = name.decode("latin-1")
            for v, f, p in datas:
                if key in MP4_INTS and len(p) in (1, 2, 4, 8):
                    val = int.from_bytes(p, "big", signed=True)
                    expect("tagc2 op=mp4int v=%d min=%d" % (val, MP4_INTS[key]), "ok v=" + hx(p), "mp4int differs from MP4Tags.__render_integer")
                    expect("tagc2 op=mp4intdec data=%s" % hx(p), "ok v=%d" % val, "mp4intdec")
                elif key in ("trkn", "disk") and len(p) >= 6:
                    a, b = struct.unpack(">2H", p[2:6])
                    expect("tagc2 op=mp4pair track=%d total=%d trailing=%d" % (a, b, int(key == "trkn")), "ok v=" + hx(p), "mp4pair differs from MP4Tags.__render_pair")
                    expect("tagc2 op=mp4pairdec data=%s" % hx(p), "ok track=%d total=%d" % (a, b), "mp4pairdec")

    def tie_asf(self, d, saved, case):
        """the attribute records of the three objects against the model's record codecs, typed values against the value codecs"""
        if not self.tagc2:
            return
        ctx = self.ctx
        short = {k: case[k] for k in ("kind", "sample", "layout", "seed") if k in case}

        def expect(line, want, what):
            def cb(resp):
                if resp != want:
                    ctx.disagree(what, short, model=resp[:200], impl=want[:200])
            self.ask(line, cb)
        for tag, enc, dec in (("ECD", "asfecd", "asfecddec"), ("M", "asfml", "asfmldec"), ("ML", "asfml", "asfmldec")):
            payload = d["payload"].get(tag)
            if payload is None or len(payload) > 300000:
                continue
            recs = d["records"][tag]
            attrs = ",".join("%d:%d:%s:%d:%s" % (l, st, hx(n), t, hx(v)) for l, st, n, t, v in recs) or "_"
            expect("tagc2 op=%s attrs=%s" % (enc, attrs), "ok v=" + hx(payload), "%s differs from what ASF.save wrote into %s" % (enc, tag))
            expect("tagc2 op=%s data=%s" % (dec, hx(payload)), "ok attrs=" + attrs, "%s of the %s payload mutagen wrote" % (dec, tag))
            for l, st, n, t, v in recs:
                if t == 0 and len(v) <= 4000:
                    try:
                        text = refdec.asf_wstr(v, "value")
                    except refdec.RefError:
                        continue
                    cps = ",".join(str(ord(c)) for c in text) or "-"
                    expect("tagc2 op=asftext cps=%s" % cps, "ok v=" + hx(v), "asftext differs from ASFUnicodeAttribute._render")
                    if "\0" not in text:
                        expect("tagc2 op=asftextdec data=%s" % hx(v), "ok cps=" + cps, "asftextdec")
                elif t in (3, 4, 5):
                    w = {3: 4, 4: 8, 5: 2}[t]
                    expect("tagc2 op=asfuint w=%d v=%d" % (w, int.from_bytes(v, "little")), "ok v=" + hx(v), "asfuint differs from the attribute's _render")
                elif t == 2 and len(v) in (2, 4):
                    expect("tagc2 op=asfbool v=%d dword=%d" % (int.from_bytes(v, "little"), int(len(v) == 4)), "ok v=" + hx(v), "asfbool differs from ASFBoolAttribute._render")

    def check_easy(self, case, fmt):
        import importlib
        ctx = self.ctx
        kind = fmt.kind
        ts = case["tags"]; opts = case["opts"]
        data = layout_bytes(ctx, fmt, case["sample"], case["layout"])
        if data is None:
            return False
        mod, name = fmt.easy.rsplit(".", 1)
        easycls = getattr(importlib.import_module(mod), name)

        def viol(vk, sym, what, indep=False, view="easy"):
            ctx.violation("%s:%s:%s:%s%s" % (kind, view, vk, sym, ":independent" if indep else ""),
                          "%s %s [%s, Easy interface%s]: %s" % (kind, case["sample"], case["layout"], ", independent decoder" if indep else "", what), case)
        try:
            fobj = formats.NamedBytesIO(data)
            obj = easycls(fobj)
            if obj.tags is None:
                obj.add_tags()
            if len(obj.tags.keys()):
                return False
        except Exception as e:
            ctx.hist["input-unloadable:%s:easy" % kind] += 1
            return False
        try:
            for k, vals in ts:
                obj.tags[k] = list(vals)
        except Exception as e:
            ctx.hist["set-raised:easy:%s" % type(e).__name__] += 1
            self.save_errors.setdefault("set:easy:%s:%s" % (kind, type(e).__name__), "%s: %s" % (type(e).__name__, str(e)[:100]))
            return False
        if fmt.family == "id3":
            easy, native, raw = easyid3_expected(ts, opts)
        else:
            easy, native = easymp4_expected(ts)
            raw = native
        k, r = timed(lambda: formats.save(obj, fobj, **save_kwargs(opts)), 60)
        ctx.case(key=(kind, case["sample"], case["layout"], "easy", digest(ts), digest(opts)), nontrivial=bool(ts),
                 sample={k2: case[k2] for k2 in ("kind", "sample", "layout", "iface", "opts", "tags")} if ctx.evaluations % 53 == 7 else None)
        ctx.hist["case:%s" % kind] += 1
        ctx.hist["layout:%s" % case["layout"]] += 1
        ctx.hist["iface:easy"] += 1
        for o, v in opts.items():
            ctx.hist["opt:%s=%r" % (o, v)] += 1
        for kk, _ in ts:
            ctx.hist["easy-key:%s" % easy_class(kk)] += 1
        if k != "ok":
            nm = type(r).__name__ if k == "exc" else "hang"
            ctx.hist["save-raised:%s:easy:%s" % (kind, nm)] += 1
            self.save_errors.setdefault("save:easy:%s:%s" % (kind, nm), "%s opts=%r: %r" % (kind, opts, str(r)[:120]))
            return True
        saved = fobj.getvalue()
        # (1a) the Easy view after reload
        k, obj2 = timed(lambda: easycls(formats.NamedBytesIO(saved)), 60)
        if k != "ok":
            viol("file", "reload-fails", "the saved file does not load: %r" % (obj2,))
        else:
            try:
                got = {kk: list(obj2.tags[kk]) for kk in obj2.tags.keys()}
            except Exception as e:
                got = None
                viol("file", "reload-unreadable", "reading the reloaded Easy tags raised %s: %s" % (type(e).__name__, str(e)[:80]))
            if got is not None:
                for vk, sym, what in cmp_dict({a: ("v", b) for a, b in easy.items()}, {a: ("v", b) for a, b in got.items()},
                                              lambda kk, v: easy_class(kk))[:3]:
                    viol(vk, sym, what)
        # (1b) the frames / atoms the keys must produce, seen through the native interface
        fam = FAMILIES[fmt.family]
        k, obj3 = timed(lambda: formats.load(fmt, saved)[0], 60)
        if k == "ok":
            try:
                gotn = fam.reloaded(obj3)
                for vk, sym, what in fam.compare(native, gotn)[:3]:
                    viol(vk, sym, what, view=fam.name)
            except Exception as e:
                viol("file", "reload-unreadable", "reading the reloaded native tags raised %s" % type(e).__name__, view=fam.name)
        # (2) independent reading
        aux = {}
        try:
            ind = independent(fmt, saved, opts, aux)
            for vk, sym, what in fam.compare(raw, ind)[:3]:
                viol(vk, sym, what, indep=True, view=fam.name)
        except refdec.RefError as e:
            viol("tag-bytes", "invalid:" + stable(str(e)), str(e), indep=True, view=fam.name)
        except Exception as e:
            viol("tag-bytes", "undecodable:" + type(e).__name__, "independent decoder crashed: %r" % (e,), indep=True, view=fam.name)
        return True



# ------------------------------------------------------------------------------------------ UTF-8 against the model
def run_utf8(ctx, R):
    rng = ctx.rng
    texts = [t for c in TEXT_CLASSES.values() for t in c]
    for _ in range(ctx.budget(150, 1500)):
        texts.append(gen_text(rng, allow_nul=True)[0])
    for _ in range(ctx.budget(40, 400)):
        texts.append("".join(chr(rng.choice([0, 0x7F, 0x80, 0x7FF, 0x800, 0xD7FF, 0xE000, 0xFFFD, 0xFFFF, 0x10000, 0x10FFFF,
                                             rng.randrange(0x110000)])) for _ in range(rng.randrange(0, 12))).encode("utf-8", "replace").decode("utf-8"))
    for t in texts:
        py = t.encode("utf-8")
        ctx.case(key=("utf8enc", t), nontrivial=bool(t), modelled=True)
        ctx.hist["utf8:encode"] += 1
        if refdec.utf8_encode([ord(c) for c in t]) != py or refdec.utf8_decode(py) != [ord(c) for c in t]:
            ctx.disagree("harness/refdec.py UTF-8 differs from CPython", {"text": t}, model="refdec", impl=hx(py))

        def cb(resp, t=t, py=py):
            if resp != "ok v=" + hx(py):
                ctx.disagree("utf8enc", {"text": t}, model=resp[:120], impl=hx(py))
        R.ask("tagc op=utf8enc cps=%s" % (",".join(str(ord(c)) for c in t) or "-"), cb)
    datas = [b"", b"\xc0\x80", b"\xc1\xbf", b"\xe0\x80\x80", b"\xe0\x9f\xbf", b"\xf0\x80\x80\x80", b"\xf0\x8f\xbf\xbf", b"\xed\xa0\x80",
             b"\xed\xbf\xbf", b"\xed\x9f\xbf", b"\xee\x80\x80", b"\xf4\x8f\xbf\xbf", b"\xf4\x90\x80\x80", b"\xf5\x80\x80\x80", b"\xf8\x88\x80\x80\x80",
             b"\xff", b"\xfe", b"\x80", b"\xbf", b"\xc2", b"\xe2\x82", b"\xf0\x9f\x98", b"a\xc2", b"\xc2a", b"\xe2\x82a", b"\xf0\x9f\x98a",
             b"\xe2\x28\xa1", b"\xf0\x28\x8c\xbc", b"\xf0\x90\x28\xbc", b"\xed\xa0\x80\xed\xb0\x80", "\U0001f600".encode("utf-8")]
    for t in texts[:200]:
        datas.append(t.encode("utf-8"))
    for _ in range(ctx.budget(400, 4000)):
        n = rng.randrange(1, 8)
        datas.append(bytes(rng.choice([0x00, 0x41, 0x7F, 0x80, 0xBF, 0xC0, 0xC1, 0xC2, 0xDF, 0xE0, 0xED, 0xEF, 0xF0, 0xF4, 0xF5, 0xFF, 0x9F, 0xA0, 0x8F, 0x90,
                                       rng.randrange(256)]) for _ in range(n)))
    for b in datas:
        try:
            py = "ok cps=" + (",".join(str(ord(c)) for c in b.decode("utf-8")) or "-")
        except UnicodeDecodeError:
            py = "err unicode"
        try:
            rd = "ok cps=" + (",".join(map(str, refdec.utf8_decode(b))) or "-")
        except refdec.RefError:
            rd = "err unicode"
        ctx.case(key=("utf8dec", b), nontrivial=True, modelled=True)
        ctx.hist["utf8:decode:" + ("valid" if py.startswith("ok") else "invalid")] += 1
        if rd != py:
            ctx.disagree("harness/refdec.py UTF-8 decoder differs from CPython", {"data": hx(b)}, model=rd, impl=py)

        def cb(resp, b=b, py=py):
            if resp != py:
                ctx.disagree("utf8dec", {"data": hx(b)}, model=resp[:120], impl=py)
        R.ask("tagc op=utf8dec data=%s" % hx(b), cb)


# ------------------------------------------------------------------------------------------ entry points
def plan(ctx):
    """the cases of a run, deterministic in ctx.rng"""
    rng = ctx.rng
    nplain = ctx.budget(60, 130)
    nother = ctx.budget(25, 40)
    for fmt in formats.TAGGABLE:
        fam = FAMILIES[fmt.family]
        for si, sample in enumerate(fmt.samples):
            others = [l for l in LAYOUTS[1:] if not (l == "v1only" and fmt.kind not in V1_KINDS) and not (l == "padded" and not fmt.padding)
                      and not (l == "opuspad" and fmt.kind != "OggOpus")]
            layouts = [("plain", nplain)]
            if ctx.quick:
                layouts.append((others[(si + len(fmt.kind)) % len(others)], nother))
                if fmt.kind in V1_KINDS and si == 0:
                    layouts.append(("v1only", 3))
                if fmt.kind == "OggOpus":
                    layouts.append(("opuspad", 6))
            else:
                layouts += [(l, nother) for l in others]
            for layout, n in layouts:
                for i in range(n):
                    iface = "native"
                    if fmt.family in ("vorbis", "id3") and rng.random() < 0.25:
                        iface = "list"
                    opts = gen_opts(rng, fmt, iface)
                    big = (si == 0 and layout == "plain" and i == 0) or rng.random() < ctx.budget(0.04, 0.15)
                    ts = fam.gen(rng, ctx, big, opts)
                    yield {"kind": fmt.kind, "sample": sample, "layout": layout, "iface": iface, "tags": ts, "opts": opts, "seed": ctx.seed}
        if fmt.easy:
            for sample in fmt.samples:
                for i in range(ctx.budget(40, 130)):
                    opts = gen_opts(rng, fmt, "easy")
                    ts = gen_easyid3(rng, ctx, opts.get("v2_version", 4)) if fmt.family == "id3" else gen_easymp4(rng, ctx)
                    yield {"kind": fmt.kind, "sample": sample, "layout": "deleted", "iface": "easy", "tags": ts, "opts": opts, "seed": ctx.seed}


def run_extremes(ctx, R):
    """sizes around the formats' own length fields: 2**24 - 1 is the largest FLAC metadata block (24-bit length), also in the
    Ogg FLAC mapping"""
    for kind, sample in (("OggFLAC", "empty.oggflac"), ("FLAC", "silence-44-s.flac")):
        for n in ((1 << 24) - 64, (1 << 24) + 5):
            R.check({"kind": kind, "sample": sample, "layout": "plain", "iface": "native", "tags": [["title", [["reptext", "16 MiB. ", n]]]],
                     "opts": {}, "seed": ctx.seed, "model": False})
            ctx.hist["extreme:%s:%s" % (kind, "below-2^24" if n < (1 << 24) else "above-2^24")] += 1


def audit_c01b(ctx):
    """Props/C01b.lean (MP4 / ASF codec theorems) is not imported by Props/C01.lean: build it and audit its axioms here, and add
    its theorems to the obligations of this check"""
    import os, re, vcheck
    st = ctx.build
    path = os.path.join(vcheck.LEAN, "MutagenModel", "Props", "C01b.lean")
    if st is None or not os.path.exists(path) or getattr(st, "c01b_done", False):
        return
    st.c01b_done = True
    try:
        rc, log = vcheck.lake(["build", "MutagenModel.Props.C01b"])
        if rc != 0:
            mods, errs = vcheck.failing_modules(log)
            st.ok = False
            st.problems.append(("build", "lake build MutagenModel.Props.C01b failed in %s: %s" % (mods, errs)))
            return
        src = vcheck.strip_lean_comments(open(path).read())
        names = ["Mutagen.C01." + m for m in re.findall(r"^theorem\s+([A-Za-z_][A-Za-z0-9_'.]*)", src, re.M)]
        apath = os.path.join(vcheck.LEAN, ".lake", "audit_C01b.lean")
        with open(apath, "w") as f:
            f.write("import MutagenModel.Props.C01b\n" + "".join("#print axioms %s\n" % t for t in names))
        rc, out = vcheck.lake(["env", "lean", apath])
        if rc != 0:
            st.ok = False
            st.problems.append(("audit", "audit of Props/C01b.lean failed: " + out[-300:]))
            return
        for m in re.finditer(r"'([^']+)' depends on axioms: \[([^\]]*)\]", out):
            st.axioms[m.group(1)] = [a.strip() for a in m.group(2).replace("\n", " ").split(",") if a.strip()]
        for m in re.finditer(r"'([^']+)' does not depend on any axioms", out):
            st.axioms[m.group(1)] = []
        for t in names:
            st.theorems.append(t)
            if t not in st.axioms:
                st.ok = False
                st.problems.append(("audit", "no axiom report for " + t))
            elif not set(st.axioms[t]) <= vcheck.ALLOWED_AXIOMS:
                st.ok = False
                st.problems.append(("audit", "%s uses axioms %s" % (t, st.axioms[t])))
    except Exception as e:
        ctx.notes.append("audit of Props/C01b.lean could not run: %s: %s" % (type(e).__name__, str(e)[:120]))



def flac_picture_block(payload):
    """METADATA_BLOCK_PICTURE per the FLAC format: type(4) mime-length(4) mime description-length(4) description (UTF-8)
    width(4) height(4) depth(4) colours(4) data-length(4) data - all big-endian"""
    import struct
    pos = 0
    def u32():
        nonlocal pos
        if pos + 4 > len(payload):
            raise ValueError("truncated")
        v = struct.unpack(">I", payload[pos:pos + 4])[0]; pos += 4
        return v
    def take(n):
        nonlocal pos
        if pos + n > len(payload):
            raise ValueError("length field beyond the block")
        b = payload[pos:pos + n]; pos += n
        return b
    typ = u32(); mime = take(u32()).decode("ascii"); desc = take(u32()).decode("utf-8")
    w, h, d, c = u32(), u32(), u32(), u32()
    data = take(u32())
    if pos != len(payload):
        raise ValueError("%d bytes left in the block" % (len(payload) - pos))
    return (typ, mime, desc, w, h, d, c, data)


def run_pictures(ctx):
    """cover art carried as FLAC PICTURE blocks (FLAC.add_picture) and as base64 METADATA_BLOCK_PICTURE comments in Ogg
    Vorbis/Opus: every field survives save + reload, and the written block decodes per the FLAC format specification"""
    import base64, io
    from mutagen.flac import FLAC, Picture
    from mutagen.oggvorbis import OggVorbis
    rng = ctx.rng
    descs = ["", "cover", "Ünï", "日本語 カバー", "\U0001F3B5 astral", "a" * 300, "é" * 70]
    mimes = ["image/png", "image/jpeg", "-->"]
    for i in range(ctx.budget(24, 200)):
        desc = rng.choice(descs); mime = rng.choice(mimes)
        data = bytes(rng.randrange(256) for _ in range(rng.choice([0, 1, 100, 70000])))
        fields = (rng.choice([0, 3, 4, 20]), mime, desc, rng.choice([0, 1, 65535, 2 ** 32 - 1]), rng.choice([0, 600]), rng.choice([0, 24, 32]),
                  rng.choice([0, 256]), data)
        for sname in ("silence-44-s.flac", "no-tags.flac"):
            case = {"sub": "flac-picture", "sample": sname, "type": fields[0], "mime": mime, "desc": desc, "data_len": len(data)}
            f = io.BytesIO(formats.sample_bytes(ctx.repo, sname))
            try:
                fl = FLAC(f)
                fl.clear_pictures()
                p = Picture()
                p.type, p.mime, p.desc, p.width, p.height, p.depth, p.colors, p.data = fields
                fl.add_picture(p)
                f.seek(0); fl.save(f)
            except Exception as e:
                _hist["picture:save-raised:" + type(e).__name__] += 1
                continue
            ctx.case(key=("flac-picture", sname, i), nontrivial=True, modelled=False, sample=case if i == 2 else None)
            _hist["picture:flac"] += 1
            out = f.getvalue()
            try:
                back = FLAC(io.BytesIO(out)).pictures
                got = [(q.type, q.mime, q.desc, q.width, q.height, q.depth, q.colors, bytes(q.data)) for q in back]
            except Exception as e:
                got = "reload raised %s" % type(e).__name__
            if got != [fields]:
                ctx.violation("FLAC:picture:reload-differs", "picture set %r... reads back as %r" % (fields[:7], str(got)[:200]), case)
            # independent: walk the blocks, decode the PICTURE block
            pos = out.find(b"fLaC") + 4
            found = []
            try:
                while True:
                    h = out[pos]; size = int.from_bytes(out[pos + 1:pos + 4], "big")
                    if h & 0x7F == 6:
                        found.append(flac_picture_block(out[pos + 4:pos + 4 + size]))
                    pos += 4 + size
                    if h & 0x80:
                        break
            except Exception as e:
                found = "independent decoder: %s" % e
            if found != [fields]:
                ctx.violation("FLAC:picture:independent", "the PICTURE block does not decode to what was set: %r" % (str(found)[:200],), case)
        # the same block, base64, as a Vorbis comment
        try:
            p = Picture()
            p.type, p.mime, p.desc, p.width, p.height, p.depth, p.colors, p.data = fields
            blob = p.write()
            if flac_picture_block(blob) != fields:
                ctx.violation("FLAC:picture:write", "Picture.write() does not decode to the fields per the format specification",
                              {"sub": "picture-write", "mime": mime, "desc": desc, "data_len": len(data)})
        except Exception as e:
            ctx.violation("FLAC:picture:write", "Picture.write(): %s" % e, {"sub": "picture-write", "mime": mime, "desc": desc})


def run(ctx):
    ctx.rule = RULE
    audit_c01b(ctx)
    R = Runner(ctx)
    R.probe_tagc2()
    for case in plan(ctx):
        R.check(case)
        if len(R.lines) > 400:
            R.flush()
    run_extremes(ctx, R)
    run_utf8(ctx, R)
    run_pictures(ctx)
    R.flush()
    # FLAC block classes (Picture, SeekTable, CueSheet, Padding, Application) against Model/FlacBlocks.lean
    import flacblocks_tie
    flacblocks_tie.run(ctx)
    # mutagen's own MP4 ilst reader (MP4Tags.load / __parse_data / _failed_atoms) against Model/Container/Mp4Reader.lean
    import mp4file_tie
    mp4file_tie.run_reader(ctx)
    mp4file_tie.run_order(ctx)
    # the file-level compositions (Props/C01_Files, C01_OggInject, C01_Asf) rest on the container models, whose ties (incl. the
    # comparison of every saved output's tags with a real reload) run under C02/C03/C07/C08/C09
    ctx.hist.update(_hist)
    _hist.clear()
    if R.save_errors:
        ctx.notes.append("save()/set raised (outside the property: it speaks about save() that returned): " +
                         "; ".join("%s -> %s" % kv for kv in sorted(R.save_errors.items())[:12]))
    ctx.notes.append("not covered here: ID3 frame codecs beyond the frames generated (C12), container structure (C02/C03/C10/C15), "
                     "files on disk (in-memory file objects only), tags larger than %s" % ("70 KiB" if ctx.quick else "about 500 KiB (plus one 16 MiB Ogg FLAC case)"))


def search(ctx):
    old = ctx.tier; ctx.tier = "thorough"
    try:
        run(ctx)
    finally:
        ctx.tier = old


def replay(ctx, payload):
    ctx.rule = RULE
    case = payload["case"]
    R = Runner(ctx)
    R.probe_tagc2()
    if isinstance(case, dict) and "kind" in case and "tags" in case:
        R.check(case)
    else:
        run_utf8(ctx, R)
    R.flush()
    ctx.case(key="replay")
    ctx.case(key="replay2")
