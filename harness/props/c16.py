"""C16 — Tag objects behave as dictionaries with documented key rules.

Random operation sequences are run on the REAL objects (DictProxy, APEv2, VCommentDict, ID3,
MP4Tags, ASFTags, EasyID3, EasyMP4Tags, FileType proxies) and, step by step, on a plain Python
reference dictionary written here (dict keyed by the normalised key + the documented error
classes; it never calls mutagen).  After every step: returned value, exception class, keys(),
len() and the full items are compared.  Easy views are also compared with the native tags they
wrap.  For the three stores that have a Lean model (proxy / ci / vc) the same sequence goes to
the Lean driver (command `dict`, see lean/Driver/Dict.lean) and every output is compared.

Values and keys travel as JSON-able *specs* (["s","x"], ["b","00ff"], ["i",3], ["n"], ["l",[…]],
["frame",fid,kwargs,uid] …) so that failing sequences can be shrunk, stored and replayed.
"""
import io, os, re, json, copy, glob, shlex, fnmatch, subprocess, collections
from vcheck import parse_fields

RULE = ("operation sequences (get, set, del, in, keys, values, items, len, clear, pop with/without default, popitem, update "
        "from dict/pairs/kwargs, setdefault, get-with-default; for ID3 also add/getall/setall/delall) of length <= 40 (quick) / "
        "<= 200 (thorough) over, per object kind, a key universe with case variants, invalid keys (empty, one char, non-ASCII, "
        "OggS/ID3/TAG/MP+, '=', 0x7E/0x7F, 255/256/300 chars, non-str keys, unhashable keys) and every registered Easy key and "
        "instantiated Easy key pattern, with values of accepted and rejected types; 16 object kinds: DictProxy, APEv2, "
        "VCommentDict, ID3 (str keys / non-str keys), MP4Tags, ASFTags, EasyID3 (exact keys / performer:* / replaygain_* / glob keys with case variants), EasyMP4Tags, FLAC proxy (with tags / tags None), "
        "MP3 proxy (with tags / tags None). A case = one sequence on one kind; non-trivial = at least one "
        "state-changing operation succeeded and at least one operation raised; distinct by (kind, op-name sequence, number of "
        "distinct keys)")

DATA = "/repo/tests/data"


class Exp(Exception):
    """the reference expects an exception of one of these classes"""
    def __init__(self, *classes):
        Exception.__init__(self, *classes)
        self.classes = set(classes)


class _Tok(object):
    def __init__(self, n): self.n = n
    def __repr__(self): return self.n


UNSPEC = _Tok("UNSPEC")    # the documentation does not say whether the value is accepted / what is stored
DELETE = _Tok("DELETE")    # "no values": the key is removed
ANY = _Tok("ANY")
NOTOK = _Tok("NOTOK")


def hk(c):
    return json.dumps(c, sort_keys=True)


# ---------------------------------------------------------------------------------------
# specs <-> Python values

class Env(object):
    """per-run table of identity-carrying objects (ID3 frames)"""
    def __init__(self):
        self.frames = {}
        self.keep = []

    def frame(self, spec):
        import mutagen.id3
        cls = getattr(mutagen.id3, spec[1])
        f = cls(**spec[2])
        self.frames[id(f)] = spec[3]
        self.keep.append(f)
        return f


def mk(spec, env):
    t = spec[0]
    if t == "s": return spec[1]
    if t == "b": return bytes.fromhex(spec[1])
    if t == "i": return int(spec[1])
    if t == "n": return None
    if t == "B": return bool(spec[1])
    if t == "f": return float(spec[1])
    if t == "l": return [mk(x, env) for x in spec[1]]
    if t == "t": return tuple(mk(x, env) for x in spec[1])
    if t == "frame": return env.frame(spec)
    if t == "apev":
        from mutagen.apev2 import APEValue
        return APEValue(mk(spec[2], env), spec[1])
    if t == "asfv":
        import mutagen.asf
        return getattr(mutagen.asf, spec[1])(mk(spec[2], env))
    if t == "cover":
        from mutagen.mp4 import MP4Cover
        return MP4Cover(bytes.fromhex(spec[1]))
    raise ValueError("bad spec %r" % (spec,))


def canon(v, env=None):
    if v is None: return ["n"]
    if isinstance(v, bool): return ["B", v]
    if isinstance(v, int): return ["i", int(v)]
    if isinstance(v, float): return ["f", repr(v)]
    if isinstance(v, str): return ["s", str(v)]
    if isinstance(v, (bytes, bytearray)): return ["b", bytes(v).hex()]
    if isinstance(v, list): return ["l", [canon(x, env) for x in v]]
    if isinstance(v, tuple): return ["t", [canon(x, env) for x in v]]
    if isinstance(v, (set, frozenset)): return ["set", sorted((canon(x, env) for x in v), key=hk)]
    if isinstance(v, dict): return ["d", sorted(([canon(k, env), canon(x, env)] for k, x in v.items()), key=hk)]
    from mutagen.apev2 import _APEValue
    if isinstance(v, _APEValue): return ["apev", v.kind, canon(v.value, env)]
    from mutagen.asf._attrs import ASFBaseAttribute
    if isinstance(v, ASFBaseAttribute): return ["asfv", type(v).__name__, canon(v.value, env)]
    from mutagen.id3 import Frame
    if isinstance(v, Frame):
        uid = env.frames.get(id(v)) if env is not None else None
        return ["frame", uid] if uid is not None else ["frame?", type(v).__name__, repr(v)]
    return ["o", repr(v)]


def canon_spec(spec):
    """canonical form of the value a spec denotes (frames keep only their uid)"""
    t = spec[0]
    if t in ("l", "t"): return [t, [canon_spec(x) for x in spec[1]]]
    if t == "frame": return ["frame", spec[3]]
    if t == "apev": return ["apev", spec[1], canon_spec(spec[2])]
    if t == "asfv": return ["asfv", spec[1], canon_spec(spec[2])]
    if t == "cover": return ["b", spec[1]]
    if t == "B": return ["B", bool(spec[1])]
    return list(spec)


def exc_class(e):
    for c in (KeyError, ValueError, TypeError, AttributeError, IndexError, AssertionError, RuntimeError):
        if isinstance(e, c):
            return c.__name__
    return type(e).__name__


# ---------------------------------------------------------------------------------------
# the reference dictionary

class Ref(object):
    def __init__(self):
        self.d = {}        # hk(normalised key) -> stored canonical value   (insertion ordered)
        self.key = {}      # hk -> normalised key
        self.spell = {}    # hk -> key as last set

    def copy(self):
        r = Ref(); r.d = dict(self.d); r.key = dict(self.key); r.spell = dict(self.spell)
        return r

    def put(self, nk, val, spelled):
        h = hk(nk)
        self.d[h] = val; self.key[h] = nk; self.spell[h] = spelled

    def drop(self, nk):
        h = hk(nk)
        self.d.pop(h, None); self.key.pop(h, None); self.spell.pop(h, None)


class Policy(object):
    """documented key / value rules of one object kind"""
    list_backed = False          # the object is a Python list of pairs: len() counts values, pop is list.pop
    unspec_errors = ("TypeError", "ValueError")

    def norm(self, k, op):       # k: key spec -> normalised key (canonical); raises Exp
        return canon_spec(k)

    def coerce(self, nk, v, k):  # v: value spec -> stored canonical | DELETE | UNSPEC; raises Exp
        return canon_spec(v)

    def show(self, nk, spelled):  # how keys() shows the key
        return nk

    def length(self, ref):
        if self.list_backed:
            return sum(len(v[1]) for v in ref.d.values())
        return len(ref.d)

    def hashable(self, k):
        t = k[0]
        if t in ("l", "d", "set"): return False
        if t == "t": return all(self.hashable(x) for x in k[1])
        return True


class Expect(object):
    def __init__(self, ok=NOTOK, err=(), adopt=False):
        self.ok = ok; self.err = set(err); self.adopt = adopt


def ref_apply(ref, pol, op):
    """apply `op` to the reference; returns an Expect.  Python dict semantics only."""
    name = op[0]

    def norm(k, o):
        if not pol.hashable(k):
            raise Exp("TypeError")
        return pol.norm(k, o)

    def do_set(k, v):
        nk = norm(k, "set")
        c = pol.coerce(nk, v, k)
        if c is UNSPEC:
            return UNSPEC
        if c is DELETE:
            ref.drop(nk)
        else:
            ref.put(nk, c, canon_spec(k))
        return None
    try:
        if name == "get":
            nk = norm(op[1], "get")
            if hk(nk) in ref.d: return Expect(ok=ref.d[hk(nk)])
            raise Exp("KeyError")
        if name == "set":
            if do_set(op[1], op[2]) is UNSPEC:
                return Expect(ok=ANY, err=pol.unspec_errors, adopt=True)
            return Expect(ok=["n"])
        if name == "del":
            nk = norm(op[1], "del")
            if hk(nk) not in ref.d: raise Exp("KeyError")
            ref.drop(nk)
            return Expect(ok=["n"])
        if name in ("in", "getd", "popd"):
            absent = ["B", False] if name == "in" else None
            try:
                nk = norm(op[1], "get")
            except Exp as e:
                dflt = absent if name == "in" else canon_spec(op[2])
                if e.classes == {"KeyError"}:
                    return Expect(ok=dflt)
                if "KeyError" in e.classes:
                    return Expect(ok=dflt, err=e.classes - {"KeyError"})
                raise
            h = hk(nk)
            if name == "in":
                return Expect(ok=["B", h in ref.d])
            if h in ref.d:
                val = ref.d[h]
                if name == "popd": ref.drop(nk)
                return Expect(ok=val)
            return Expect(ok=canon_spec(op[2]))
        if name == "pop":
            nk = norm(op[1], "get")
            h = hk(nk)
            if h not in ref.d: raise Exp("KeyError")
            val = ref.d[h]; ref.drop(nk)
            return Expect(ok=val)
        if name == "setd":
            nk = norm(op[1], "get")
            h = hk(nk)
            if h in ref.d: return Expect(ok=ref.d[h])
            if do_set(op[1], op[2]) is UNSPEC:
                return Expect(ok=ANY, err=pol.unspec_errors, adopt=True)
            return Expect(ok=canon_spec(op[2]))
        if name == "upd":       # pairs are set one by one; the first raising pair stops the loop, earlier ones stay
            for k, v in op[1]:
                if do_set(k, v) is UNSPEC:
                    # accepted or rejected here, and any later pair may raise its own documented error
                    return Expect(ok=ANY, err=("KeyError", "TypeError", "ValueError"), adopt=True)
            return Expect(ok=["n"])
        if name == "clear":
            ref.d.clear(); ref.key.clear(); ref.spell.clear()
            return Expect(ok=["n"])
        if name == "keys":
            return Expect(ok=["keys", sorted((pol.show(ref.key[h], ref.spell[h]) for h in ref.d), key=hk)])
        if name == "len":
            return Expect(ok=["i", pol.length(ref)])
        if name == "items":
            return Expect(ok=["items", sorted(([pol.show(ref.key[h], ref.spell[h]), ref.d[h]] for h in ref.d), key=hk)])
        if name == "values":
            return Expect(ok=["values", sorted((ref.d[h] for h in ref.d), key=hk)])
        if name == "popitem":
            return Expect(ok=ANY, err=("KeyError",) if not ref.d else ())   # angelic, finished by the caller
    except Exp as e:
        return Expect(err=e.classes)
    raise ValueError("unknown op %r" % (op,))


# ---------------------------------------------------------------------------------------
# object kinds

def S(x): return ["s", x]
def L(*xs): return ["l", list(xs)]


class Kind(object):
    name = "?"
    policy = Policy()
    modelled = None            # driver kind for proxy / ci / vc
    ops = ("get", "set", "del", "in", "keys", "values", "items", "len", "clear", "pop", "popd", "popitem", "upd",
           "setd", "getd")
    extra_ops = ()
    weights = None

    def make(self, env):
        raise NotImplementedError

    def do(self, obj, op, env):
        """run one op on the real object; returns the raw Python result"""
        n = op[0]
        if n == "get": return obj[mk(op[1], env)]
        if n == "set":
            obj[mk(op[1], env)] = mk(op[2], env); return None
        if n == "del":
            del obj[mk(op[1], env)]; return None
        if n == "in": return mk(op[1], env) in obj
        if n == "keys": return _Keys(list(obj.keys()))
        if n == "values": return _Values(list(obj.values()))
        if n == "items": return _Items(list(obj.items()))
        if n == "len": return len(obj)
        if n == "clear": return obj.clear()
        if n == "pop": return obj.pop(mk(op[1], env))
        if n == "popd": return obj.pop(mk(op[1], env), mk(op[2], env))
        if n == "popitem": return _Item(obj.popitem())
        if n == "setd": return obj.setdefault(mk(op[1], env), mk(op[2], env))
        if n == "getd": return obj.get(mk(op[1], env), mk(op[2], env))
        if n == "upd":
            pairs = [(mk(k, env), mk(v, env)) for k, v in op[1]]
            mode = op[2]
            if mode == "dict": return obj.update(dict(pairs))
            if mode == "kw": return obj.update(**dict(pairs))
            return obj.update(pairs)
        raise ValueError(n)

    def keys_universe(self, rng): return []
    def values_universe(self, rng): return []
    def init_ref(self, obj, env): return Ref()
    def after_step(self, run, op, before): return []        # extra consistency laws: list of (law, what)
    def snapshot(self, obj, env): return None


class _Keys(list): pass
class _Values(list): pass
class _Items(list): pass
class _Item(tuple): pass


# ---- DictProxy

class ProxyPolicy(Policy):
    pass


STR_KEYS = ["title", "Title", "TITLE", "artist", "a", "", "k=v", "a~", "a\x7f", "été", "x" * 255, "x" * 256,
            "OggS", "ID3", "\U0001f3b5", " sp ace ", "title\n", "\ntitle", "a\x00b"]
WILD_KEYS = [["i", 3], ["i", 0], ["n"], ["b", "6162"], ["t", [["s", "a"], ["i", 1]]], ["l", [["s", "a"]]]]
ATOMS = [S("x"), S(""), S("é"), S("a\x00b"), ["b", "00ff"], ["b", ""], ["i", 3], ["i", -1], ["n"]]
LISTS = [L(), L(S("x")), L(S("x"), S("y")), L(S("x"), S("x")), L(S("x"), ["i", 3]), L(["b", "41"]), L(["n"])]
WILD_VALUES = [["f", "1.5"], ["B", True], ["t", [S("a"), S("b")]], L(L(S("n"))), ["i", 2 ** 40]]


class ProxyKind(Kind):
    name = "DictProxy"; policy = ProxyPolicy(); modelled = "proxy"

    def make(self, env):
        from mutagen._util import DictProxy
        return DictProxy()

    def keys_universe(self, rng): return [S(k) for k in STR_KEYS]
    def wild_keys(self): return WILD_KEYS
    def values_universe(self, rng): return ATOMS + LISTS
    def wild_values(self): return WILD_VALUES


# ---- APEv2

class ApePolicy(Policy):
    def norm(self, k, op):
        if k[0] != "s": raise Exp("TypeError")
        s = k[1]
        ok = (2 <= len(s) <= 255 and all(" " <= c <= "~" for c in s) and s not in ("OggS", "TAG", "ID3", "MP+"))
        if not ok: raise Exp("KeyError")
        return S(s.lower())

    def coerce(self, nk, v, k):
        t = v[0]
        if t == "s": return ["apev", 0, S(v[1])]
        if t == "l":
            if all(x[0] == "s" for x in v[1]):
                return ["apev", 0, S("\0".join(x[1] for x in v[1]))]
            raise Exp("TypeError")
        if t == "b": return ["apev", 1, ["b", v[1]]]
        if t == "apev": return canon_spec(v)
        raise Exp("TypeError")

    def show(self, nk, spelled): return spelled


APE_KEYS = ["Title", "TITLE", "title", "Artist", "artist", "ab", "AB", "T", "", "OggS", "oggs", "ID3", "id3", "TAG", "MP+",
            "a~", "a\x7f", "k=v", "éé", "x" * 255, "X" * 255, "x" * 256, "a\x1fb", "  ", "Title\n", "\nTitle", "ab\x00", "ab\r"]


class ApeKind(Kind):
    name = "APEv2"; policy = ApePolicy(); modelled = "ci"

    def make(self, env):
        from mutagen.apev2 import APEv2
        return APEv2()

    def keys_universe(self, rng): return [S(k) for k in APE_KEYS]
    def wild_keys(self): return WILD_KEYS
    def values_universe(self, rng): return ATOMS + LISTS
    def wild_values(self):
        return WILD_VALUES + [["apev", 2, S("http://x")], ["apev", 0, S("q")], ["apev", 1, ["b", "00"]]]


# ---- VCommentDict

class VcPolicy(Policy):
    list_backed = True

    def norm(self, k, op):
        if k[0] != "s": raise Exp("TypeError")
        s = k[1]
        if not s or not all(" " <= c <= "}" and c != "=" for c in s): raise Exp("ValueError")
        return S(s.lower())

    def coerce(self, nk, v, k):
        c = canon_spec(v)
        items = c[1] if c[0] == "l" else [c]
        return ["l", items] if items else DELETE


VC_KEYS = ["title", "TITLE", "Title", "artist", "a", "", "k=v", "=", "a~", "a}", "a\x7f", "é", "x" * 300, " sp ace ",
           "a\x1f", "ID3", "title\n", "\ntitle", "ti\ntle", "a\r", "a\t", "a\x00", "title\r\n", "\x7ftitle"]


class VcKind(Kind):
    name = "VCommentDict"; policy = VcPolicy(); modelled = "vc"

    def make(self, env):
        from mutagen._vorbis import VCommentDict
        return VCommentDict()

    def keys_universe(self, rng): return [S(k) for k in VC_KEYS]
    def wild_keys(self): return WILD_KEYS[:5]      # an unhashable key is a TypeError from is_valid_key too
    def values_universe(self, rng): return ATOMS + LISTS
    def wild_values(self): return WILD_VALUES


# ---- ID3

FRAME_SPECS = [
    ("TIT2", {"encoding": 3, "text": ["a title"]}, "TIT2"),
    ("TIT2", {"encoding": 3, "text": ["other"]}, "TIT2"),
    ("TPE1", {"encoding": 3, "text": ["x", "y"]}, "TPE1"),
    ("TXXX", {"encoding": 3, "desc": "d1", "text": ["v"]}, "TXXX:d1"),
    ("TXXX", {"encoding": 3, "desc": "D1", "text": ["w"]}, "TXXX:D1"),
    ("TXXX", {"encoding": 3, "desc": "", "text": ["e"]}, "TXXX:"),
    ("COMM", {"encoding": 3, "lang": "eng", "desc": "c", "text": ["t"]}, "COMM:c:eng"),
    ("COMM", {"encoding": 3, "lang": "deu", "desc": "c", "text": ["t"]}, "COMM:c:deu"),
    ("COMM", {"encoding": 3, "lang": "eng", "desc": "c:x", "text": ["t"]}, "COMM:c:x:eng"),
    ("POPM", {"email": "a@b", "rating": 3, "count": 1}, "POPM:a@b"),
    ("UFID", {"owner": "o", "data": b"d"}, "UFID:o"),
    ("WXXX", {"encoding": 3, "desc": "w", "url": "http://x"}, "WXXX:w"),
    ("USLT", {"encoding": 3, "lang": "eng", "desc": "l", "text": "lyr"}, "USLT:l:eng"),
    ("RVA2", {"desc": "album", "channel": 1, "gain": 1.0, "peak": 0.5}, "RVA2:album"),
    ("APIC", {"encoding": 3, "mime": "image/png", "type": 3, "desc": "p", "data": b"\x89PNG"}, "APIC:p"),
]


def _jsonable_kwargs(kw):
    return {k: (["b", v.hex()] if isinstance(v, bytes) else v) for k, v in kw.items()}


class Id3Env(Env):
    def frame(self, spec):
        import mutagen.id3
        kw = {k: (bytes.fromhex(v[1]) if isinstance(v, list) and v and v[0] == "b" else v) for k, v in spec[2].items()}
        f = getattr(mutagen.id3, spec[1])(**kw)
        self.frames[id(f)] = spec[3]
        self.keep.append(f)
        return f


class Id3Policy(Policy):
    def coerce(self, nk, v, k):
        if v[0] != "frame": raise Exp("TypeError")
        return ["frame", v[3]]


ID3_KEYS = ["TIT2", "tit2", "TPE1", "TXXX", "TXXX:d1", "TXXX:D1", "TXXX:", "COMM", "COMM:c", "COMM:c:eng", "COMM:c:deu",
            "COMM:c:x:eng", "POPM:a@b", "POPM", "UFID:o", "WXXX:w", "USLT:l:eng", "RVA2:album", "RVA2", "APIC:p", "APIC",
            "foo", "", "T"]


class Id3Kind(Kind):
    name = "ID3"; policy = Id3Policy()
    extra_ops = ("add", "getall", "setall", "delall")
    uid = [0]

    def make(self, env):
        from mutagen.id3 import ID3
        return ID3()

    def new_env(self): return Id3Env()
    def keys_universe(self, rng): return [S(k) for k in ID3_KEYS]
    def wild_keys(self): return [["l", [["s", "a"]]]]

    def frame_spec(self, rng):
        fid, kw, hkey = rng.choice(FRAME_SPECS)
        self.uid[0] += 1
        return ["frame", fid, _jsonable_kwargs(kw), "f%d:%s" % (self.uid[0], hkey)]

    def values_universe(self, rng): return [self.frame_spec(rng) for _ in range(6)]
    def wild_values(self): return [S("x"), ["n"], ["i", 3], L(S("x")), ["b", "00"]]

    def do(self, obj, op, env):
        n = op[0]
        if n == "add": return obj.add(mk(op[1], env))
        if n == "getall": return _Values(obj.getall(mk(op[1], env)))
        if n == "delall": return obj.delall(mk(op[1], env))
        if n == "setall": return obj.setall(mk(op[1], env), [mk(v, env) for v in op[2]])
        return Kind.do(self, obj, op, env)

    def ref_extra(self, ref, op):
        """documented semantics of add / getall / setall / delall on a plain dict keyed by HashKey"""
        n = op[0]

        def hashkey(fs): return S(fs[3].split(":", 1)[1])

        def delall(k):
            if hk(k) in ref.d:
                ref.drop(k)
            else:
                pre = k[1] + ":"
                for h in [h for h in ref.d if ref.key[h][0] == "s" and ref.key[h][1].startswith(pre)]:
                    ref.drop(ref.key[h])
        if n == "add":
            if op[1][0] != "frame": return Expect(err=("TypeError",))
            ref.put(hashkey(op[1]), ["frame", op[1][3]], hashkey(op[1]))
            return Expect(ok=["n"])
        k = op[1]
        if n == "getall":
            if hk(k) in ref.d: return Expect(ok=["values", [ref.d[hk(k)]]])
            pre = k[1] + ":"
            return Expect(ok=["values", sorted((ref.d[h] for h in ref.d if ref.key[h][0] == "s" and
                                                ref.key[h][1].startswith(pre)), key=hk)])
        if n == "delall":
            delall(k); return Expect(ok=["n"])
        if n == "setall":
            delall(k)
            for fs in op[2]:
                ref.put(hashkey(fs), ["frame", fs[3]], hashkey(fs))
            return Expect(ok=["n"])


class Id3NonStrKind(Id3Kind):
    """ID3 with keys that are not str (ID3Tags.__setitem__ checks the value, not the key)"""
    name = "ID3:non-str-keys"

    def keys_universe(self, rng): return [S(k) for k in ID3_KEYS[:12]] + WILD_KEYS[:5]


# ---- MP4Tags

MP4_TEXT = ["\xa9nam", "\xa9alb", "\xa9ART", "aART", "\xa9wrt", "\xa9day", "\xa9cmt", "desc", "purd", "\xa9grp", "\xa9gen",
            "\xa9lyr", "purl", "egid", "catg", "keyw", "\xa9too", "cprt", "soal", "soaa", "soar", "sonm", "soco", "sosn",
            "tvsh", "\xa9wrk", "\xa9mvn"]
MP4_BOOL = ["cpil", "pgap", "pcst"]
MP4_PAIR = ["trkn", "disk"]
MP4_INT = ["tmpo", "\xa9mvc", "\xa9mvi", "shwm", "stik", "hdvd", "rtng", "tves", "tvsn", "plID", "cnID", "geID", "atID",
           "sfID", "cmID", "akID"]


class Mp4Policy(Policy):
    """from the MP4Tags docstring: text atoms take str or list of str, trkn/disk lists of int pairs, integer atoms lists of
    int, covr a list of covers, freeform bytes; what is outside these shapes is unspecified (must be accepted, or rejected
    with TypeError/ValueError leaving the tags alone)."""
    def norm(self, k, op):
        if op != "set": return canon_spec(k)
        if k[0] != "s": raise Exp("TypeError")
        try:
            k[1].encode("latin-1")
        except UnicodeEncodeError:
            raise Exp("ValueError")
        return canon_spec(k)

    def coerce(self, nk, v, k):
        name = k[1].encode("latin-1")[:4].decode("latin-1")
        c = canon_spec(v)
        t = v[0]
        if name == "gnre": raise Exp("TypeError")
        if name in MP4_BOOL: return c
        if name == "----":
            if t == "b" or (t == "l" and all(x[0] in ("b", "cover") for x in v[1])): return c
            return UNSPEC
        if name == "covr":
            if t == "l" and all(x[0] in ("b", "cover") for x in v[1]): return c
            return UNSPEC
        if name in MP4_PAIR:
            if t == "l" and all(x[0] == "t" and len(x[1]) == 2 and all(y[0] == "i" and 0 <= y[1] < 65536 for y in x[1])
                                for x in v[1]): return c
            return UNSPEC
        if name in MP4_INT:
            if t == "l" and all(x[0] == "i" and 0 <= x[1] < 128 for x in v[1]): return c
            return UNSPEC
        # text (documented text atoms and unknown atoms)
        if t == "s": return c
        if t == "l":
            if all(x[0] == "s" for x in v[1]): return c
            raise Exp("TypeError")
        if t == "t": return UNSPEC
        raise Exp("TypeError")


class Mp4Kind(Kind):
    name = "MP4Tags"; policy = Mp4Policy()

    def make(self, env):
        from mutagen.mp4 import MP4Tags
        return MP4Tags()

    def keys_universe(self, rng):
        ks = ["\xa9nam", "\xa9NAM", "aART", "purl", "XXXX", "trkn", "disk", "tmpo", "stik", "cpil", "covr",
              "----:com.apple.iTunes:foo", "----:com.apple.iTunes:FOO", "gnre", "ab", "", "abcdef", "€nam"]
        return [S(k) for k in ks]

    def wild_keys(self): return WILD_KEYS

    def values_universe(self, rng):
        return [S("x"), L(S("x"), S("y")), L(), ["b", "78"], L(["b", "78"]), ["i", 3], L(["i", 3]), L(["i", 70000]),
                L(["i", -1]), L(["t", [["i", 1], ["i", 2]]]), L(["t", [["i", 1]]]), L(["t", [["i", 70000], ["i", 1]]]),
                ["t", [["i", 1], ["i", 2]]], ["B", True], ["n"], L(["n"]), L(S("x"), ["i", 3]), L(["cover", "616263"]),
                ["f", "3.5"], L(["i", 2 ** 63])]

    def wild_values(self): return []


# ---- ASFTags

class AsfPolicy(Policy):
    list_backed = True

    def hashable(self, k): return True

    def norm(self, k, op):
        if op == "set" and not Policy.hashable(self, k): raise Exp("TypeError", "ValueError")
        return canon_spec(k)

    def coerce(self, nk, v, k):
        c = canon_spec(v)
        items = v[1] if v[0] == "l" else [v]
        out = []
        for x in items:
            t = x[0]
            if t == "asfv": out.append(canon_spec(x))
            elif t == "s": out.append(["asfv", "ASFUnicodeAttribute", canon_spec(x)])
            elif t == "b": out.append(["asfv", "ASFByteArrayAttribute", canon_spec(x)])
            elif t == "B": out.append(["asfv", "ASFBoolAttribute", canon_spec(x)])
            elif t == "i":
                if not 0 <= x[1] < 2 ** 32: raise Exp("ValueError")
                out.append(["asfv", "ASFDWordAttribute", canon_spec(x)])
            else: raise Exp("TypeError")
        return ["l", out] if out else DELETE


class AsfKind(Kind):
    name = "ASFTags"; policy = AsfPolicy()

    def make(self, env):
        from mutagen.asf import ASFTags
        return ASFTags()

    def keys_universe(self, rng): return [S(k) for k in ["Title", "title", "WM/AlbumTitle", "Author", "", "k=v", "é", "x" * 300]]
    def wild_keys(self): return [k for k in WILD_KEYS if k[0] != "i"]    # an int key would make list.pop(key) an index
    def values_universe(self, rng):
        return [S("x"), S(""), ["b", "00ff"], ["B", True], ["B", False], ["i", 3], ["i", 2 ** 40], ["i", -1], ["f", "3.5"],
                ["n"], L(S("a"), S("b")), L(), L(["n"]), L(S("a"), ["f", "3.5"]), L(S("a"), ["i", 3]),
                ["asfv", "ASFUnicodeAttribute", S("q")], ["asfv", "ASFQWordAttribute", ["i", 2 ** 40]],
                ["t", [S("a"), S("b")]], L(["i", 2 ** 40], ["n"])]

    def wild_values(self): return []


# ---- Easy views

TS_RE = re.compile(r"^\d{4}(-\d{2}(-\d{2}(T\d{2}(:\d{2}(:\d{2})?)?)?)?)?$")


def _cell(fn, name):
    """value of the free variable `name` in the closure of `fn` (None if absent)"""
    try:
        i = fn.__code__.co_freevars.index(name)
        return fn.__closure__[i].cell_contents
    except (ValueError, AttributeError, TypeError):
        return None


def _strlist(v):
    """value spec -> list of str if it is a str or a list of str, else None"""
    if v[0] == "s": return [v[1]]
    if v[0] == "l" and all(x[0] == "s" for x in v[1]): return [x[1] for x in v[1]]
    return None


class EasyPolicy(Policy):
    """keys: case-insensitive, must match an entry (exact or glob) of the class's Get/Set/Delete registry for the operation,
    else KeyError.  Values: str or list of str; what the handler kind (learnt from the registered function's name) does to
    them is written down below; anything else is unspecified."""
    unspec_errors = ("TypeError", "ValueError")

    def __init__(self, cls):
        self.cls = cls

    def registry(self, op):
        return {"get": self.cls.Get, "set": self.cls.Set, "del": self.cls.Delete}[op]

    def handler(self, key, op):
        reg = self.registry(op)
        if key in reg: return reg[key]
        for pat, fn in reg.items():
            if fnmatch.fnmatchcase(key, pat): return fn
        return None

    def norm(self, k, op):
        if k[0] != "s": raise Exp("TypeError", "KeyError")
        key = k[1].lower()
        if self.handler(key, op) is None: raise Exp("KeyError")
        return S(key)

    def coerce(self, nk, v, k):
        fn = self.handler(nk[1], "set")
        q = fn.__qualname__
        sl = _strlist(v)
        if sl is None: return UNSPEC
        out = None
        if "RegisterTextKey" in q or "RegisterTXXXKey" in q or "RegisterFreeformKey" in q:
            out = sl
        elif q == "genre_set":
            out = sl if all(re.match(r"^[A-Za-z][A-Za-z ]*$", s) and s.lower() not in ("cr", "rx") for s in sl) else None
        elif q in ("date_set", "original_date_set"):
            out = sl if all(TS_RE.match(s) for s in sl) else None
        elif q == "performer_set":
            if not sl: return DELETE
            out = sl
        elif q == "website_set":
            if not sl: return DELETE
            out = sl if len(set(sl)) == len(sl) else None
        elif q == "musicbrainz_trackid_set":
            if len(sl) != 1: raise Exp("ValueError")
            try:
                sl[0].encode("ascii")
            except UnicodeEncodeError:
                raise Exp("ValueError")
            out = sl
        elif q == "gain_set":
            if len(sl) != 1: raise Exp("ValueError")
            try:
                g = float(sl[0].split()[0])
            except (ValueError, IndexError):
                raise Exp("ValueError")
            if g != g or abs(g) >= 64: return UNSPEC
            out = ["%+f dB" % g]
        elif q == "peak_set":
            if len(sl) != 1: raise Exp("ValueError")
            try:
                p = float(sl[0])
            except ValueError:
                raise Exp("ValueError")
            if not (0 <= p < 2): raise Exp("ValueError")
            out = ["%f" % p]
        elif "RegisterIntKey" in q or "RegisterIntPairKey" in q:
            lo = _cell(fn, "min_value"); hi = _cell(fn, "max_value")
            if lo is None or hi is None: return UNSPEC
            clamp = lambda x: int(min(max(lo, x), hi))
            out = []
            for s in sl:
                try:
                    if "Pair" in q:
                        parts = s.split("/")
                        if len(parts) == 2:
                            try:
                                a, b = clamp(int(parts[0])), clamp(int(parts[1]))
                            except ValueError:
                                a, b = clamp(int(s)), lo
                        else:
                            a, b = clamp(int(s)), lo
                        out.append("%d/%d" % (a, b) if b else str(a))
                    else:
                        out.append(str(clamp(int(s))))
                except ValueError:
                    raise Exp("ValueError")
        if out is None: return UNSPEC
        return ["l", [S(s) for s in out]]


class EasyKind(Kind):
    easy_cls = None
    native_attr = None
    samples = [S("x"), S("y"), S("1"), S("2"), S("2004"), S("2005"), S("+1.000000 dB"), S("+2.000000 dB"), S("0.500000"), S("0.250000")]
    pattern_fill = ["guitar", "Album", "x y"]

    def registry_keys(self):
        cls = self.easy_cls
        keys = []
        for reg in (cls.Get, cls.Set, cls.Delete, cls.List):
            for k in reg:
                if k not in keys: keys.append(k)
        return keys

    def concrete_keys(self):
        """(key, registry entry it comes from): glob entries are instantiated"""
        out = []
        for k in self.registry_keys():
            if "*" in k:
                out.extend((k.replace("*", f), k) for f in self.pattern_fill)
                out.append((k.replace("*", ""), k))
            else:
                out.append((k, k))
        return out

    family = None        # None: the exactly registered keys; else substrings of the glob entries of this family
    companions = ("title", "artist")
    case_variants = True

    def keys_universe(self, rng):
        if self.family is None:
            ck = [k for k, pat in self.concrete_keys() if "*" not in pat]
        else:
            ck = [k for k, pat in self.concrete_keys() if "*" in pat and any(f in pat for f in self.family)]
            ck += [k for k, pat in self.concrete_keys() if k in self.companions]
        if not self.case_variants:
            ck = sorted({k.lower() for k in ck})
        pick = rng.sample(ck, min(len(ck), 8))
        out = []
        for k in pick:
            out.append(k)
            if self.case_variants:
                out.append(rng.choice([k.upper(), k.title(), k.lower(), k.swapcase()]))
        out += ["nosuchkey", "", "é", "performer", "title\x00"]
        return [S(k) for k in out]

    def wild_keys(self): return [["i", 3], ["n"], ["b", "7469746c65"]] if self.family is None else []

    def values_universe(self, rng):
        return [S("x"), S("y z"), L(S("a"), S("b")), L(), L(S("a"), S("a")), S("17"), S("2004"), S("2004-01-02"), S("garbage"),
                S("1/2"), S("3"), S("70000"), S("-5"), S("+1.5 dB"), S("0.5"), S("3.0"), S("99999 dB"), S("é"),
                L(S("1"), S("2"))]

    def wild_values(self): return [["i", 3], ["n"], ["b", "78"], L(["i", 3]), L(["n"]), ["t", [S("a"), S("b")]], L(S("a"), ["b", "62"])]

    def native(self, obj): return getattr(obj, self.native_attr)

    # -- ownership, learnt by probing a fresh object
    _owned = None

    def owned(self, key):
        """native entries the Easy key (as typed) writes, learnt by setting it on fresh objects with two different
        values: the entries both probes create are owned exactly; if the entry name depends on the value (WOAR:<url>)
        every entry with the same frame id is owned.  Returns a predicate or None."""
        if self._owned is None: self._owned = {}
        if key not in self._owned:
            got = []
            for smp in self.samples:
                env = Env()
                o = self.make(env)
                try:
                    o[key] = mk(smp, env)
                except Exception:
                    continue
                got.append(set(self.native_snapshot(o).keys()))
                if len(got) == 2: break
            if not got:
                self._owned[key] = None
            elif len(got) == 1 or got[0] == got[1]:
                self._owned[key] = (got[0], set())
            else:
                self._owned[key] = (got[0] & got[1], {k.split(":")[0] for k in got[0] ^ got[1]})
        return self._owned[key]

    def snapshot(self, obj, env): return self.native_snapshot(obj)

    def after_step(self, run, op, before):
        out = []
        obj = run.obj
        after = self.native_snapshot(obj)
        changed = {k for k in set(before) | set(after) if before.get(k) != after.get(k)}
        n = op[0]
        if n in ("get", "in", "keys", "values", "items", "len", "getd") and changed:
            out.append(("read-op-changes-native", "%s changed native entries %s" % (n, sorted(changed))))
        elif n in ("set", "del", "pop", "popd", "setd", "upd"):
            keys = [k for k, _ in op[1]] if n == "upd" else [op[1]]
            allowed = set(); prefixes = set(); known = True
            for k in keys:
                if k[0] != "s": continue
                ow = self.owned(k[1])
                if ow is None: known = False
                else:
                    allowed |= ow[0]; prefixes |= ow[1]
            foreign = {c for c in changed if c not in allowed and c.split(":")[0] not in prefixes}
            if known and foreign:
                out.append(("op-touches-foreign-native", "%s on %s changed native entries %s (owns %s)" % (
                    n, [k[1] if k[0] == "s" else k for k in keys], sorted(foreign), sorted(allowed) + sorted(p + ":*" for p in prefixes))))
        # the view is a function of the native tags: a second view over a copy shows the same
        try:
            twin = self.twin(obj)
            a = read_state(self, twin, Env())
            b = read_state(self, obj, Env())
            if a != b:
                out.append(("view-not-function-of-native", "a fresh view over a copy of the native tags differs"))
        except Exception as e:
            out.append(("view-not-function-of-native", "copying the native tags raised %s" % type(e).__name__))
        return out


class EasyId3Kind(EasyKind):
    name = "EasyID3"; native_attr = "_EasyID3__id3"

    @property
    def easy_cls(self):
        from mutagen.easyid3 import EasyID3
        return EasyID3

    @property
    def policy(self): return EasyPolicy(self.easy_cls)

    def make(self, env):
        return self.easy_cls()

    def native_snapshot(self, obj):
        return {k: repr(v) for k, v in self.native(obj).items()}

    def twin(self, obj):
        t = self.easy_cls()
        nat = self.native(t)
        for k, f in self.native(obj).items():
            dict.__setitem__(nat.__dict__["_DictProxy__dict"], k, copy.deepcopy(f))
        return t


class EasyId3PerformerKind(EasyId3Kind):
    """glob entry performer:*, roles in lower case only"""
    name = "EasyID3:performer"; family = ("performer",); case_variants = False


class EasyId3GainKind(EasyId3Kind):
    """glob entries replaygain_*_gain / replaygain_*_peak, names in lower case only"""
    name = "EasyID3:replaygain"; family = ("replaygain",); case_variants = False

    def values_universe(self, rng):
        return [S("+1.5 dB"), S("0.5"), S("0"), S("0.0"), S("-3 dB"), S("1.999"), S("3.0"), S("x"), L(S("1"), S("2")), L(),
                S("99999 dB"), S("0.25")]


class EasyId3GlobCaseKind(EasyId3Kind):
    """keys matching a glob entry, with case variants of the part matched by `*`"""
    name = "EasyID3:glob-case"; family = ("performer", "replaygain")


class EasyRoleTypedPolicy(EasyPolicy):
    """the normalisation EasyID3 really applies to performer:* keys: the fixed part is case-insensitive, the role is
    kept as typed (the deviation from the documented case-insensitivity is the open finding easyid3-glob-case, observed
    through the kind EasyID3:glob-case; this policy lets every other mapping law be checked for typed roles)"""
    def norm(self, k, op):
        if k[0] != "s": raise Exp("TypeError", "KeyError")
        low = k[1].lower()
        if self.handler(low, op) is None: raise Exp("KeyError")
        if low.startswith("performer:"):
            return S("performer:" + k[1][len("performer:"):])
        return S(low)

    def handler(self, key, op):
        return EasyPolicy.handler(self, key.lower(), op)


class EasyId3RoleTypedKind(EasyId3Kind):
    """performer:<Role> keys with roles in mixed case, under the normalisation the code really applies"""
    name = "EasyID3:performer-roles"; family = ("performer",)

    @property
    def policy(self): return EasyRoleTypedPolicy(self.easy_cls)

    def keys_universe(self, rng):
        roles = ["Guitar", "guitar", "GUITAR", "x Y", "Album", ""]
        out = []
        for r in rng.sample(roles, 4):
            out.append(rng.choice(["performer:", "PERFORMER:", "Performer:"]) + r)
        out += ["title", "TITLE", "artist", "nosuchkey", "performer"]
        return [S(k) for k in out]


class EasyMp4Kind(EasyKind):
    name = "EasyMP4Tags"; native_attr = "_EasyMP4Tags__mp4"

    @property
    def easy_cls(self):
        from mutagen.easymp4 import EasyMP4Tags
        return EasyMP4Tags

    @property
    def policy(self): return EasyPolicy(self.easy_cls)

    def make(self, env):
        return self.easy_cls()

    def native_snapshot(self, obj):
        return {k: hk(canon(v)) for k, v in self.native(obj).items()}

    def twin(self, obj):
        t = self.easy_cls()
        nat = self.native(t)
        for k, v in self.native(obj).items():
            nat[k] = copy.deepcopy(v)
        return t


# ---- FileType proxies

class ProxyFileKind(Kind):
    """a FileType forwards the dictionary interface to .tags (DictMixin over the four forwarded primitives)"""
    sample = None
    loader = None
    inner = None       # Kind of the tags object

    def make(self, env):
        data = open(os.path.join(DATA, self.sample), "rb").read()
        return self.loader()(io.BytesIO(data))

    def keys_universe(self, rng): return self.inner.keys_universe(rng)
    def wild_keys(self): return self.inner.wild_keys()
    def values_universe(self, rng): return self.inner.values_universe(rng)
    def wild_values(self): return self.inner.wild_values()
    def new_env(self): return self.inner.new_env() if hasattr(self.inner, "new_env") else Env()

    def init_ref(self, obj, env):
        """the loaded tags are the initial state (an input, read once)"""
        ref = Ref()
        if obj.tags is not None:
            for k in obj.tags.keys():
                nk = self.policy.norm(canon(k), "get")
                ref.put(nk, canon(obj.tags[k], env), canon(k))
        return ref

    def pre_expect(self, run, op):
        """FileType with tags None (documented): lookups raise KeyError whatever the key, keys() is empty"""
        if run.obj.tags is not None: return None
        n = op[0]
        if n in ("get", "del", "pop"): return Expect(err=("KeyError",))
        if n == "in": return Expect(ok=["B", False])
        if n in ("getd", "popd"): return Expect(ok=canon_spec(op[2]))
        return None

    def after_step(self, run, op, before):
        obj = run.obj
        out = []
        try:
            if obj.tags is None:
                if list(obj.keys()) != []:
                    out.append(("proxy-differs-from-tags", "tags is None but keys() is not empty"))
            else:
                a = sorted(hk(canon(k)) for k in obj.keys()); b = sorted(hk(canon(k)) for k in obj.tags.keys())
                if a != b:
                    out.append(("proxy-differs-from-tags", "keys() of the file and of its tags differ"))
                else:
                    for k in obj.tags.keys():
                        if hk(canon(obj[k], run.env)) != hk(canon(obj.tags[k], run.env)):
                            out.append(("proxy-differs-from-tags", "file[k] != file.tags[k]")); break
        except Exception as e:
            out.append(("proxy-differs-from-tags", "reading through the proxy raised %s" % type(e).__name__))
        return out


class FlacPolicy(VcPolicy):
    list_backed = False      # FileType is not a list: len() = number of keys, pop = DictMixin.pop


def _flac():
    from mutagen.flac import FLAC
    return FLAC


def _mp3():
    from mutagen.mp3 import MP3
    return MP3


class FlacKind(ProxyFileKind):
    name = "FLAC-proxy"; sample = "silence-44-s.flac"; loader = staticmethod(_flac); inner = VcKind(); policy = FlacPolicy()


class FlacNoTagsKind(ProxyFileKind):
    name = "FLAC-proxy:no-tags"; sample = "no-tags.flac"; loader = staticmethod(_flac); inner = VcKind(); policy = FlacPolicy()


class Mp3Kind(ProxyFileKind):
    name = "MP3-proxy"; sample = "silence-44-s.mp3"; loader = staticmethod(_mp3); inner = Id3Kind(); policy = Id3Policy()

    def init_ref(self, obj, env):
        ref = Ref()
        if obj.tags is not None:
            for k in obj.tags.keys():
                f = obj.tags[k]
                env.frames[id(f)] = "loaded:" + k
                ref.put(S(k), ["frame", "loaded:" + k], S(k))
        return ref


class Mp3NoTagsKind(Mp3Kind):
    name = "MP3-proxy:no-tags"; sample = "no-tags.mp3"


KINDS = [ProxyKind(), ApeKind(), VcKind(), Id3Kind(), Id3NonStrKind(), Mp4Kind(), AsfKind(), EasyId3Kind(), EasyId3PerformerKind(),
         EasyId3GainKind(), EasyId3GlobCaseKind(), EasyId3RoleTypedKind(), EasyMp4Kind(),
         FlacKind(), FlacNoTagsKind(), Mp3Kind(), Mp3NoTagsKind()]
KIND_BY_NAME = {k.name: k for k in KINDS}


# ---------------------------------------------------------------------------------------
# running a sequence

def read_state(kind, obj, env):
    """keys(), len() and every item of the real object: (sorted shown keys, len, {hk(normalised key): value})"""
    pol = kind.policy
    keys = list(obj.keys())
    items = {}
    shown = []
    for k in keys:
        ck = canon(k, env)
        shown.append(ck)
        try:
            nk = pol.norm(ck, "get")
        except Exp:
            nk = ["invalid", ck]
        items[hk(nk)] = canon(obj[k], env)
    return sorted(shown, key=hk), len(obj), items


def ref_state(kind, ref):
    pol = kind.policy
    shown = sorted((pol.show(ref.key[h], ref.spell[h]) for h in ref.d), key=hk)
    return shown, pol.length(ref), dict(ref.d)


def opname(op):
    return op[0]


OPCLASS = {"get": "get", "getd": "get", "in": "get", "keys": "keys", "values": "keys", "items": "keys", "len": "keys",
           "set": "set", "setd": "set", "upd": "set", "add": "set", "setall": "delall", "del": "del", "pop": "del",
           "popd": "del", "popitem": "popitem", "clear": "clear", "getall": "getall", "delall": "delall"}


def op_keys(kind, op):
    """normalised keys the operation is about"""
    pol = kind.policy
    ks = []
    if op[0] == "upd": ks = [k for k, _ in op[1]]
    elif op[0] == "setall": ks = [op[1]] + [S(f[3].split(":", 1)[1]) for f in op[2]]
    elif op[0] == "add": ks = [S(op[1][3].split(":", 1)[1])] if op[1][0] == "frame" else []
    elif len(op) > 1 and op[0] not in ("keys", "values", "items", "len", "clear", "popitem"): ks = [op[1]]
    out = set()
    for k in ks:
        try:
            out.add(hk(pol.norm(k, "get")))
        except Exp:
            pass
    return out


class Run(object):
    def __init__(self, kind):
        self.kind = kind
        self.env = kind.new_env() if hasattr(kind, "new_env") else Env()
        self.obj = kind.make(self.env)
        self.ref = kind.init_ref(self.obj, self.env)
        self.outs = []          # (status, canonical) per op, for the driver comparison
        self.changed = 0; self.raised = 0

    def step(self, op):
        """returns a list of (law, what)"""
        kind = self.kind; pol = kind.policy; env = self.env
        viol = []
        n = opname(op); oc = OPCLASS[n]
        before_ref = self.ref.copy()
        try:
            before_real = read_state(kind, self.obj, env)
        except Exception as e:
            return [("state-unreadable", "keys()/len()/getitem raised %s before %s" % (type(e).__name__, n))], True
        snap = kind.snapshot(self.obj, env)
        if n in getattr(kind, "extra_ops", ()) and hasattr(kind, "ref_extra"):
            exp = kind.ref_extra(self.ref, op)
        elif n in ("add", "getall", "setall", "delall"):
            exp = kind.inner.ref_extra(self.ref, op)
        else:
            exp = None
            if hasattr(kind, "pre_expect"):
                exp = kind.pre_expect(self, op)
            if exp is None:
                exp = ref_apply(self.ref, pol, op)
        # list-backed objects: pop is list.pop
        if pol.list_backed and n in ("pop", "popd"):
            self.ref = before_ref.copy(); exp = Expect(err=("TypeError",))
        if pol.list_backed and n == "popitem":
            exp = Expect(err=("TypeError",) if self.ref.d else ("KeyError",))
        try:
            raw = kind.do(self.obj, op, env)
            got = ("ok", raw)
        except Exception as e:
            got = ("err", exc_class(e))
        # ---- outcome
        if got[0] == "err":
            self.raised += 1
            self.outs.append(("err", got[1]))
            if got[1] not in exp.err:
                if exp.ok is NOTOK:
                    viol.append(("%s-raises-%s" % (oc, got[1]), "%s raised %s, documented: %s" % (n, got[1], "/".join(sorted(exp.err)))))
                else:
                    viol.append(("%s-raises-%s" % (oc, got[1]), "%s raised %s where the dictionary model returns a value" % (n, got[1])))
            if n != "upd":
                self.ref = before_ref      # a raising operation leaves the dictionary as it was
            # (update() keeps the pairs set before the raising one: ref_apply stopped at the same pair)
        else:
            c = self.canon_out(op, got[1])
            self.outs.append(("ok", c))
            if n == "popitem" and not (pol.list_backed):
                if not self.ref.d:
                    viol.append(("popitem-no-KeyError", "popitem on an empty dictionary returned"))
                else:
                    k, v = c[1], c[2]
                    try:
                        nk = pol.norm(k, "get")
                    except Exp:
                        nk = None
                    if nk is None or hk(nk) not in self.ref.d or hk(self.ref.d[hk(nk)]) != hk(v):
                        viol.append(("popitem-returns-wrong-item", "popitem returned an item that is not in the dictionary"))
                    else:
                        self.ref.drop(nk)
            elif exp.ok is NOTOK:
                viol.append(("%s-no-%s" % (oc, "-or-".join(sorted(exp.err))), "%s succeeded, documented: %s" % (n, "/".join(sorted(exp.err)))))
                if n != "upd": self.ref = before_ref
            elif exp.ok is not ANY and hk(exp.ok) != hk(c):
                viol.append(("%s-returns-wrong-value" % oc, "%s returned %s, the dictionary model %s" % (n, short(c), short(exp.ok))))
        # ---- state
        try:
            real = read_state(kind, self.obj, env)
        except Exception as e:
            viol.append(("state-unreadable", "keys()/len()/getitem raised %s after %s" % (type(e).__name__, n)))
            return viol, True
        if exp.adopt and (got[0] == "ok" or n == "upd"):
            self.adopt(real)
        want = ref_state(kind, self.ref)
        if real != before_real: self.changed += 1
        if got[0] == "err" and real != before_real and not (n == "upd"):
            viol.append(("state-changed-on-error", "%s raised %s but keys()/items changed" % (n, got[1])))
            self.adopt(real)
        elif real != want:
            viol.append(self.classify(op, want, real))
            self.adopt(real)
        for law, what in kind.after_step(self, op, snap) if snap is not None or isinstance(kind, ProxyFileKind) else []:
            viol.append((law, what))
        return viol, False

    def adopt(self, real):
        """resynchronise the reference with what the object now holds"""
        shown, _, items = real
        pol = self.kind.policy
        ref = Ref()
        for ck in shown:
            try:
                nk = pol.norm(ck, "get")
            except Exp:
                nk = ["invalid", ck]
            ref.put(nk, items[hk(nk)], ck)
        # keep insertion order of surviving keys as far as possible
        self.ref = ref

    def canon_out(self, op, raw):
        env = self.env
        if isinstance(raw, _Keys): return ["keys", sorted((canon(k, env) for k in raw), key=hk)]
        if isinstance(raw, _Values): return ["values", sorted((canon(v, env) for v in raw), key=hk)]
        if isinstance(raw, _Items): return ["items", sorted(([canon(k, env), canon(v, env)] for k, v in raw), key=hk)]
        if isinstance(raw, _Item): return ["item", canon(raw[0], env), canon(raw[1], env)]
        return canon(raw, env)

    def classify(self, op, want, real):
        n = OPCLASS[opname(op)]
        wshown, wlen, witems = want
        rshown, rlen, ritems = real
        mine = op_keys(self.kind, op)
        extra = set(ritems) - set(witems); missing = set(witems) - set(ritems)
        diff = {h for h in set(ritems) & set(witems) if hk(ritems[h]) != hk(witems[h])}
        if not (extra or missing or diff):
            if rshown != wshown:
                return ("keys-spelling", "after %s keys() shows %s, expected %s" % (n, short(rshown), short(wshown)))
            if rlen != wlen:
                return ("len-mismatch", "after %s len() is %d, the dictionary model has %d" % (n, rlen, wlen))
            return ("state-mismatch", "after %s" % n)
        foreign = (extra | missing | diff) - mine
        if foreign:
            h = sorted(foreign)[0]
            how = "appeared" if h in extra else "vanished" if h in missing else "changed value"
            return ("%s-changes-other-key" % n, "after %s on %s the key %s %s" % (n, short([json.loads(m) for m in sorted(mine)]), h, how))
        h = sorted(extra | missing | diff)[0]
        if n in ("del", "delall", "popitem", "clear") and h in extra:
            return ("%s-leaves-key" % n, "after %s the key %s is still there with value %s" % (n, h, short(ritems[h])))
        if h in missing:
            return ("%s-key-missing" % n, "after %s the key %s is absent, expected %s" % (n, h, short(witems[h])))
        if h in diff:
            return ("%s-then-get-differs" % n, "after %s the key %s reads %s, expected %s" % (n, h, short(ritems[h]), short(witems[h])))
        return ("%s-adds-key" % n, "after %s the key %s is present with %s" % (n, h, short(ritems[h])))


def short(c):
    s = json.dumps(c, ensure_ascii=True)
    return s if len(s) <= 160 else s[:157] + "..."


def run_sequence(kind, ops, want_law=None):
    """run `ops` on a fresh object; returns (violations [(law, what, index)], run)"""
    run = Run(kind)
    out = []
    for i, op in enumerate(ops):
        v, fatal = run.step(op)
        for law, what in v:
            out.append((law, what, i))
            if want_law is not None and law == want_law:
                return out, run
        if fatal:
            break
    return out, run


def shrink(kind, ops, law, budget=400):
    """delta debugging on the op list: smallest subsequence that still breaks `law`"""
    def fails(cand):
        try:
            v, _ = run_sequence(kind, cand, want_law=law)
        except Exception:
            return False
        return any(l == law for l, _, _ in v)
    v, _ = run_sequence(kind, ops, want_law=law)
    idx = [i for l, _, i in v if l == law]
    if not idx:
        return ops
    cur = ops[:idx[0] + 1]
    n = 2; tries = 0
    while len(cur) >= 2 and tries < budget:
        chunk = max(1, len(cur) // n)
        reduced = False
        for start in range(0, len(cur), chunk):
            cand = cur[:start] + cur[start + chunk:]
            tries += 1
            if cand and fails(cand):
                cur = cand; n = max(n - 1, 2); reduced = True
                break
        if not reduced:
            if chunk == 1: break
            n = min(len(cur), n * 2)
    # simplify update ops to their pairs
    return cur


# ---------------------------------------------------------------------------------------
# generators

def gen_ops(kind, rng, maxlen, wild):
    keys = list(kind.keys_universe(rng))
    vals = list(kind.values_universe(rng))
    if wild:
        keys += list(kind.wild_keys()); vals += list(kind.wild_values())
    # a working set: few keys so that operations collide
    kset = [rng.choice(keys) for _ in range(rng.randrange(2, 7))]
    # make sure case variants of one key meet
    base = [k for k in kset if k[0] == "s" and k[1].lower() != k[1].upper()]
    if base:
        b = rng.choice(base)
        for var in (b[1].upper(), b[1].lower(), b[1].title()):
            if any(k == S(var) for k in keys) or (isinstance(kind, EasyKind) and kind.case_variants):
                kset.append(S(var))
    n = rng.randrange(1, maxlen + 1)
    names = list(kind.ops) + list(kind.extra_ops)
    weights = {"set": 6, "get": 4, "del": 3, "in": 2, "pop": 2, "popd": 1, "setd": 2, "getd": 1, "upd": 2, "keys": 1, "values": 1,
               "items": 1, "len": 1, "clear": 0.4, "popitem": 1, "add": 5, "getall": 2, "setall": 1, "delall": 1.5}
    w = [weights[x] for x in names]
    ops = []
    for _ in range(n):
        name = rng.choices(names, w)[0]
        k = rng.choice(kset) if rng.random() < 0.85 else rng.choice(keys)
        v = rng.choice(vals)
        if hasattr(kind, "frame_spec") or isinstance(kind, Mp3Kind):
            fk = kind if hasattr(kind, "frame_spec") else kind.inner
            if name in ("set", "setd") and rng.random() < 0.9: v = fk.frame_spec(rng)
        if kind.policy.list_backed and name in ("pop", "popd") and k[0] != "s":
            k = S("title")      # list.pop(int) is an index operation: only str arguments here
        if name in ("get", "del", "in", "pop"): ops.append([name, k])
        elif name in ("set", "setd", "popd", "getd"): ops.append([name, k, v])
        elif name == "upd":
            m = rng.randrange(0, 4)
            pairs = []
            for _ in range(m):
                kk = rng.choice(kset); vv = rng.choice(vals)
                if (hasattr(kind, "frame_spec") or isinstance(kind, Mp3Kind)) and rng.random() < 0.9:
                    vv = (kind if hasattr(kind, "frame_spec") else kind.inner).frame_spec(rng)
                pairs.append([kk, vv])
            mode = rng.choice(["dict", "pairs", "kw"])
            if mode in ("dict", "kw"):
                # what dict(pairs) keeps: one entry per key, first position, last value
                if not all(Policy.hashable(kind.policy, p[0]) for p in pairs) or (mode == "kw" and not all(p[0][0] == "s" for p in pairs)):
                    mode = "pairs"
                else:
                    d = collections.OrderedDict()
                    for kk, vv in pairs: d[hk(kk)] = [kk, vv] if hk(kk) not in d else [d[hk(kk)][0], vv]
                    pairs = list(d.values())
            ops.append(["upd", pairs, mode])
        elif name == "add":
            fk = kind if hasattr(kind, "frame_spec") else kind.inner
            ops.append(["add", fk.frame_spec(rng) if rng.random() < 0.93 else rng.choice([S("x"), ["n"], ["i", 3]])])
        elif name in ("getall", "delall"):
            ops.append([name, rng.choice([kk for kk in keys if kk[0] == "s"])])
        elif name == "setall":
            fk = kind if hasattr(kind, "frame_spec") else kind.inner
            ops.append(["setall", rng.choice([kk for kk in keys if kk[0] == "s"]), [fk.frame_spec(rng) for _ in range(rng.randrange(0, 3))]])
        else: ops.append([name])
    return ops


# ---------------------------------------------------------------------------------------
# Lean driver

PYERR = {"KeyError": "key", "ValueError": "value", "TypeError": "type", "AttributeError": "attribute", "IndexError": "index",
         "AssertionError": "assertion"}


def enc_key(c):
    b = c[1].encode("utf-8")
    return b.hex() if b else "-"


def enc_atom(c):
    t = c[0]
    if t == "s": return "s" + c[1].encode("utf-8").hex()
    if t == "b": return "b" + c[1]
    if t == "i": return "i%d" % c[1]
    if t == "n": return "n"
    raise ValueError(c)


def enc_val(c):
    if c[0] == "l": return "l" + "".join("." + enc_atom(x) for x in c[1])
    if c[0] == "apev":
        if c[1] == 1: return "b" + c[2][1]
        return "s" + c[2][1].encode("utf-8").hex()
    return enc_atom(c)


def modelled_key(c):
    if c[0] != "s": return False
    try:
        c[1].encode("utf-8")
    except UnicodeEncodeError:
        return False
    return True


def modelled_val(c):
    if c[0] in ("s", "b", "i", "n"): return True
    return c[0] == "l" and all(x[0] in ("s", "b", "i", "n") for x in c[1])


def modelled_op(op):
    n = op[0]
    if n in ("keys", "values", "items", "len", "clear", "popitem"): return True
    if n == "upd": return all(modelled_key(k) and modelled_val(v) for k, v in op[1])
    if not modelled_key(op[1]): return False
    return len(op) < 3 or modelled_val(op[2])


def enc_op(op):
    n = op[0]
    if n in ("keys", "values", "items", "len", "clear", "popitem"): return n
    if n == "upd": return ":".join(["upd"] + [x for k, v in op[1] for x in (enc_key(k), enc_val(v))])
    if n in ("get", "del", "in", "pop"): return "%s:%s" % (n, enc_key(op[1]))
    return "%s:%s:%s" % (n, enc_key(op[1]), enc_val(op[2]))


def enc_out(op, status, c):
    """the harness' rendering of a real outcome in the driver's output alphabet"""
    if status == "err": return "E" + PYERR.get(c, c)
    n = op[0]
    if n in ("set", "del", "clear", "upd"): return "N"
    t = c[0]
    if t == "keys": return "K" + ";".join(sorted(enc_key(k) for k in c[1]))
    if t == "items":
        its = sorted((enc_key(k), enc_val(v)) for k, v in c[1])
        return "I" + ";".join("%s=%s" % it for it in its)
    if t == "item": return "P%s=%s" % (enc_key(c[1]), enc_val(c[2]))
    if n == "in": return "B1" if c[1] else "B0"
    if n == "len": return "L%d" % c[1]
    return "V" + enc_val(c)


def ask_driver(ctx, lines):
    cmd = os.environ.get("VERIF_C16_DRIVER")        # test hook: a command speaking the driver protocol
    if cmd:
        p = subprocess.run(shlex.split(cmd), input=("\n".join(lines) + "\n").encode(), stdout=subprocess.PIPE,
                           stderr=subprocess.PIPE, timeout=3000, cwd=os.path.join(ctx.verif, "lean"))
        out = p.stdout.decode().split("\n")
        if out and out[-1] == "": out.pop()
        if len(out) != len(lines):
            raise RuntimeError("test driver: %d answers for %d requests: %s" % (len(out), len(lines), p.stderr.decode()[-300:]))
        return out
    return ctx.driver.ask(lines)


def driver_available(ctx):
    if not (os.environ.get("VERIF_C16_DRIVER") or ctx.model_ok()):
        return False
    try:
        ans = ask_driver(ctx, ["dict kind=proxy ops=len"])
    except Exception as e:
        ctx.notes.append("driver unavailable: %s" % e)
        return False
    if ans[0].strip() == "bad-op":
        ctx.notes.append("the driver does not know the `dict` command yet (not wired into Driver/Main.lean): model comparison skipped")
        return False
    return ans[0].strip() == "ok out=L0"


# ---------------------------------------------------------------------------------------

def report(ctx, kind, ops, law, what, seen):
    key = "%s:%s" % (kind.name, law)
    if key in seen:
        seen[key] += 1
        return
    seen[key] = 1
    small = shrink(kind, ops, law)
    v, _ = run_sequence(kind, small, want_law=law)
    w = [x for l, x, _ in v if l == law]
    ctx.violation(key, "%s: %s" % (kind.name, w[0] if w else what), {"kind": kind.name, "law": law, "ops": small})


# minimised sequences of past failures, run first on every tier (kind name, ops)
CORPUS = [
    ("EasyID3", [["set", S("website"), S("http://a")], ["set", S("website"), ["i", 3]]]),
    ("EasyID3", [["upd", [[S("title"), S("x")], [["n"], S("y")]], "dict"]]),
    ("EasyID3", [["del", S("website")]]),
    ("EasyID3", [["in", ["i", 3]]]),
    ("EasyID3", [["set", S("musicbrainz_trackid"), L(["i", 3])]]),
    ("EasyID3:replaygain", [["set", S("replaygain_album_gain"), S("+1.5 dB")], ["set", S("replaygain_album_peak"), S("0.5")],
                            ["del", S("replaygain_album_gain")]]),
    ("EasyID3:replaygain", [["set", S("replaygain_album_gain"), S("99999 dB")]]),
    ("EasyID3:replaygain", [["del", S("replaygain_album_peak")]]),
    ("EasyID3:glob-case", [["set", S("performer:Guitar"), S("x")], ["get", S("performer:guitar")]]),
    ("EasyID3:glob-case", [["set", S("REPLAYGAIN_ALBUM_GAIN"), S("1 dB")], ["get", S("replaygain_album_gain")]]),
    ("EasyMP4Tags", [["in", ["n"]]]),
    ("ASFTags", [["set", L(S("a")), S("x")]]),
    ("ID3:non-str-keys", [["set", ["i", 0], ["frame", "TIT2", {"encoding": 3, "text": ["t"]}, "c1:TIT2"]], ["getall", S("TXXX")]]),
    ("APEv2", [["set", S("Title"), S("x")], ["set", S("TITLE"), L(S("a"), S("b"))], ["keys"], ["get", S("title")],
               ["set", S("OggS"), S("x")], ["in", S("OggS")], ["del", S("tItLe")], ["len"]]),
    ("VCommentDict", [["set", S("Title"), S("x")], ["set", S("TITLE"), L(S("a"), S("b"))], ["keys"], ["get", S("title")],
                      ["set", S("a=b"), S("x")], ["set", S("title"), L()], ["in", S("TITLE")], ["len"]]),
    ("FLAC-proxy:no-tags", [["get", S("a=b")], ["set", S("a=b"), S("x")], ["get", S("a=b")], ["set", S("T"), S("x")], ["pop", S("t")]]),
    ("MP3-proxy:no-tags", [["get", S("TIT2")], ["set", S("TIT2"), S("x")], ["keys"],
                           ["set", S("TIT2"), ["frame", "TIT2", {"encoding": 3, "text": ["t"]}, "c2:TIT2"]], ["pop", S("TIT2")]]),
]


def run(ctx):
    ctx.rule = RULE
    rng = ctx.rng
    maxlen = ctx.budget(40, 200)
    nseq = ctx.budget(200, 700)
    seen = {}
    use_driver = driver_available(ctx)
    pending = []        # (kind, ops, outs) for the driver
    for kname, ops in CORPUS:
        kind = KIND_BY_NAME[kname]
        viol, r = run_sequence(kind, ops)
        ctx.hist["corpus"] += 1
        modelled = kind.modelled is not None and all(modelled_op(op) for op in ops)
        ctx.case(key=("corpus", kname, hk(ops)), nontrivial=True, modelled=modelled)
        for law, what, _ in viol:
            report(ctx, kind, ops, law, what, seen)
        if use_driver and modelled and len(r.outs) == len(ops):
            pending.append((kind, ops, r))
    for kind in KINDS:
        per = nseq if not isinstance(kind, ProxyFileKind) else max(20, nseq // 3)
        for si in range(per):
            wild = (si % 3 == 2)
            ops = gen_ops(kind, rng, maxlen if si % 4 else min(maxlen, 12), wild)
            viol, r = run_sequence(kind, ops)
            ctx.hist["kind:" + kind.name] += 1
            ctx.hist["len:%d" % (10 * (len(ops) // 10))] += 1
            for op in ops: ctx.hist["op:" + op[0]] += 1
            for st, c in r.outs:
                ctx.hist["outcome:" + (c if st == "err" else "ok")] += 1
            nontriv = r.changed > 0 and r.raised > 0
            sig = (kind.name, tuple(op[0] for op in ops), len({hk(op[1]) for op in ops if len(op) > 1 and op[0] != "upd"}))
            modelled = kind.modelled is not None and all(modelled_op(op) for op in ops)
            ctx.case(key=sig, nontrivial=nontriv, modelled=modelled,
                     sample={"kind": kind.name, "ops": ops[:6], "n_ops": len(ops), "violations": [l for l, _, _ in viol][:3]}
                     if si == 1 else None)
            for law, what, _ in viol:
                report(ctx, kind, ops, law, what, seen)
            if use_driver and modelled and len(r.outs) == len(ops):
                pending.append((kind, ops, r))
    if use_driver:
        compare_with_model(ctx, pending)
    ctx.extra["violation_counts"] = dict(sorted(seen.items()))
    ctx.extra["driver_compared_sequences"] = len(pending) if use_driver else 0
    # MP4Tags, ASFTags and EasyMP4Tags against their Lean instances (Model/Dict{K,Mp4,Asf,EasyMp4}.lean, Props/C16_*.lean)
    import dict_tie_x
    dict_tie_x.run(ctx)


def compare_with_model(ctx, pending):
    lines = []; expect = []
    for kind, ops, r in pending:
        # replay on a fresh real object, observing items and len after every op
        run2 = Run(kind)
        seq = []; exp = []
        ok = True
        for op in ops:
            v, fatal = run2.step(op)
            st, c = run2.outs[-1]
            seq.append(enc_op(op))
            if op[0] == "values" and st == "ok":
                # the driver lists values in the order of the sorted keys
                o = run2.obj
                its = sorted((enc_key(canon(k, run2.env)), enc_val(canon(o[k], run2.env))) for k in o.keys())
                exp.append("W" + ";".join(v for _, v in its))
            else:
                exp.append(enc_out(op, st, c))
            for obs in (["items"], ["len"]):
                run2.step(obs)
                st, c = run2.outs[-1]
                seq.append(enc_op(obs)); exp.append(enc_out(obs, st, c))
            if fatal: ok = False; break
        if not ok: continue
        lines.append("dict kind=%s ops=%s" % (kind.modelled, ",".join(seq) if seq else "-"))
        expect.append((kind, ops, exp))
    if not lines: return
    answers = ask_driver(ctx, lines)
    for (kind, ops, exp), ans in zip(expect, answers):
        ctx.traces_validated += 1
        st, f = parse_fields(ans)
        got = f.get("out", "").split("|") if st == "ok" else [ans]
        if got == ["-"]: got = []
        if got != exp:
            i = next((j for j in range(min(len(got), len(exp))) if got[j] != exp[j]), min(len(got), len(exp)))
            ctx.disagree("dict:%s" % kind.name, {"kind": kind.name, "ops": ops, "first_difference_at_output": i,
                                                 "observations": "items and len after every op"},
                         model=got[i] if i < len(got) else None, impl=exp[i] if i < len(exp) else None)


def replay(ctx, payload):
    ctx.rule = RULE
    case = payload.get("case", {})
    kind = KIND_BY_NAME[case["kind"]]
    viol, _ = run_sequence(kind, case["ops"])
    ctx.case(key=("replay", case["kind"]), nontrivial=True, modelled=False)
    for law, what, _ in viol:
        ctx.violation("%s:%s" % (kind.name, law), "%s: %s" % (kind.name, what), {"kind": kind.name, "law": law, "ops": case["ops"]})


def search(ctx):
    old = ctx.tier; ctx.tier = "thorough"
    try:
        run(ctx)
    finally:
        ctx.tier = old
