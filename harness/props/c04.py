"""C04 — Malformed input is rejected cleanly and in bounded time."""
import io, errno, os, random, struct, traceback, multiprocessing, resource, time
from guards import timed

RULE = ("mutations (bit/byte flips, truncation, splice of two files, duplication, insertion, 32/64-bit field extremes at random and at "
        "marker-adjacent positions, zeroed/0xFF runs) of every sample file in tests/data and of synthesised headers, fed to all 32 openers of "
        "fuzzing/fuzztools.py with its protocol (open; save; reopen; delete; for Metadata: save/reopen/delete on an empty file), each step under a "
        "time limit (BaseException-raising interval timer) and an address-space limit. A step must succeed or raise MutagenError (File may return "
        "None); the caller's BytesIO must stay open. Non-trivial: the mutated bytes differ from the sample and at least one opener got past "
        "open(); distinct by (sample, mutation seed)")

TIME_LIMIT = 4.0


def openers():
    import sys
    sys.path.insert(0, os.path.join(os.environ.get("VERIF_REPO", "/repo"), "fuzzing"))
    import importlib
    ft = importlib.import_module("fuzztools")
    return ft.OPENERS


def mutate(data, rng, others):
    """returns (mutated bytes, description)"""
    b = bytearray(data)
    kind = rng.choice(["flip", "flip", "byte", "byte", "trunc", "splice", "dup", "insert", "field32", "field32", "field64",
                       "zero-run", "ff-run", "marker-field", "marker-field", "cut-front", "size-boundary", "size-boundary",
                       "append-tag"])
    n = len(b)
    if n == 0:
        return bytes(rng.randrange(256) for _ in range(rng.randrange(1, 64))), "random"
    if kind == "flip":
        for _ in range(rng.choice([1, 1, 2, 8])):
            i = rng.randrange(n); b[i] ^= 1 << rng.randrange(8)
    elif kind == "byte":
        for _ in range(rng.choice([1, 1, 3, 16])):
            b[rng.randrange(n)] = rng.choice([0, 1, 0x7F, 0x80, 0xFF, rng.randrange(256)])
    elif kind == "trunc":
        b = b[:rng.choice([rng.randrange(n), rng.randrange(min(n, 200) or 1), max(0, n - rng.randrange(1, 40))])]
    elif kind == "splice":
        o = rng.choice(others) if others else data
        i = rng.randrange(n); j = rng.randrange(len(o) or 1)
        b = b[:i] + bytearray(o[j:j + rng.randrange(1, 4096)]) + b[i:]
    elif kind == "dup":
        i = rng.randrange(n); l = rng.randrange(1, min(n - i, 2048) + 1)
        b = b[:i + l] + b[i:i + l] + b[i + l:]
    elif kind == "insert":
        i = rng.randrange(n)
        b = b[:i] + bytearray(rng.randrange(256) for _ in range(rng.randrange(1, 64))) + b[i:]
    elif kind in ("field32", "field64", "marker-field"):
        w = 8 if kind == "field64" else 4
        if kind == "marker-field":
            # positions right after 4-character ASCII markers (chunk ids, atom names, capture patterns)
            cands = [i + 4 for i in range(0, max(0, min(n, 4096) - 8)) if all(65 <= c <= 122 or c == 32 for c in b[i:i + 4])]
            cands += [i - 4 for i in cands if i >= 8]
            i = rng.choice(cands) if cands else rng.randrange(max(1, n - w))
        else:
            i = rng.randrange(max(1, n - w)) if rng.random() < 0.5 else rng.randrange(max(1, min(n, 256) - w))
        v = rng.choice([0, 1, 0x7FFFFFFF, 0x80000000, 0xFFFFFFFF, 0xFFFFFFFE, len(b), len(b) + 1, len(b) - i, 2 ** 24 - 1,
                        0xFFFFFFFFFFFFFFFF, 0x7FFFFFFFFFFFFFFF, 0x100000000])
        v &= (1 << (8 * w)) - 1
        enc = v.to_bytes(w, rng.choice(["big", "little"]))
        b[i:i + w] = enc
    elif kind == "cut-front":
        # drop the start of the file, preferably up to a little behind a structure marker (a tag whose header is gone,
        # a stream that starts in the middle of a page)
        marks = []
        for m in (b"APETAGEX", b"ID3", b"TAG", b"OggS", b"fLaC", b"moov", b"ftyp", b"RIFF", b"FORM", b"MAC ", b"wvpk"):
            j = bytes(b).find(m)
            while j >= 0 and len(marks) < 40:
                marks.append(j); j = bytes(b).find(m, j + 1)
        if marks and rng.random() < 0.7:
            k = rng.choice(marks) + rng.choice([0, 1, 4, 8, 10, 31, 32, 33, 40])
        else:
            k = rng.randrange(1, min(n, 4096) + 1)
        b = b[min(k, n):]
    elif kind == "size-boundary":
        # a length field of a tag/chunk header set to a value around the real distances in this file
        def syncsafe(v):
            v &= (1 << 28) - 1
            return bytes([(v >> 21) & 0x7F, (v >> 14) & 0x7F, (v >> 7) & 0x7F, v & 0x7F])
        targets = []
        raw = bytes(b)
        if raw[:3] == b"ID3" and n > 10:
            targets.append((6, "syncsafe"))
        j = raw.find(b"APETAGEX")
        while j >= 0 and len(targets) < 12:
            targets.append((j + 12, "little")); targets.append((j + 16, "little")); j = raw.find(b"APETAGEX", j + 1)
        for m, off, enc in ((b"fLaC", 5, "big3"), (b"OggS", 26, "byte"), (b"RIFF", 4, "little"), (b"FORM", 4, "big"), (b"moov", -4, "big"),
                            (b"udta", -4, "big"), (b"meta", -4, "big"), (b"ilst", -4, "big"), (b"mdat", -4, "big"), (b"ID3 ", 4, "big"),
                            (b"id3 ", 4, "little"), (b"DSD ", 12, "little8"), (b"DSD ", 20, "little8")):
            j = raw.find(m)
            if j >= 0 and 0 <= j + off < n - 8:
                targets.append((j + off, enc))
        if targets:
            i, enc = rng.choice(targets)
            d = rng.choice([0, 1, -1, 2, 10, -10, 32, -32, 64, 127, 128, 129, 200, -128, rng.randrange(-300, 300)])
            v = max(0, rng.choice([n - i, n - i - 4, n - i - 10, n, n - 128 - i, n - 128, n - 32 - i, i]) + d)
            if enc == "syncsafe":
                b[i:i + 4] = syncsafe(v)
            elif enc == "big3":
                b[i:i + 3] = (v & 0xFFFFFF).to_bytes(3, "big")
            elif enc == "byte":
                b[i] = v & 0xFF
            elif enc == "little8":
                b[i:i + 8] = (v & (2 ** 64 - 1)).to_bytes(8, "little")
            else:
                b[i:i + 4] = (v & 0xFFFFFFFF).to_bytes(4, enc)
        else:
            b[rng.randrange(n)] ^= 0xFF
    elif kind == "append-tag":
        # another tag family's block at the end (ID3v1, APEv2 with or without header) - possibly after damaging a size
        v1 = b"TAG" + bytes(rng.choice([0, 65, 66, 0x20]) for _ in range(122)) + bytes([0, 1, 12])
        item = (3).to_bytes(4, "little") + bytes(4) + b"Key\0abc"
        foot = b"APETAGEX" + (2000).to_bytes(4, "little") + (len(item) + 32).to_bytes(4, "little") + (1).to_bytes(4, "little")
        ape = foot + (0xA0000000).to_bytes(4, "little") + bytes(8) + item + foot + (0x80000000).to_bytes(4, "little") + bytes(8)
        b = b + bytearray(rng.choice([v1, ape, ape + v1, ape[32:], v1[:rng.randrange(120, 128)]]))
        if rng.random() < 0.5 and bytes(b[:3]) == b"ID3" and len(b) > 10:
            v = max(0, len(b) - 10 - rng.randrange(0, 200))
            b[6:10] = bytes([(v >> 21) & 0x7F, (v >> 14) & 0x7F, (v >> 7) & 0x7F, v & 0x7F])
    elif kind == "zero-run":
        i = rng.randrange(n); b[i:i + rng.randrange(1, 64)] = bytes(rng.randrange(1, 64))
    elif kind == "ff-run":
        i = rng.randrange(n); l = rng.randrange(1, 64); b[i:i + l] = b"\xff" * l
    return bytes(b), kind


def site_of(exc):
    tb = traceback.extract_tb(exc.__traceback__)
    frames = [fr for fr in tb if "/mutagen/" in fr.filename]
    if not frames:
        return "?"
    site = frames[-1]
    if (site.name == "<lambda>" or site.filename.endswith("_util.py")) and len(frames) > 1 and site.name not in ("verify_fileobj",):
        # helpers in _util (cdata lambdas, decode_terminated, BitReader): blame the caller
        for fr in reversed(frames[:-1]):
            if not fr.filename.endswith("_util.py") or "/id3/" in fr.filename:
                site = fr; break
    return "%s:%s" % (site.filename.split("/mutagen/")[-1], site.name)


from fobj import BufferedLike


def run_protocol(opener, data, File, Metadata, MutagenError, cls=io.BytesIO):
    """fuzztools.run() with per-step classification; returns list of (step, kind, detail)"""
    out = []
    f = cls(data)

    def step(name, fn):
        k, r = timed(fn, TIME_LIMIT)
        if f.closed:
            out.append((name, "closed-caller-file", ""))
        if k == "hang":
            out.append((name, "hang", ""))
            return "stop", None
        if k == "exc":
            if isinstance(r, MutagenError):
                return "mutagen", None
            out.append((name, "escape:%s:%s" % (type(r).__name__, site_of(r)), str(r)[:80]))
            return "stop", None
        return "ok", r
    st, res = step("open", lambda: opener(f))
    if st != "ok" or (opener is File and res is None):
        return out, st == "ok"
    def save():
        f.seek(0); res.save(f)
    st, _ = step("save", save)
    if st == "stop":
        return out, True
    def reopen():
        f.seek(0); return opener(f)
    st, res2 = step("reopen", reopen)
    if st != "ok" or res2 is None:
        return out, True
    def delete():
        f.seek(0); res2.delete(f)
    st, _ = step("delete", delete)
    if st == "stop":
        return out, True
    if isinstance(res2, Metadata):
        g = cls()
        def empty_cycle():
            res2.save(g); g.seek(0); opener(g); g.seek(0); res2.delete(g)
        k, r = timed(empty_cycle, TIME_LIMIT)
        if k == "hang":
            out.append(("empty-cycle", "hang", ""))
        elif k == "exc" and not isinstance(r, MutagenError):
            out.append(("empty-cycle", "escape:%s:%s" % (type(r).__name__, site_of(r)), str(r)[:80]))
    return out, True


_W = {}


def _init_worker(repo):
    import sys
    sys.path.insert(0, repo)
    sys.path.insert(0, os.path.dirname(os.path.dirname(os.path.abspath(__file__))))
    try:
        resource.setrlimit(resource.RLIMIT_AS, (3 << 30, 3 << 30))
    except Exception:
        pass
    from mutagen import File, Metadata, MutagenError
    _W["ops"] = openers(); _W["File"] = File; _W["Metadata"] = Metadata; _W["ME"] = MutagenError
    d = os.path.join(repo, "tests", "data")
    _W["samples"] = {}
    for fn in sorted(os.listdir(d)):
        p = os.path.join(d, fn)
        if os.path.isfile(p) and os.path.getsize(p) < 400000:
            with open(p, "rb") as h:
                _W["samples"][fn] = h.read()
    _W["names"] = sorted(_W["samples"])


def _work(task):
    sample, seed = task
    rng = random.Random(seed)
    base = _W["samples"][sample]
    others = [_W["samples"][rng.choice(_W["names"])] for _ in range(2)]
    data, kind = mutate(base, rng, others)
    if rng.random() < 0.3:
        data, k2 = mutate(data, rng, others); kind += "+" + k2
    findings = []; calls = 0; past_open = 0
    like_file = rng.random() < 0.5
    for op in _W["ops"]:
        t0 = time.time()
        res, opened = run_protocol(op, data, _W["File"], _W["Metadata"], _W["ME"])
        calls += 1; past_open += int(opened)
        for step, what, detail in res:
            findings.append((getattr(op, "__name__", str(op)), step, what, detail))
        if like_file:
            # the same through an object with the semantics of a file opened by name
            res, opened = run_protocol(op, data, _W["File"], _W["Metadata"], _W["ME"], cls=BufferedLike)
            calls += 1
            have = {(s_, w_) for _, s_, w_, _ in findings}
            for step, what, detail in res:
                if (step, what) not in have:
                    findings.append((getattr(op, "__name__", str(op)), step, what + ":as-real-file", detail))
    return sample, seed, kind, len(data), data != base, calls, past_open, findings


def extreme_value_files(repo):
    """(name, bytes): a short MPEG stream with an ID3v2 tag holding one extreme text value and an ID3v1 block behind it
    (so that the default v1=1 save rewrites the block), plus APEv2 / Vorbis carriers of the same values"""
    from mutagen import id3
    out = []
    audio = open(os.path.join(repo, "tests", "data", "silence-44-s.mp3"), "rb").read()
    try:
        f0 = io.BytesIO(audio); id3.delete(f0); audio = f0.getvalue()
    except Exception:
        return out
    v1 = b"TAG" + b"t".ljust(30, b"\0") + b"a".ljust(30, b"\0") + b"l".ljust(30, b"\0") + b"2004" + b"c".ljust(28, b"\0") + b"\0\x05\x11"
    values = {
        "TRCK": ["300/400", "256", "-3", "255", "99999999999999999999", "/", "1/", "\u0663"],
        "TDRC": ["99999", "0000", "-001", "2004-13-45", "10000-01-01"],
        "TYER": ["99999", "abcd", ""],
        "TCON": ["(300)", "(255)", "(-1)", "300", "((", "(RX)(CR)"],
        "TLEN": ["-1", "x", "9" * 40],
        "TBPM": ["1e999", "nan"],
        "TPOS": ["70000/3"],
        "TIT2": ["x" * 70000, "\x00", "\ud7ff\U0010ffff"],
    }
    for fid, vals in values.items():
        for i, v in enumerate(vals):
            for ver in (4, 3):
                try:
                    t = id3.ID3()
                    t.add(getattr(id3, fid)(encoding=3, text=[v]))
                    g = io.BytesIO(audio)
                    t.save(g, v1=0, v2_version=ver)
                    out.append(("id3v2.%d-%s-%d+v1" % (ver, fid, i), g.getvalue() + v1))
                except Exception:
                    pass        # the builder could not write it: not an input
    return out


class _EscapesOnly(object):
    """view of the run context for the stream-info ties when they run under C04: of what they see on their structured,
    field-by-field generated headers of every format (valid, outside the valid ranges, damaged) only an exception that
    is not a MutagenError, or a parser that does not finish, counts here; what the model says about values is C05's"""
    def __init__(self, ctx):
        object.__setattr__(self, "_c", ctx)

    def __getattr__(self, n):
        return getattr(self._c, n)

    def __setattr__(self, n, v):
        setattr(self._c, n, v)

    def disagree(self, *a, **k):
        self._c.hist["info-ties:value-disagreement(C05's)"] += 1

    def case(self, **k):
        k["modelled"] = False
        self._c.case(**k)

    def violation(self, key, what, case=None):
        if "escape" in key or "hang" in key:
            self._c.violation("info:" + key, what, case)


def run(ctx, tasks=None):
    ctx.rule = RULE
    repo = ctx.repo
    d = os.path.join(repo, "tests", "data")
    names = sorted(fn for fn in os.listdir(d) if os.path.isfile(os.path.join(d, fn)) and os.path.getsize(os.path.join(d, fn)) < 400000)
    rng = ctx.rng
    if tasks is None:
        per = ctx.budget(60, 400)
        tasks = [(n, rng.randrange(1 << 30)) for n in names for _ in range(per)]
        # corpus of minimised past failures first
        corpus = os.path.join(ctx.verif, "harness", "gen", "corpus", "c04.txt")
        if os.path.exists(corpus):
            for line in open(corpus):
                line = line.strip()
                if line and not line.startswith("#"):
                    n, sd = line.rsplit(" ", 1)
                    if n in names:
                        tasks.insert(0, (n, int(sd)))
    # the MP4 load/save/delete model against the real code on generated damaged files (io.BytesIO and real files):
    # exception class and the bytes left; a non-MutagenError from the real code is a violation here
    # (runs before _init_worker limits the address space of this process: the Lean driver needs its thread stacks)
    if tasks is not None and len(tasks) > 1:
        try:
            import flacblocks_tie
            flacblocks_tie.run(ctx)
            import flacload_tie
            flacload_tie.run(ctx)
            # every format class: real Type(BytesIO(data)) vs the composed load of Model/FileTypes.lean
            import filetypes_tie
            filetypes_tie.run(ctx)
            import mp4file_tie
            mp4file_tie.run(ctx, report=True)
            # the generated headers of the stream-info ties (every field of every format at its edges): escapes only
            import info_tie_a, info_tie_b
            view = _EscapesOnly(ctx)
            info_tie_a.run(view)
            info_tie_b.run(view)
        except ImportError as e:
            ctx.notes.append("mp4file_tie unavailable: %s" % e)
    # the corpus of minimised hard inputs runs first (harness/corpus/c04: inputs that once escaped or hung)
    cdir = os.path.join(os.path.dirname(os.path.dirname(os.path.abspath(__file__))), "corpus", "c04")
    if os.path.isdir(cdir) and tasks is not None and len(tasks) > 1:
        _init_worker(repo)
        for fn in sorted(os.listdir(cdir)):
            with open(os.path.join(cdir, fn), "rb") as h:
                blob = h.read()
            for op in _W["ops"]:
                res, opened = run_protocol(op, blob, _W["File"], _W["Metadata"], _W["ME"])
                ctx.case(key=("corpus", fn, getattr(op, "__name__", str(op))), nontrivial=True, modelled=False)
                ctx.hist["corpus"] += 1
                for step, what, detail in res:
                    ctx.violation(what if what != "hang" else "hang:%s:%s" % (getattr(op, "__name__", "?"), step),
                                  "%s: %s.%s on corpus input %s: %s" % (what, getattr(op, "__name__", "?"), step, fn, detail),
                                  {"corpus": fn, "opener": getattr(op, "__name__", "?"), "step": step})
    # well-formed files whose tag *values* are extreme (saving re-encodes them into narrower fields: ID3v1 track/year/genre
    # bytes, v2.3 frames): "saving through whatever was opened" must succeed or raise MutagenError
    if tasks is not None and len(tasks) > 1:
        _init_worker(repo)
        for fn, blob in extreme_value_files(repo):
            for op in _W["ops"]:
                res, opened = run_protocol(op, blob, _W["File"], _W["Metadata"], _W["ME"])
                ctx.case(key=("extreme-values", fn, getattr(op, "__name__", str(op))), nontrivial=opened, modelled=False)
                ctx.hist["extreme-values"] += 1
                for step, what, detail in res:
                    ctx.violation(what if what != "hang" else "hang:%s:%s" % (getattr(op, "__name__", "?"), step),
                                  "%s: %s.%s on the well-formed file %s: %s" % (what, getattr(op, "__name__", "?"), step, fn, detail),
                                  {"synth": fn, "data_hex": blob.hex() if len(blob) < 4000 else None, "opener": getattr(op, "__name__", "?"), "step": step})
    with multiprocessing.Pool(min(16, os.cpu_count() or 4), initializer=_init_worker, initargs=(repo,)) as pool:
        for sample, seed, kind, size, changed, calls, past_open, findings in pool.imap_unordered(_work, tasks, chunksize=8):
            ctx.case(key=(sample, seed), nontrivial=(changed and past_open > 0), modelled=False, n=1,
                     sample={"sample": sample, "mutation": kind, "seed": seed, "size": size} if ctx.evaluations in (3, 500) else None)
            ctx.hist["mut:" + kind.split("+")[0]] += 1
            ctx.extra["opener_calls"] = ctx.extra.get("opener_calls", 0) + calls
            for opener, step, what, detail in findings:
                ctx.hist["finding:" + what.split(":")[0]] += 1
                ctx.violation(what if what != "hang" else "hang:%s:%s" % (opener, step),
                              "%s: %s.%s on a mutated %s: %s" % (what, opener, step, sample, detail),
                              {"sample": sample, "seed": seed, "mutation": kind, "opener": opener, "step": step})


def replay(ctx, payload):
    c = payload["case"]
    run(ctx, tasks=[(c["sample"], c["seed"])])
    ctx.case(key="replay2")


def search(ctx):
    old = ctx.tier; ctx.tier = "thorough"
    try:
        run(ctx)
    finally:
        ctx.tier = old
