"""C03 — Files stay structurally valid through any edit history."""
import containers
import id3file_tie
import dsf_tie
import asf_tie
import ogginject_tie
import iff_tie
import apefile_tie

RULE = ("random edit histories (set tiny/huge/empty/unicode values, save with default/0/n/keep padding, save through a fresh object, "
        "delete by method and by module function, reload) over every sample of every taggable format; after each save/delete an independent "
        "container walker extracts everything the tagging type does not own (audio, other Ogg streams and packets, non-comment FLAC blocks, "
        "non-metadata MP4 atoms, other IFF chunks, unknown ASF objects, tags of another family) and compares it byte for byte and in order "
        "with the state before. FLAC is additionally modelled and proved in Lean. Non-trivial: a save or delete ran; distinct by "
        "(format, sample, history index, step)")


def run(ctx):
    containers.run_histories(ctx, {"wf", "info"}, RULE)
    # MP4: the layout family of C10 under random edit histories (saves with every padding choice, deletes, repeated
    # saves) with its structural oracle: sizes equal extents at every level, offset tables address the same media bytes,
    # mdat payloads unchanged
    from props import c10
    c10.run_shared(ctx, lambda i: [c10.gen_history(ctx.rng, ctx.budget(4, 8), big_ok=(i % 9 == 0))] + ([] if ctx.quick else [c10.gen_history(ctx.rng, 6)]), "c03")
    id3file_tie.run(ctx)
    dsf_tie.run(ctx)
    asf_tie.run(ctx)
    ogginject_tie.run(ctx)
    iff_tie.run(ctx)
    apefile_tie.run(ctx)


def search(ctx):
    old = ctx.tier; ctx.tier = "thorough"
    try:
        run(ctx)
    finally:
        ctx.tier = old
