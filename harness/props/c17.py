"""C17 — Any conforming file object works exactly like a filename."""
import io, os, shutil, tempfile, itertools
import formats as F
from fobj import MinimalFile
from guards import timed
from vcheck import parse_fields

RULE = ("every way of passing a file (str path, bytes path, os.PathLike, open 'rb+' file, io.BytesIO, a minimal object with only the documented "
        "methods, filename= and fileobj= keywords) x every format x {load, save after an edit, delete by method, module-level delete}: tags, "
        "resulting bytes and exception class must be identical across all ways; the caller's object must not be closed and the minimal object "
        "must not be asked for anything beyond read/seek/tell/write/truncate/flush/name/fileno. The argument logic of loadfile/_openfile is "
        "compared with the Lean model over all argument combinations (which object is used, which path is opened in which mode, which error). "
        "Non-trivial: an operation that reads or writes the file; distinct by (format, sample, operation, way)")

WAYS = ["str", "bytes", "pathlike", "openfile", "rawfile", "bytesio", "minimal", "kw-filename", "kw-filename-bytes", "kw-filename-pathlike",
        "kw-filename-pathlib", "kw-fileobj", "kw-both"]


class PL(object):
    def __init__(self, p):
        self.p = p

    def __fspath__(self):
        return self.p


def perform(fmt, data, op, way, tmpdir, name):
    """returns (outcome class, tags snapshot, resulting bytes, notes)"""
    path = os.path.join(tmpdir, name)
    with open(path, "wb") as h:
        h.write(data)
    notes = []
    fobj = None; handle = None
    if way == "str":
        pos, kw = (path,), {}
    elif way == "bytes":
        pos, kw = (os.fsencode(path),), {}
    elif way == "pathlike":
        pos, kw = (PL(path),), {}
    elif way == "kw-filename":
        pos, kw = (), {"filename": path}
    elif way == "kw-filename-bytes":
        pos, kw = (), {"filename": os.fsencode(path)}
    elif way == "kw-filename-pathlike":
        pos, kw = (), {"filename": PL(path)}
    elif way == "kw-filename-pathlib":
        import pathlib
        pos, kw = (), {"filename": pathlib.Path(path)}
    elif way == "openfile":
        handle = open(path, "rb+"); fobj = handle
        pos, kw = (fobj,), {}
    elif way == "rawfile":
        # an unbuffered real file (io.FileIO, a RawIOBase): still the caller's object, never to be closed or wrapped away
        handle = open(path, "rb+", buffering=0); fobj = handle
        pos, kw = (fobj,), {}
    elif way == "bytesio":
        fobj = io.BytesIO(data); fobj.name = name
        pos, kw = (fobj,), {}
    elif way == "kw-fileobj":
        fobj = io.BytesIO(data); fobj.name = name
        pos, kw = (), {"fileobj": fobj}
    elif way == "kw-both":
        # a file object together with a file name: the object is what is read and written, the name is only remembered
        # (no file of that name exists)
        fobj = io.BytesIO(data)
        pos, kw = (), {"fileobj": fobj, "filename": os.path.join(tmpdir, "no-such-dir", name)}
    else:
        fobj = MinimalFile(data, name=name)
        pos, kw = (fobj,), {}

    def rewind():
        if fobj is not None:
            fobj.seek(0)

    def result_bytes():
        if way in ("bytesio", "kw-fileobj", "kw-both", "minimal"):
            return fobj.getvalue()
        if handle is not None:
            handle.flush()
        with open(path, "rb") as h:
            return h.read()
    try:
        obj = fmt.cls(*pos, **kw)
        stored = getattr(obj, "filename", None) if not isinstance(obj, _TagFile) else getattr(obj.tags, "filename", None)
        if fobj is None and stored not in (path, os.fsencode(path)):
            notes.append("filename:%s" % type(stored).__name__)
        if op == "load":
            out = ("ok", F.snapshot(fmt, obj), result_bytes())
        elif op == "save":
            F.put(fmt, obj, 2, "C17 value ä")
            F.put(fmt, obj, 4, "x" * 700)
            rewind()
            obj.save(*pos, **kw)
            out = ("ok", F.snapshot(fmt, obj), result_bytes())
        elif op == "delete":
            rewind()
            obj.delete(*pos, **kw)
            out = ("ok", F.snapshot(fmt, obj), result_bytes())
        else:
            import containers
            fn = containers.module_delete(fmt)
            rewind()
            fn(*pos, **kw)
            out = ("ok", None, result_bytes())
    except Exception as e:
        from mutagen import MutagenError
        out = ("MutagenError" if isinstance(e, MutagenError) else type(e).__name__, None, None)
        notes.append(str(e)[:100])
    if way == "minimal":
        extra = sorted(set(fobj.requested) - MinimalFile.DOCUMENTED)
        if extra:
            notes.append("asked:" + ",".join(extra))
        if fobj.closed_called:
            notes.append("closed")
    if handle is not None:
        if handle.closed:
            notes.append("closed")
        else:
            handle.close()
    if way in ("bytesio", "kw-fileobj", "kw-both") and fobj.closed:
        notes.append("closed")
    return out, notes


def check_formats(ctx, tmpdir):
    import containers
    for fmt in F.TAGGABLE:
        samples = fmt.samples[:2] if ctx.quick else fmt.samples
        for sname in samples:
            data = F.sample_bytes(ctx.repo, sname)
            name = "f" + fmt.exts[0]
            for op in ("load", "save", "delete", "module-delete"):
                if op == "module-delete" and containers.module_delete(fmt) is None:
                    continue
                base = None
                for way in WAYS:
                    k, r = timed(lambda: perform(fmt, data, op, way, tmpdir, name), 30)
                    case = {"format": fmt.kind, "sample": sname, "op": op, "way": way}
                    ctx.case(key=(fmt.kind, sname, op, way), nontrivial=True, modelled=False,
                             sample=case if (way == "minimal" and op == "save" and sname == fmt.samples[0] and fmt.kind == "FLAC") else None)
                    ctx.hist["way:" + way] += 1
                    if k != "ok":
                        ctx.violation("%s:%s:%s:harness-%s" % (fmt.kind, op, way, k), "did not finish: %r" % (r,), case); continue
                    out, notes = r
                    ctx.hist["outcome:" + out[0]] += 1
                    if "closed" in notes:
                        ctx.violation("closes-caller-object:%s:%s" % (fmt.kind, op), "the caller's file object was closed (%s)" % way, case)
                    for n in notes:
                        if n.startswith("filename:"):
                            ctx.violation("stored-filename:%s:%s" % (fmt.kind, way), "the object's .filename is a %s, not the path "
                                          "(str or bytes) that every other way of passing the same file stores" % n[9:], case)
                    for n in notes:
                        if n.startswith("asked:"):
                            # probing with hasattr() is fine; needing the attribute shows up as a different outcome below
                            for a in n[6:].split(","):
                                ctx.hist["probed:" + a] += 1
                    if base is None:
                        base = (way, out)
                    elif out != base[1]:
                        if out[0] != base[1][0]:
                            what = "outcome %s via %s but %s via %s" % (out[0], way, base[1][0], base[0])
                            key = "differs:%s:%s:%s-vs-%s" % (fmt.kind, op, out[0], base[1][0])
                        elif out[2] != base[1][2]:
                            what = "resulting bytes differ between %s and %s" % (way, base[0]); key = "differs:%s:%s:bytes" % (fmt.kind, op)
                        else:
                            what = "tags differ between %s and %s" % (way, base[0]); key = "differs:%s:%s:tags" % (fmt.kind, op)
                        ctx.violation(key, what + " (%s)" % "; ".join(notes)[:120], case)



def check_file_detection(ctx, tmpdir):
    """mutagen.File(thing): the same type and the same tags however the file is passed - including file objects whose
    optional `name` is str or bytes (open(os.fsencode(path)) gives a bytes name)"""
    import mutagen
    from mutagen import MutagenError
    for fmt in F.FORMATS:
        samples = fmt.samples[:3] if ctx.quick else fmt.samples
        for sname in samples:
            data = F.sample_bytes(ctx.repo, sname)
            for ext in (fmt.exts[:1] if ctx.quick else fmt.exts[:2]):
                name = "g" + ext
                path = os.path.join(tmpdir, name)
                with open(path, "wb") as h:
                    h.write(data)
                base = None
                for way in ("str", "bytes", "pathlike", "openfile", "openfile-bytesname", "bytesio", "bytesio-bytesname", "minimal",
                            "kw-filename", "kw-filename-bytes", "kw-filename-pathlike", "kw-filename-pathlib", "kw-fileobj", "kw-both",
                            "kw-both-pathlike", "pos-fileobj-kw-filename"):
                    handle = None
                    try:
                        if way == "str":
                            r = mutagen.File(path)
                        elif way == "bytes":
                            r = mutagen.File(os.fsencode(path))
                        elif way == "pathlike":
                            r = mutagen.File(PL(path))
                        elif way == "kw-filename":
                            r = mutagen.File(filename=path)
                        elif way == "kw-filename-bytes":
                            r = mutagen.File(filename=os.fsencode(path))
                        elif way == "kw-filename-pathlike":
                            r = mutagen.File(filename=PL(path))
                        elif way == "kw-filename-pathlib":
                            import pathlib
                            r = mutagen.File(filename=pathlib.Path(path))
                        elif way == "kw-both-pathlike":
                            r = mutagen.File(fileobj=io.BytesIO(data), filename=PL(os.path.join(tmpdir, "no-such-dir", name)))
                        elif way == "openfile":
                            handle = open(path, "rb"); r = mutagen.File(handle)
                        elif way == "openfile-bytesname":
                            handle = open(os.fsencode(path), "rb"); r = mutagen.File(handle)
                        elif way == "bytesio":
                            f = io.BytesIO(data); f.name = path; r = mutagen.File(f)
                        elif way == "bytesio-bytesname":
                            f = io.BytesIO(data); f.name = os.fsencode(path); r = mutagen.File(f)
                        elif way == "kw-fileobj":
                            f = io.BytesIO(data); f.name = path; r = mutagen.File(fileobj=f)
                        elif way == "kw-both":
                            # the file object is what is read; the name (of no existing file) is a hint for the type only
                            r = mutagen.File(fileobj=io.BytesIO(data), filename=os.path.join(tmpdir, "no-such-dir", name))
                        elif way == "pos-fileobj-kw-filename":
                            r = mutagen.File(io.BytesIO(data), filename=os.path.join(tmpdir, "no-such-dir", name))
                        else:
                            f = MinimalFile(data, name=path); r = mutagen.File(f)
                        out = (type(r).__name__, F.snapshot(fmt, r) if (r is not None and fmt.family != "none") else None)
                    except MutagenError as e:
                        out = ("MutagenError", None)
                    except Exception as e:
                        out = (type(e).__name__, None)
                    finally:
                        if handle is not None and not handle.closed:
                            handle.close()
                    case = {"format": fmt.kind, "sample": sname, "name": name, "way": way, "op": "File"}
                    ctx.case(key=("File", fmt.kind, sname, ext, way), nontrivial=True, modelled=False, sample=None)
                    ctx.hist["File-way:" + way] += 1
                    if base is None:
                        base = (way, out)
                    elif out != base[1]:
                        ctx.violation("differs:File:%s:%s-vs-%s" % (fmt.kind, out[0], base[1][0]),
                                      "mutagen.File gives %s via %s but %s via %s" % (out[0], way, base[1][0], base[0]), case)


class _TagFile(object):
    """adapter: a tag class (ID3, APEv2) used like a file type (obj.tags / save / delete)"""
    tagcls = None; nohdr = None; lenient = False

    def __init__(self, *a, **k):
        try:
            self.tags = self.tagcls(*a, **k)
        except self.nohdr:
            if not self.lenient:
                raise
            self.tags = self.tagcls()      # the documented pattern: start an empty tag, save it to the file

    def save(self, *a, **k): return self.tags.save(*a, **k)
    def delete(self, *a, **k): return self.tags.delete(*a, **k)


class _PseudoFmt(object):
    def __init__(self, kind, family, cls):
        self.kind = kind; self.family = family; self.cls = cls; self.exts = (".bin",)


def tiny_files():
    """small and tiny files for the tag-level classes: shorter than an ID3v1 block plus the 3 extra bytes find_id3v1
    reads (131), exactly there, just above; with and without tags"""
    from mutagen.id3 import ID3, TIT2
    from mutagen.apev2 import APEv2
    v1 = b"TAG" + b"Title".ljust(30, b"\0") + b"Artist".ljust(30, b"\0") + b"Album".ljust(30, b"\0") + b"2004" + \
        b"Comment".ljust(28, b"\0") + b"\0\x05" + b"\x11"
    assert len(v1) == 128
    f = io.BytesIO(); t = ID3(); t.add(TIT2(encoding=3, text=["tiny"])); t.save(f, v1=0, padding=lambda i: 0); v2 = f.getvalue()
    f = io.BytesIO(); a = APEv2(); a["Title"] = "tiny"; a.save(f); ape = f.getvalue()
    id3 = [("v1-only-128", v1), ("2+v1-130", b"\xff\xfb" + v1), ("3+v1-131", b"\xff\xfb\x90" + v1), ("4+v1-132", b"\xff\xfb\x90\x64" + v1),
           ("50+v1", b"\xff\xfb\x90\x64" + b"a" * 46 + v1), ("empty", b""), ("3-bytes", b"ID3"), ("v2-only-small", v2),
           ("v2+v1-small", v2 + v1), ("v2+20", v2 + b"\xff\xfb\x90\x64" + b"a" * 16), ("junk-100", b"j" * 100), ("short-v1-127", v1[:127])]
    apes = [("ape-only", ape), ("ape+v1", ape + v1), ("10+ape", b"a" * 10 + ape), ("v1-only-128", v1), ("junk-40", b"j" * 40), ("empty", b""),
            ("footer-sized-32", b"j" * 32), ("ape-footer-only", ape[-32:])]
    return id3, apes


def check_tag_classes(ctx, tmpdir):
    """ID3 and APEv2 themselves (the classes that load, save and delete a tag on any file), on tiny files"""
    from mutagen.id3 import ID3, ID3NoHeaderError
    from mutagen.apev2 import APEv2, APENoHeaderError
    id3_files, ape_files = tiny_files()
    kinds = []
    for label, tagcls, nohdr, family, files in (("ID3", ID3, ID3NoHeaderError, "id3", id3_files), ("APEv2", APEv2, APENoHeaderError, "ape", ape_files)):
        strict = type("Strict" + label, (_TagFile,), {"tagcls": tagcls, "nohdr": nohdr, "lenient": False})
        lenient = type("Lenient" + label, (_TagFile,), {"tagcls": tagcls, "nohdr": nohdr, "lenient": True})
        kinds.append((label, _PseudoFmt(label, family, strict), _PseudoFmt(label, family, lenient), files))
    for label, fstrict, flenient, files in kinds:
        for fname, data in files:
            for op in ("load", "save", "delete"):
                fmt = flenient if op == "save" else fstrict
                base = None
                for way in WAYS:
                    k, r = timed(lambda: perform(fmt, data, op, way, tmpdir, "t.bin"), 30)
                    case = {"class": label, "file": fname, "data_hex": data.hex(), "op": op, "way": way}
                    ctx.case(key=("tagclass", label, fname, op, way), nontrivial=True, modelled=False,
                             sample=case if (label, fname, op, way) == ("ID3", "v1-only-128", "load", "str") else None)
                    ctx.hist["tagclass-way:" + way] += 1
                    if k != "ok":
                        ctx.violation("%s:%s:%s:harness-%s" % (label, op, way, k), "did not finish: %r" % (r,), case); continue
                    out, notes = r
                    ctx.hist["tagclass-outcome:%s:%s" % (label, out[0])] += 1
                    if "closed" in notes:
                        ctx.violation("closes-caller-object:%s:%s" % (label, op), "the caller's file object was closed (%s)" % way, case)
                    if base is None:
                        base = (way, out)
                    elif out != base[1]:
                        if out[0] != base[1][0]:
                            what = "outcome %s via %s but %s via %s" % (out[0], way, base[1][0], base[0])
                            key = "differs:%s:%s:%s-vs-%s" % (label, op, out[0], base[1][0])
                        elif out[2] != base[1][2]:
                            what = "resulting bytes differ between %s and %s" % (way, base[0]); key = "differs:%s:%s:bytes" % (label, op)
                        else:
                            what = "tags differ between %s and %s" % (way, base[0]); key = "differs:%s:%s:tags" % (label, op)
                        ctx.violation(key, what + " on the %d-byte file %s (%s)" % (len(data), fname, "; ".join(notes)[:120]), case)


GEN_WAYS = ["str", "pathlike", "openfile", "rawfile", "bytesio", "minimal", "kw-filename-pathlib", "kw-fileobj"]


def check_generated(ctx, tmpdir):
    """generated container files - the layout generators of the IFF, DSF and ASF model ties: well-formed layouts of every
    shape (tag chunk first/middle/last/absent, odd sizes, nested containers) and damaged ones (missing final pad byte,
    wrong root size, bytes behind the root, pointers off) - loaded, saved after an edit and deleted through every kind
    of file argument: same outcome, same tags, same bytes.  In-memory objects and real files differ in what truncate()
    and writes past the end do; this is where code that leans on one of them shows"""
    import random
    import iff_tie, dsf_tie, asf_tie
    from mutagen.id3 import ID3NoHeaderError
    sources = []
    for dname, (tagcls, _d) in sorted(iff_tie.tag_classes().items()):
        strict = type("Strict" + dname, (_TagFile,), {"tagcls": tagcls, "nohdr": ID3NoHeaderError, "lenient": False})
        lenient = type("Lenient" + dname, (_TagFile,), {"tagcls": tagcls, "nohdr": ID3NoHeaderError, "lenient": True})
        sources.append((dname + "-id3-chunk", _PseudoFmt(dname, "id3", strict), _PseudoFmt(dname, "id3", lenient),
                        (lambda rng, dname=dname: iff_tie.gen_file(rng, dname))))
    import apefile_tie
    from mutagen.apev2 import APEv2, APENoHeaderError

    def ape_gen(rng):
        r = apefile_tie.gen_file(rng)
        return (r[0], r[1], None) if isinstance(r, tuple) else (r, "file", None)
    sources.append(("APEv2-tag", _PseudoFmt("APEv2", "ape", type("StrictAPEgen", (_TagFile,), {"tagcls": APEv2, "nohdr": APENoHeaderError, "lenient": False})),
                    _PseudoFmt("APEv2", "ape", type("LenientAPEgen", (_TagFile,), {"tagcls": APEv2, "nohdr": APENoHeaderError, "lenient": True})), ape_gen))
    byk = {f.kind: f for f in F.TAGGABLE}
    if "DSF" in byk:
        sources.append(("DSF", byk["DSF"], byk["DSF"], lambda rng: dsf_tie.gen_file(rng, "save")))
    if "ASF" in byk:
        sources.append(("ASF", byk["ASF"], byk["ASF"], lambda rng: asf_tie.gen_file(rng)))
    # the other ties' generators: MP4 atom layouts, FLAC block sequences, Ogg streams of every codec, ID3 tags in front
    # of arbitrary bytes (the ID3 tag class itself)
    try:
        import mp4file_tie, flacload_tie, ogginject_tie, id3file_tie
        from mutagen.id3 import ID3

        def two(fn):
            def g(rng):
                r = fn(rng)
                return r[0], str(r[1]).split(":")[0].split(",")[0][:24] or "file", None
            return g
        sources.append(("MP4", byk["MP4"], byk["MP4"], two(mp4file_tie.gen_file)))
        sources.append(("FLAC", byk["FLAC"], byk["FLAC"], two(flacload_tie.gen_flac)))
        for codec, kind in (("vorbis", "OggVorbis"), ("opus", "OggOpus"), ("speex", "OggSpeex"), ("theora", "OggTheora")):
            if codec in ogginject_tie.CODECS and kind in byk:
                sources.append((kind, byk[kind], byk[kind], (lambda rng, codec=codec: ogginject_tie.gen_file(rng, codec))))
        sources.append(("ID3-tag", _PseudoFmt("ID3", "id3", type("StrictID3gen", (_TagFile,), {"tagcls": ID3, "nohdr": ID3NoHeaderError, "lenient": False})),
                        _PseudoFmt("ID3", "id3", type("LenientID3gen", (_TagFile,), {"tagcls": ID3, "nohdr": ID3NoHeaderError, "lenient": True})),
                        two(id3file_tie.gen_file)))
    except ImportError as e:
        ctx.notes.append("c17.check_generated: generator unavailable: %s" % e)
    for label, fstrict, flenient, gen in sources:
        rng = random.Random(ctx.seed * 7919 + len(label) * 31 + ord(label[0]))
        # every kind of the generator several times (the kinds are drawn with very unequal weights)
        files = []; tries = 0; perkind = {}
        per = ctx.budget(3, 12)
        while tries < ctx.budget(600, 4000):
            tries += 1
            data, kind, lay = gen(rng)
            if kind.startswith("sample") or len(data) > 300000 or perkind.get(kind, 0) >= (per * 3 if kind == "plain" else per):
                continue
            perkind[kind] = perkind.get(kind, 0) + 1
            files.append(("%s#%d" % (kind, len(files)), data))
        for fname, data in files:
            for op in ("load", "save", "delete"):
                fmt = flenient if op == "save" else fstrict
                base = None
                for way in GEN_WAYS:
                    k, r = timed(lambda: perform(fmt, data, op, way, tmpdir, "t" + fmt.exts[0]), 30)
                    case = {"class": label, "file": fname, "data_hex": data.hex() if len(data) < 6000 else None, "op": op, "way": way}
                    ctx.case(key=("generated", label, fname, op, way), nontrivial=True, modelled=False, sample=None)
                    ctx.hist["generated:%s:%s" % (label, fname.split("#")[0])] += 1
                    if k != "ok":
                        ctx.violation("%s:%s:%s:harness-%s" % (label, op, way, k), "did not finish: %r" % (r,), case); continue
                    out, notes = r
                    ctx.hist["generated-outcome:%s:%s:%s" % (label, op, out[0])] += 1
                    if "closed" in notes:
                        ctx.violation("closes-caller-object:%s:%s" % (label, op), "the caller's file object was closed (%s)" % way, case)
                    if base is None:
                        base = (way, out)
                    elif out != base[1]:
                        kindname = fname.split("#")[0]
                        if label == "DSF" and len(data) >= 28 and int.from_bytes(data[20:28], "little") > len(data):
                            # whatever the generator did to the file: its metadata pointer lies behind its end
                            kindname = "pointer-behind-eof"
                        if out[0] != base[1][0]:
                            what = "outcome %s via %s but %s via %s" % (out[0], way, base[1][0], base[0])
                            key = "differs:%s:%s:%s-vs-%s:%s" % (label, op, out[0], base[1][0], kindname)
                        elif out[2] != base[1][2]:
                            what = "resulting bytes differ between %s and %s (%d vs %d bytes)" % (way, base[0], len(out[2]), len(base[1][2]))
                            key = "differs:%s:%s:bytes:%s" % (label, op, kindname)
                        else:
                            what = "tags differ between %s and %s" % (way, base[0]); key = "differs:%s:%s:tags:%s" % (label, op, kindname)
                        ctx.violation(key, what + " on the %d-byte generated file %s (%s)" % (len(data), fname, "; ".join(notes)[:120]), case)


class FakeObj(object):
    def __init__(self, ident, readable, writable):
        self.ident = ident; self.readable = readable; self.writable = writable

    def read(self, n=-1):
        if not self.readable:
            raise IOError("not readable")
        return b""

    def write(self, b):
        if not self.writable:
            raise IOError("not writable")


def check_openfile_logic(ctx):
    """loadfile/_openfile argument logic vs the Lean model"""
    from mutagen import _util
    from mutagen._util import FileThing
    opened = []

    class FakeHandle(object):
        def __init__(self, path, mode):
            self.path = path; self.mode = mode; self.closed = False

        def __enter__(self):
            return self

        def __exit__(self, *a):
            self.closed = True

        def read(self, n=-1):
            return b""

        def write(self, b):
            pass

    def fake_open(path, mode="r"):
        h = FakeHandle(path, mode); opened.append(h); return h

    class Inst(object):
        pass
    things = [("none", None)]
    for p in ("a.flac",):
        things.append(("path:" + p, p))
        things.append(("pathlike:" + p, PL(p)))
    things.append(("pathlikebad", PL(17)))
    for r, w in itertools.product((True, False), repeat=2):
        things.append(("obj:3:%d:%d" % (r, w), FakeObj(3, r, w)))
    things.append(("ft:5:-", FileThing(FakeObj(5, True, True), None, "n")))
    things.append(("ft:5:b.flac", FileThing(FakeObj(5, True, True), "b.flac", "b.flac")))
    lines = []; expect = []
    _util.open = fake_open
    try:
        for (tdesc, thing), kwfn, kwobj, inst, method, writable, create in itertools.product(
                things, (None, "k.flac", PL("k.flac"), PL(17)), (None, (9, True, True), (9, True, False)), (None, "i.flac"), (True, False),
                (False, True), (False, True)):
            if create and not writable:
                continue
            instance = None
            if method:
                instance = Inst()
                if inst is not None:
                    instance.filename = inst
            elif inst is not None:
                continue
            del opened[:]
            fobj_kw = FakeObj(*kwobj) if kwobj else None
            try:
                gen = _util._openfile(instance, thing, kwfn, fobj_kw, writable, create)
                with gen as h:
                    if opened:
                        real = "ok plan=open path=%s mode=%s create=%d" % (opened[0].path, opened[0].mode, int(create))
                    else:
                        real = "ok plan=caller id=%d name=%s" % (h.fileobj.ident, h.filename or "-")
                if opened and not opened[0].closed:
                    ctx.violation("openfile:handle-left-open", "a file mutagen opened itself was not closed", {"thing": tdesc})
            except TypeError:
                real = "err type"
            except ValueError:
                real = "err value"
            except Exception as e:
                real = "err " + type(e).__name__
            line = "open thing=%s method=%d writable=%d create=%d" % (tdesc, method, writable, create)
            if kwfn:
                line += " kwfn=" + ("path:" + kwfn if isinstance(kwfn, str) else "pathlike:" + kwfn.p if isinstance(kwfn.p, str) else "pathlikebad")
            if kwobj:
                line += " kwobj=%d:%d:%d" % (kwobj[0], kwobj[1], kwobj[2])
            if inst:
                line += " inst=" + inst
            lines.append(line); expect.append(real)
            ctx.case(key=("openfile", line), nontrivial=True)
    finally:
        del _util.open
    if ctx.model_ok():
        for line, m, r in zip(lines, ctx.driver.ask(lines), expect):
            ctx.traces_validated += 1
            # the create flag only matters when the file does not exist; the fake open never fails
            if m != r:
                ctx.disagree("_openfile", {"request": line}, model=m, impl=r)


def run(ctx):
    ctx.rule = RULE
    tmpdir = tempfile.mkdtemp(prefix="verif-c17-")
    try:
        check_formats(ctx, tmpdir)
        check_file_detection(ctx, tmpdir)
        check_tag_classes(ctx, tmpdir)
        check_generated(ctx, tmpdir)
    finally:
        shutil.rmtree(tmpdir, ignore_errors=True)
    check_openfile_logic(ctx)


def search(ctx):
    old = ctx.tier; ctx.tier = "thorough"
    try:
        run(ctx)
    finally:
        ctx.tier = old
