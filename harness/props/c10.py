"""C10 — MP4 media offsets follow the data when tags change size (mutagen/mp4/__init__.py, _atom.py).

The files are synthesised from ISO 14496-12 (box = size(4) type(4) [largesize(8)] payload, size 0 =
"to the end of the file", FullBox = version(1) flags(3)); nothing here imports mutagen's parser.
The oracle re-walks every saved file with the walker below (also written from the box grammar) and
checks, independently of mutagen,

  (i)   every stco / co64 entry and every tfhd base_data_offset addresses the same 16 bytes as the
        same entry did in the original file (and the i-th entry of a synthesised table still points
        at the i-th marker chunk),
  (ii)  at every nesting level the children tile their parent exactly (size field = extent),
  (iii) the file reloads in mutagen with the tags that were set.

Where the compiled Lean driver knows `mp4` the bytes of every save are also compared with the
model (Model/Container/Mp4.lean: splice + __update_parents + __update_offsets).
"""
import io, os, struct
from vcheck import hx, unhx, parse_fields
from guards import timed

RULE = ("MP4 files synthesised from the ISO 14496-12 box grammar: moov before/after mdat x 1-3 trak (stco and co64, entries on "
        "distinct marker chunks) x udta none/before trak/after trak x meta/ilst missing/empty/tagged x free atoms "
        "before/after ilst, after a foreign atom, in udta, in moov, at top level x 64-bit sizes on mdat/moov/udta/meta/trak x "
        "size-0 last atom x 0-3 moof/traf/tfhd (base-data-offset) ; plus every *.m4a/*.m4b/*.mp4/*.3g2 in tests/data. "
        "Histories through mutagen.mp4.MP4 on BytesIO: tags of 0 B / small / 5 KB / 200 KB / cover art, padding default/0/large, "
        "delete, save through a fresh object, repeated saves. Non-trivial: a save or delete that changed the file length; "
        "distinct by (layout, history prefix)")

MEDIA_WINDOW = 16


# ------------------------------------------------------------------------------------------
# box writer (ISO 14496-12 §4.2)

def box(name, payload, wide=False, zero=False):
    assert len(name) == 4
    if zero:
        return struct.pack(">I4s", 0, name) + payload
    if wide:
        return struct.pack(">I4sQ", 1, name, 16 + len(payload)) + payload
    return struct.pack(">I4s", 8 + len(payload), name) + payload


def full(name, version, flags, payload, **kw):
    return box(name, bytes([version]) + flags.to_bytes(3, "big") + payload, **kw)


def filler(seed, n):
    return bytes((seed * 31 + 7 * i * i + i) % 251 + 1 for i in range(n))


def marker(kind, t, c):
    """a media chunk: a unique 12-byte label and 8..27 bytes of filler"""
    lab = ("%s%02d#%04d::" % (kind, t, c)).encode()
    return lab + filler(t * 100 + c, 8 + (t * 7 + c * 3) % 20)


def text_item(name, text):
    return box(name, box(b"data", struct.pack(">II", 1, 0) + text.encode("utf-8")))


HDLR_META = full(b"hdlr", 0, 0, b"\0\0\0\0" + b"mdir" + b"appl" + b"\0" * 8 + b"\0")


class Layout(object):
    """parameters of a synthesised file; `describe()` is the stable, JSON-able form"""
    FIELDS = ("moov_first", "traks", "udta", "meta", "ilst", "free", "wide", "zero_last", "nmoof", "tfhd_noflag",
              "ilst_first", "nchunks", "split", "tfhd_extra")

    def __init__(self, **kw):
        self.moov_first = True
        self.traks = ["stco"]          # one of "stco"/"co64" per trak
        self.udta = "after"            # "none" | "before" (udta before trak) | "after"
        self.meta = True
        self.ilst = "tagged"           # "none" | "empty" | "tagged"
        self.free = ()                 # subset of: before-ilst after-ilst meta-far udta moov top-pre top-mid top-end
        self.wide = ()                 # subset of: mdat moov udta meta trak table tfhd (64-bit size header on that atom)
        self.zero_last = False         # last top-level atom written with size 0
        self.nmoof = 0
        self.tfhd_noflag = False       # add a traf whose tfhd has no base-data-offset
        self.ilst_first = False        # meta = [ilst, hdlr, ...] instead of [hdlr, ilst, ...]
        self.nchunks = 3
        self.split = False             # mdat, moov, mdat: every table addresses chunks on both sides of moov
        self.tfhd_extra = 0            # further tf_flags next to base-data-offset-present: 0x020000 default-base-is-moof,
                                       # 0x000002 sample-description-index, 0x000008 default-sample-duration, ...
        for k, v in kw.items():
            assert k in self.FIELDS, k
            setattr(self, k, v)

    def describe(self):
        return {k: (list(getattr(self, k)) if isinstance(getattr(self, k), (tuple, list)) else getattr(self, k))
                for k in self.FIELDS}

    def key(self):
        return repr(sorted(self.describe().items()))


def build(lay):
    """-> (file bytes, expected) where expected = list of (kind, table index, entry index, marker bytes)"""
    ntrak = len(lay.traks)
    chunks = []
    for c in range(lay.nchunks):
        for t in range(ntrak):
            chunks.append((t, c, marker("T", t, c)))
    rel = {}
    payload = b"mdat-lead-in"          # media data does not have to start at the first payload byte
    payload2 = b"second-mdat-lead"     # split layouts: odd chunks live in a second mdat behind moov
    for t, c, m in chunks:
        if lay.split and c % 2 == 1:
            rel[(t, c)] = (1, len(payload2))
            payload2 += m
        else:
            rel[(t, c)] = (0, len(payload))
            payload += m
    wide = set(lay.wide)

    def trak(t, kind, base):
        if not isinstance(base, tuple):
            base = (base, base)
        entries = [base[rel[(t, c)][0]] + rel[(t, c)][1] for c in range(lay.nchunks)]
        if kind == "stco":
            table = full(b"stco", 0, 0, struct.pack(">I", len(entries)) + b"".join(struct.pack(">I", e) for e in entries),
                         wide=("table" in wide and t == 0))
        else:
            table = full(b"co64", 0, 0, struct.pack(">I", len(entries)) + b"".join(struct.pack(">Q", e) for e in entries),
                         wide=("table" in wide and t == 0))
        # MP4AudioSampleEntry with its ESDBox (ISO 14496-14 §5.6, 14496-1 §7.2.6): AAC LC, 44.1 kHz, stereo
        dsi = b"\x05\x02\x12\x10"
        dcd = b"\x04" + bytes([13 + len(dsi)]) + b"\x40\x15" + b"\0\0\0" + struct.pack(">II", 128000, 128000) + dsi
        esd = b"\x03" + bytes([3 + len(dcd) + 3]) + b"\0\0\0" + dcd + b"\x06\x01\x02"
        stsd_entry = box(b"mp4a", b"\0" * 6 + struct.pack(">H", 1) + b"\0" * 8 + struct.pack(">HHHHI", 2, 16, 0, 0, 44100 << 16) +
                         full(b"esds", 0, 0, esd))
        stbl = box(b"stbl",
                   full(b"stsd", 0, 0, struct.pack(">I", 1) + stsd_entry) +
                   full(b"stts", 0, 0, struct.pack(">III", 1, lay.nchunks, 1024)) +
                   full(b"stsc", 0, 0, struct.pack(">IIII", 1, 1, 1, 1)) +
                   full(b"stsz", 0, 0, struct.pack(">II", 20, lay.nchunks)) +
                   table)
        minf = box(b"minf", full(b"smhd", 0, 0, b"\0" * 4) +
                   box(b"dinf", full(b"dref", 0, 0, struct.pack(">I", 1) + full(b"url ", 0, 1, b""))) + stbl)
        mdia = box(b"mdia", full(b"mdhd", 0, 0, struct.pack(">IIIIHH", 0, 0, 44100, 1024 * lay.nchunks, 0x55C4, 0)) +
                   full(b"hdlr", 0, 0, b"\0\0\0\0" + (b"soun" if t == 0 else b"vide") + b"\0" * 12 + b"h\0") + minf)
        tkhd = full(b"tkhd", 0, 7, struct.pack(">IIIII", 0, 0, t + 1, 0, 1024 * lay.nchunks) + b"\0" * 60)
        return box(b"trak", tkhd + mdia, wide=("trak" in wide and t == 0))

    def udta():
        if lay.udta == "none":
            return b""
        inner = b""
        if "udta" in lay.free:
            inner += box(b"free", b"\0" * 9)
        if lay.meta:
            kids = []
            il = None
            if lay.ilst == "empty":
                il = box(b"ilst", b"")
            elif lay.ilst == "tagged":
                il = box(b"ilst", text_item(b"\xa9nam", "original title") + text_item(b"\xa9too", "synth"))
            mid = []
            if "before-ilst" in lay.free and il is not None:
                mid.append(box(b"free", b"\0" * 37))
            if il is not None:
                mid.append(il)
            if "after-ilst" in lay.free and il is not None:
                mid.append(box(b"free", b"\0" * 21))
            if lay.ilst_first:
                kids = mid + [HDLR_META]
            else:
                kids = [HDLR_META] + mid
            if "meta-far" in lay.free:
                kids.append(box(b"xyz ", filler(5, 13)))
                kids.append(box(b"free", b"\0" * 30))
            inner += full(b"meta", 0, 0, b"".join(kids), wide=("meta" in wide))
        inner += box(b"name", b"user data that is not ours")
        return box(b"udta", inner, wide=("udta" in wide))

    def moov(base, zero=False):
        parts = [full(b"mvhd", 0, 0, struct.pack(">IIII", 0, 0, 44100, 1024 * lay.nchunks) + b"\0" * 80)]
        if "moov" in lay.free:
            parts.append(box(b"free", b"\0" * 11))
        traks = [trak(t, k, base) for t, k in enumerate(lay.traks)]
        if lay.udta == "before":
            parts += [udta()] + traks
        else:
            parts += traks + [udta()]
        if lay.nmoof:
            parts.append(box(b"mvex", full(b"trex", 0, 0, struct.pack(">IIIII", 1, 1, 0, 0, 0))))
        return box(b"moov", b"".join(parts), wide=("moov" in wide), zero=zero)

    pre = box(b"ftyp", b"M4A \0\0\0\0M4A mp42isom")
    if "top-pre" in lay.free:
        pre += box(b"free", b"\0" * 5)
    mid = box(b"free", b"") + box(b"wide", b"") if "top-mid" in lay.free else b""
    mdat_hl = 16 if "mdat" in wide else 8
    frag = lay.nmoof > 0
    tail_free = box(b"free", b"\0" * 3) if ("top-end" in lay.free and not lay.zero_last) else b""
    if lay.split:
        mlen = len(moov(0))
        b1 = len(pre) + mdat_hl
        first = pre + box(b"mdat", payload, wide=("mdat" in wide)) + mid
        b2 = len(first) + mlen + 8
        data = first + moov((b1, b2)) + box(b"mdat", payload2)
    elif lay.moov_first:
        mlen = len(moov(0))
        base = len(pre) + mlen + len(mid) + mdat_hl
        zero_mdat = lay.zero_last and not frag and not tail_free
        data = pre + moov(base) + mid + box(b"mdat", payload, wide=("mdat" in wide) and not zero_mdat, zero=zero_mdat)
        if zero_mdat and "mdat" in wide:
            base -= 8
            data = pre + moov(base) + mid + box(b"mdat", payload, zero=True)
    else:
        base = len(pre) + mdat_hl
        zero_moov = lay.zero_last and not frag and not tail_free
        data = pre + box(b"mdat", payload, wide=("mdat" in wide)) + mid + moov(base, zero=zero_moov)
    expected = []
    ti = 0
    # tables are met in file order trak 0..n-1 by any walker
    for t, kind in enumerate(lay.traks):
        for c in range(lay.nchunks):
            expected.append((kind, t, c, marker("T", t, c)))
    # movie fragments (ISO 14496-12 §8.8): moof(mfhd, traf(tfhd[, trun])) followed by its mdat
    for k in range(lay.nmoof):
        fpay = b"frag-lead" + marker("F", k, 0) + marker("F", k, 1)

        def moof(base_off):
            # ISO 14496-12 §8.8.7: track_ID, then the optional fields in flag order; base_data_offset (0x000001) comes
            # first and is absolute whatever the other flags say
            opt = b""
            if lay.tfhd_extra & 0x000002:
                opt += struct.pack(">I", 1)
            if lay.tfhd_extra & 0x000008:
                opt += struct.pack(">I", 1024)
            if lay.tfhd_extra & 0x000010:
                opt += struct.pack(">I", 20)
            if lay.tfhd_extra & 0x000020:
                opt += struct.pack(">I", 0)
            tf = full(b"tfhd", 0, 0x000001 | lay.tfhd_extra, struct.pack(">IQ", 1, base_off) + opt, wide=("tfhd" in wide))
            trun = full(b"trun", 0, 0x000001, struct.pack(">Ii", 2, 9))
            trafs = box(b"traf", tf + trun)
            if lay.tfhd_noflag:
                trafs += box(b"traf", full(b"tfhd", 0, 0x020000, struct.pack(">I", 2)))
            return box(b"moof", full(b"mfhd", 0, 0, struct.pack(">I", k + 1)) + trafs)
        mo = moof(0)
        last = (k == lay.nmoof - 1)
        zero = lay.zero_last and last and not tail_free
        b0 = len(data) + len(mo) + 8 + len(b"frag-lead")
        data += moof(b0) + box(b"mdat", fpay, zero=zero)
        expected.append(("tfhd", k, 0, marker("F", k, 0)))
    data += tail_free
    return data, expected


# ------------------------------------------------------------------------------------------
# independent walker (box grammar only)

SPEC_CONTAINERS = {b"moov", b"trak", b"edts", b"mdia", b"minf", b"dinf", b"stbl", b"mvex", b"moof", b"traf", b"mfra",
                   b"udta", b"ilst"}
SPEC_FULL_CONTAINERS = {b"meta"}


class Node(object):
    __slots__ = ("name", "off", "size", "hl", "kids", "path", "top_index")

    def __init__(self, name, off, size, hl, path):
        self.name = name; self.off = off; self.size = size; self.hl = hl; self.kids = None; self.path = path
        self.top_index = None


def walk(data):
    """-> (top-level nodes, errors).  Strict: children must tile their parent exactly."""
    errors = []

    def level(start, end, path):
        out = []
        pos = start
        while pos < end:
            if pos + 8 > end:
                errors.append("%d stray byte(s) at %d inside %s" % (end - pos, pos, b"/".join(path).decode("latin-1") or "file"))
                break
            size, name = struct.unpack(">I4s", data[pos:pos + 8])
            hl = 8
            if size == 1:
                if pos + 16 > end:
                    errors.append("truncated 64-bit header at %d" % pos); break
                size = struct.unpack(">Q", data[pos + 8:pos + 16])[0]
                hl = 16
            elif size == 0:
                if path:
                    errors.append("size 0 below the top level at %d (%r)" % (pos, name)); break
                size = end - pos
            if size < hl or pos + size > end:
                errors.append("atom %r at %d: size %d does not fit its parent %s (ends %d)" % (
                    name, pos, size, b"/".join(path).decode("latin-1") or "file", end))
                break
            n = Node(name, pos, size, hl, path + (name,))
            body = pos + hl
            if name in SPEC_CONTAINERS:
                n.kids = level(body, pos + size, n.path)
            elif name in SPEC_FULL_CONTAINERS:
                if size < hl + 4:
                    errors.append("meta at %d too short for its version/flags" % pos)
                else:
                    n.kids = level(body + 4, pos + size, n.path)
            out.append(n)
            pos += size
        return out
    top = level(0, len(data), ())
    for i, n in enumerate(top):
        n.top_index = i
    return top, errors


def iter_nodes(nodes, top=None):
    for n in nodes:
        t = n if top is None else top
        yield n, t
        if n.kids:
            for x in iter_nodes(n.kids, t):
                yield x


def offset_entries(data, top):
    """every chunk offset / fragment base offset in file order:
    list of dict(kind, table, index, value, where (atom path), moof_rank)"""
    out = []
    table = 0
    moofs = [n for n in top if n.name == b"moof"]
    for n, t in iter_nodes(top):
        pay = data[n.off + n.hl:n.off + n.size]
        where = b"/".join(n.path).decode("latin-1")
        if n.name in (b"stco", b"co64"):
            w = 4 if n.name == b"stco" else 8
            if len(pay) < 8:
                out.append(dict(kind=n.name.decode(), table=table, index=-1, value=None, where=where, moof_rank=None, bad="short"))
                table += 1
                continue
            cnt = struct.unpack(">I", pay[4:8])[0]
            if 8 + cnt * w != len(pay):
                out.append(dict(kind=n.name.decode(), table=table, index=-1, value=None, where=where, moof_rank=None,
                                bad="count %d does not fit %d payload bytes" % (cnt, len(pay))))
            else:
                for i in range(cnt):
                    out.append(dict(kind=n.name.decode(), table=table, index=i, where=where, moof_rank=None,
                                    value=int.from_bytes(pay[8 + i * w:8 + (i + 1) * w], "big")))
            table += 1
        elif n.name == b"tfhd":
            fl = int.from_bytes(pay[1:4], "big") if len(pay) >= 4 else 0
            if fl & 1 and len(pay) >= 16:
                rank = moofs.index(t) if t in moofs else None
                out.append(dict(kind="tfhd", table=table, index=0, where=where, moof_rank=rank,
                                value=int.from_bytes(pay[8:16], "big")))
            table += 1
    return out


def find(top, *names):
    cur = top
    node = None
    for nm in names:
        node = next((n for n in (cur or []) if n.name == nm), None)
        if node is None:
            return None
        cur = node.kids
    return node


# ------------------------------------------------------------------------------------------
# histories through the real code

def tag_values(kind, i):
    """the tag set named `kind` (what the user assigns before a save)"""
    from mutagen.mp4 import MP4Cover
    if kind == "empty":
        return {}
    if kind == "small":
        return {"\xa9nam": ["t%d" % i], "trkn": [(i % 9 + 1, 12)]}
    if kind == "5k":
        return {"\xa9nam": ["five kilobytes"], "\xa9lyr": [("lyrics %d " % i) * 500]}
    if kind == "200k":
        return {"\xa9nam": ["big"], "covr": [MP4Cover(filler(i, 200000), MP4Cover.FORMAT_PNG)]}
    if kind == "cover":
        return {"\xa9alb": ["with art"], "covr": [MP4Cover(filler(i + 3, 1500), MP4Cover.FORMAT_JPEG)],
                "----:com.apple.iTunes:verif": [b"freeform %d" % i]}
    raise ValueError(kind)


PADS = {"default": None, "zero": (lambda info: 0), "large": (lambda info: 50000), "odd": (lambda info: 333),
        "keep": (lambda info: max(info.padding, 0)), "four": (lambda info: 4)}

TAG_KINDS = ["empty", "small", "5k", "200k", "cover"]


def gen_history(rng, length, big_ok=True):
    ops = []
    for _ in range(length):
        r = rng.random()
        if r < 0.72:
            kinds = TAG_KINDS if big_ok else [k for k in TAG_KINDS if k != "200k"]
            ops.append(("save", rng.choice(kinds), rng.choice(["default", "default", "zero", "large", "odd", "keep"]),
                        rng.random() < 0.3))
        elif r < 0.86:
            ops.append(("delete",))
        else:
            ops.append(("save", None, rng.choice(["default", "zero"]), rng.random() < 0.5))   # repeated save, same tags
    return ops


FIXED_HISTORIES = [
    [("save", "small", "default", False), ("save", "5k", "default", False), ("save", "empty", "default", False),
     ("save", "small", "zero", True)],
    [("save", "200k", "default", False), ("save", "small", "zero", False), ("delete",), ("save", "cover", "large", False)],
    [("save", "5k", "zero", False), ("save", None, "default", True), ("save", "empty", "zero", False), ("save", "5k", "odd", False)],
]


def snapshot(tags):
    if tags is None:
        return {}
    out = {}
    for k, v in tags.items():
        out[k] = [bytes(x) if isinstance(x, (bytes, bytearray)) else x for x in v] if isinstance(v, list) else v
    return out


class Session(object):
    def __init__(self, data):
        from mutagen.mp4 import MP4
        self.MP4 = MP4
        self.f = io.BytesIO(data)
        self.obj = MP4(self.f)
        self.count = 0

    @property
    def data(self):
        return self.f.getvalue()

    def apply(self, op):
        if op[0] == "save":
            _, kind, pad, fresh = op
            if self.obj.tags is None:
                self.obj.add_tags()
            if kind is not None:
                self.count += 1
                want = tag_values(kind, self.count)
                for k in list(self.obj.tags.keys()):
                    del self.obj.tags[k]
                for k, v in want.items():
                    self.obj.tags[k] = v
            if fresh:
                keep = dict(self.obj.tags.items())
                self.f = io.BytesIO(self.data)
                self.obj = self.MP4(self.f)
                if self.obj.tags is None:
                    self.obj.add_tags()
                for k in list(self.obj.tags.keys()):
                    del self.obj.tags[k]
                for k, v in keep.items():
                    self.obj.tags[k] = v
            self.f.seek(0)
            if PADS[pad] is None:
                self.obj.save(self.f)
            else:
                self.obj.save(self.f, padding=PADS[pad])
        elif op[0] == "delete":
            self.f.seek(0)
            self.obj.delete(self.f)
        return snapshot(self.obj.tags)


# ------------------------------------------------------------------------------------------
# the oracle

def media_reference(data, top):
    """the media bytes every offset entry of the ORIGINAL file addresses"""
    ref = []
    for e in offset_entries(data, top):
        if e["value"] is None:
            ref.append((e, None))
        else:
            ref.append((e, data[e["value"]:e["value"] + MEDIA_WINDOW]))
    return ref


def stale_key(e, quirks=()):
    if e["kind"] == "tfhd":
        if e["moof_rank"] is not None and e["moof_rank"] >= 1:
            return "mp4:tfhd-stale:second-moof"
    wide = "".join(":" + q for q in quirks if q.startswith("wide-"))
    return "mp4:%s-stale%s" % (e["kind"], wide)


def check_file(ctx, ref, expected, after, case, quirks, top_names=None):
    """(i) + (ii) on the bytes `after`; returns True when the file is still well-formed"""
    top, errors = walk(after)
    ok = True
    if not errors and top_names is not None and [n.name for n in top] != top_names:
        # sizes tile, but not the way they did: e.g. the children of moov are top-level atoms now
        errors = ["the sequence of top-level atoms changed: %r -> %r" % (
            b" ".join(top_names).decode("latin-1"), b" ".join(n.name for n in top).decode("latin-1"))]
    if errors:
        ok = False
        key = "mp4:parent-size"
        for q in quirks:
            key += ":" + q
        ctx.violation(key, "size fields no longer equal extents: " + "; ".join(errors[:3]), case)
    ents = offset_entries(after, top)
    if [(e["kind"], e["table"], e["index"]) for e in ents] != [(e["kind"], e["table"], e["index"]) for e, _ in ref]:
        if not errors:
            ctx.violation("mp4:offset-tables-changed-shape", "the set of chunk offset entries changed: %d -> %d entries" % (
                len(ref), len(ents)), case)
        return ok
    seen = set()
    for (e0, media), e1 in zip(ref, ents):
        if media is None or e1["value"] is None:
            continue
        now = after[e1["value"]:e1["value"] + MEDIA_WINDOW]
        if now != media:
            k = stale_key(e1, quirks)
            if k not in seen:
                seen.add(k)
                ctx.violation(k, "%s entry %d of %s: was %d -> is %d, which no longer addresses the same media bytes "
                              "(%r before, %r now)" % (e1["kind"], e1["index"], e1["where"], e0["value"], e1["value"],
                                                       media[:12], now[:12]), case)
    if expected is not None and len(expected) == len(ents):
        for (kind, t, c, m), e1 in zip(expected, ents):
            if e1["value"] is not None and after[e1["value"]:e1["value"] + len(m)] != m:
                k = stale_key(e1, quirks) if stale_key(e1, quirks) in seen else stale_key(e1, quirks) + ":marker"
                if k not in seen:
                    seen.add(k)
                    ctx.violation(k, "%s entry (%d,%d) no longer points at its marker chunk" % (kind, t, c), case)
    return ok


def mdat_payloads(data, top):
    return [data[n.off + n.hl:n.off + n.size] for n in top if n.name == b"mdat"]


def pyerr_name(e):
    """the PyErr name the model uses for a Python exception"""
    from mutagen import MutagenError
    if isinstance(e, MutagenError):
        return "mutagen"
    return {"error": "struct", "KeyError": "key", "ValueError": "value", "IndexError": "index",
            "OverflowError": "overflow"}.get(type(e).__name__, type(e).__name__)


def model_fits(jobs, before, after):
    """small files always go to the model, large ones (200 KB covers) a few per run"""
    n = len(before) + len(after)
    if n <= jobs["limit"]:
        return True
    if jobs["big_left"] > 0 and n <= 1500000:
        jobs["big_left"] -= 1
        return True
    return False


def model_request(before, after):
    return "mp4 op=save data=%s after=%s" % (hx(before), hx(after))


def run_history(ctx, name, data, expected, ops, lay_desc, quirks, model_jobs, sample=False):
    """apply `ops` to `data` through the real code, oracle after each step"""
    from mutagen import MutagenError
    top0, err0 = walk(data)
    if err0:
        ctx.hist["skipped-original-not-wellformed"] += 1
        ctx.notes.append("%s: original not accepted by the independent walker: %s" % (name, err0[0]))
        return
    ref = media_reference(data, top0)
    media0 = mdat_payloads(data, top0)
    names0 = [n.name for n in top0]
    kind, sess = timed(lambda: Session(data), 20)
    if kind != "ok":
        ctx.hist["skipped-mutagen-rejects-original"] += 1
        ctx.notes.append("%s: mutagen does not load the original: %r" % (name, sess))
        return
    trail = []
    for op in ops:
        trail.append(list(map(str, op)))
        case = {"layout": lay_desc, "file": name, "history": list(trail), "original_hex": hx(data) if len(data) <= 4096 else None}
        before = sess.data
        kind, want = timed(lambda: sess.apply(op), 30)
        after = sess.data
        changed = len(after) != len(before)
        ctx.case(key=(name, repr(trail)), nontrivial=changed, modelled=True,
                 sample={"layout": lay_desc, "file": name, "history": list(trail)} if sample and len(trail) == 2 else None)
        ctx.hist["op:" + op[0]] += 1
        ctx.hist["delta:" + ("0" if not changed else "grow" if len(after) > len(before) else "shrink")] += 1
        if kind == "hang":
            ctx.violation("mp4:hang", "operation did not finish", case); return
        if kind == "exc":
            qual = ":".join(quirks)
            ctx.hist["raised:" + type(want).__name__] += 1
            if after != before:
                # the save gave up half way: what is on disk now?
                good = check_file(ctx, ref, expected, after, case, quirks + ["after-exception"], names0)
                if model_jobs is not None and model_fits(model_jobs, before, after):
                    model_jobs["lines"].append(model_request(before, after))
                    model_jobs["expect"].append((after, case, "err:" + pyerr_name(want), None))
                ctx.violation("mp4:save-raises-midway:%s%s" % (type(want).__name__, (":" + qual) if qual else ""),
                              "%s raised %s after modifying the file (%s)" % (op[0], type(want).__name__, str(want)[:80]), case)
            elif not isinstance(want, MutagenError):
                ctx.violation("mp4:save-raises:%s%s" % (type(want).__name__, (":" + qual) if qual else ""),
                              "%s raised %s: %s" % (op[0], type(want).__name__, str(want)[:80]), case)
            return
        if after == before:
            ctx.hist["no-change"] += 1
        # (i) (ii)
        nv = len(ctx.violations)
        good = check_file(ctx, ref, expected, after, case, quirks, names0)
        stale = any("-stale" in v["key"] for v in ctx.violations[nv:])
        top1, _ = walk(after)
        if good and mdat_payloads(after, top1) != media0:
            ctx.violation("mp4:media-bytes-changed", "the payload of an mdat atom changed", case)
        if good and op[0] == "delete":
            # nothing of the tags is left: every ilst atom of the file is empty (a delete that writes a new empty list in
            # front of the old one reloads as "no tags" and keeps every value in the file)
            left = [(b"/".join(n.path).decode("latin-1"), n.size) for n, _t in iter_nodes(top1) if n.name == b"ilst" and n.size > n.hl]
            if left:
                ctx.violation("mp4:delete-leaves-tag-atoms", "after delete the file still holds a non-empty tag list: %r" % (left[:3],), case)
        # (iii) (on a file that is still a well-formed tree; a broken tree has been reported above)
        k2, o2 = timed(lambda: sess.MP4(io.BytesIO(after)), 20) if good else ("skip", None)
        rkey = "mp4:reload" + "".join(":" + q for q in quirks)
        if k2 == "skip":
            pass
        elif k2 != "ok":
            ctx.violation(rkey, "file no longer loads: %r" % (o2,), case)
        else:
            got = snapshot(o2.tags)
            if got != want:
                ctx.violation(rkey,
                              "tags read back differ from the tags saved: keys %r vs %r" % (sorted(got), sorted(want)), case)
        # model
        if model_jobs is not None and after != before and model_fits(model_jobs, before, after):
            model_jobs["lines"].append(model_request(before, after))
            model_jobs["expect"].append((after, case, "ok", stale))
        if not good:
            return      # later steps start from a broken file: one report is enough


def layouts(ctx):
    """systematic part + random part"""
    rng = ctx.rng
    L = []
    add = lambda **kw: L.append(Layout(**kw))
    # the eight basic shapes
    for mf in (True, False):
        add(moov_first=mf)
        add(moov_first=mf, udta="none", meta=False, ilst="none")
        add(moov_first=mf, udta="after", meta=False, ilst="none")
        add(moov_first=mf, udta="before", meta=True, ilst="none")
        add(moov_first=mf, udta="before", ilst="empty", traks=["co64"])
        add(moov_first=mf, traks=["stco", "co64", "stco"], free=("before-ilst",))
        add(moov_first=mf, traks=["co64", "stco"], free=("after-ilst",), udta="before")
        add(moov_first=mf, free=("before-ilst", "after-ilst", "udta", "moov", "top-pre", "top-mid", "top-end"))
        add(moov_first=mf, free=("meta-far",))
        add(moov_first=mf, wide=("mdat",))
        add(moov_first=mf, wide=("moov",))
        add(moov_first=mf, wide=("moov", "udta", "meta", "trak", "mdat"), traks=["co64", "stco"])
        add(moov_first=mf, wide=("udta",), udta="before", meta=False, ilst="none")
        add(moov_first=mf, wide=("table",))
        add(moov_first=mf, wide=("table",), traks=["co64", "stco"])
        add(moov_first=mf, wide=("tfhd",), nmoof=1)
        add(moov_first=mf, zero_last=True)
        add(moov_first=mf, zero_last=True, udta="none", meta=False, ilst="none")
        add(moov_first=mf, nmoof=1)
        add(moov_first=mf, nmoof=1, tfhd_noflag=True, zero_last=True)
        add(moov_first=mf, nmoof=2)
        add(moov_first=mf, nmoof=2, tfhd_extra=0x020000)
        add(moov_first=mf, nmoof=1, tfhd_extra=0x02000A)
        add(moov_first=mf, nmoof=1, tfhd_extra=0x00003A)
        add(moov_first=mf, nmoof=3, udta="none", meta=False, ilst="none", tfhd_noflag=True)
    # media data on both sides of moov: one table holds entries that move and entries that stay
    add(split=True)
    add(split=True, traks=["co64", "stco"], free=("before-ilst",))
    add(split=True, udta="none", meta=False, ilst="none", nchunks=5)
    add(split=True, wide=("moov", "mdat"), free=("after-ilst", "top-mid"))
    # accepted by the parser, unusual child order inside meta
    add(ilst_first=True, free=("meta-far",))
    add(ilst_first=True, free=("after-ilst",))
    add(ilst_first=True)
    n_rand = ctx.budget(140, 600)
    for _ in range(n_rand):
        udta = rng.choice(["none", "before", "after", "after"])
        meta = udta != "none" and rng.random() < 0.8
        ilst = rng.choice(["none", "empty", "tagged", "tagged"]) if meta else "none"
        free = tuple(f for f in ("before-ilst", "after-ilst", "meta-far", "udta", "moov", "top-pre", "top-mid", "top-end")
                     if rng.random() < 0.25)
        wide = tuple(w for w in ("mdat", "moov", "udta", "meta", "trak") if rng.random() < 0.2) + \
            tuple(w for w in ("table", "tfhd") if rng.random() < 0.04)
        L.append(Layout(moov_first=rng.random() < 0.5, traks=[rng.choice(["stco", "co64"]) for _ in range(rng.choice([1, 1, 2, 3]))],
                        udta=udta, meta=meta, ilst=ilst, free=free, wide=wide, zero_last=rng.random() < 0.15,
                        nmoof=rng.choice([0, 0, 0, 1, 1, 2, 3]), tfhd_noflag=rng.random() < 0.3,
                        ilst_first=rng.random() < 0.08, nchunks=rng.choice([1, 3, 5]), split=rng.random() < 0.12,
                        tfhd_extra=rng.choice([0, 0, 0x020000, 0x02000A, 0x000008, 0x00003A])))
    seen = set(); out = []
    for l in L:
        if l.key() not in seen:
            seen.add(l.key()); out.append(l)
    return out


def targeted():
    """layouts x histories that show each known defect deterministically (run first, on every tier)"""
    return [
        (Layout(nmoof=2), [("save", "5k", "default", False)]),
        (Layout(moov_first=False, zero_last=True), [("save", "5k", "default", False)]),      # grow: size field 0 + delta
        (Layout(moov_first=False, zero_last=True), [("save", "empty", "zero", False)]),      # shrink: struct.error half way
        (Layout(ilst_first=True, free=("meta-far",)), [("save", "small", "default", False)]),
        (Layout(wide=("table",)), [("save", "5k", "default", False)]),
        (Layout(wide=("table",), traks=["co64"]), [("save", "5k", "default", False)]),
        (Layout(wide=("tfhd",), nmoof=1), [("save", "5k", "default", False)]),
    ]


def quirks_of(lay, data):
    """labels that make the finding keys stable: which unusual feature the layout has"""
    q = []
    top, _ = walk(data)
    last = top[-1] if top else None
    if lay is not None:
        if lay.zero_last and last is not None and last.name == b"moov":
            q.append("size0-moov")
        if lay.ilst_first and ("meta-far" in lay.free) and lay.meta and lay.ilst != "none":
            # (with a free atom before ilst the first save is fine and leaves ilst first; the next one hits it)
            q.append("ilst-first-free-last")
        if "table" in lay.wide:
            q.append("wide-table")
        if "tfhd" in lay.wide and lay.nmoof:
            q.append("wide-tfhd")
    return q


def sample_files(ctx):
    d = os.path.join(ctx.repo, "tests", "data")
    out = []
    for fn in sorted(os.listdir(d)):
        if fn.lower().endswith((".m4a", ".m4b", ".mp4", ".3g2", ".m4v")):
            with open(os.path.join(d, fn), "rb") as f:
                out.append((fn, f.read()))
    return out


def flush_model(ctx, jobs):
    if jobs is None or not jobs["lines"]:
        return
    try:
        answers = ctx.driver.ask(jobs["lines"])
    except RuntimeError as e:
        ctx.notes.append("driver: %s" % str(e)[:200])
        return
    for line, (after, case, want_st, stale) in zip(answers, jobs["expect"]):
        if line.startswith("bad-op"):
            ctx.hist["model:not-wired"] += 1
            continue
        st, f = parse_fields(line)
        ctx.traces_validated += 1
        ctx.hist["model:" + st] += 1
        if st != want_st or unhx(f.get("data", "-")) != after:
            m = unhx(f.get("data", "-"))
            i = next((k for k in range(min(len(m), len(after))) if m[k] != after[k]), min(len(m), len(after)))
            ctx.disagree("mp4 save", {k: case[k] for k in ("layout", "file", "history")},
                         model="%s off=%s old=%s len=%d first-difference-at=%d" % (st, f.get("off"), f.get("old"), len(m), i),
                         impl="%s len=%d" % (want_st, len(after)))
        # the theorem's reach: where the hypotheses of chunk_offsets_follow_partial hold (covered=1) it predicts that
        # every offset follows; the oracle has looked at the real file
        if st == "ok" and stale is not None:
            cov = f.get("covered") == "1"
            ctx.hist["theorem:" + ("hypotheses-hold" if cov else "hypotheses-fail")] += 1
            if cov and stale:
                ctx.disagree("chunk_offsets_follow_partial applies, yet an offset went stale on the real file",
                             {k: case[k] for k in ("layout", "file", "history")}, model="covered=1", impl="stale offset")
            if not cov and not stale:
                ctx.hist["theorem:hypotheses-fail-but-followed"] += 1
    jobs["lines"] = []; jobs["expect"] = []


def real_tree(data):
    """mutagen's own parse in the driver's notation, or 'err mutagen'"""
    from mutagen.mp4._atom import Atoms, AtomError

    def d(a):
        kids = a.children or []
        return "%s@%d+%d" % (a.name.hex(), a.offset, a.length) + ("(" + ";".join(d(k) for k in kids) + ")" if kids else "")
    try:
        atoms = Atoms(io.BytesIO(data))
    except AtomError:
        return "err mutagen"
    return ";".join(d(a) for a in atoms.atoms) or "-"


def check_walk_model(ctx, files):
    """the model's parser (`parse`) against mutagen's `Atoms`, also on damaged files; the model's strict walker
    and offset reader against the independent walker on the intact ones"""
    if not ctx.model_ok():
        return
    rng = ctx.rng
    cases = []
    for name, d in files:
        cases.append((name, d, True))
    for name, d in files[:ctx.budget(25, 200)]:
        for _ in range(4):
            cut = rng.randrange(0, len(d))
            cases.append((name + ":cut%d" % cut, d[:cut], False))
        top, _ = walk(d)
        nodes = [n for n, _ in iter_nodes(top)]
        for _ in range(4):
            n = rng.choice(nodes)
            delta = rng.choice([-9, -1, 1, 7, 8, 16])
            size = max(0, min(0xFFFF, n.size + delta)) if rng.random() < 0.8 else rng.choice([0, 1, 2, 7])
            m = bytearray(d)
            m[n.off:n.off + 4] = struct.pack(">I", size)
            cases.append((name + ":size@%d=%d" % (n.off, size), bytes(m), False))
    lines = ["mp4 op=walk data=%s" % hx(d) for _, d, _ in cases]
    try:
        ans = ctx.driver.ask(lines)
    except RuntimeError as e:
        ctx.notes.append("driver: %s" % str(e)[:200]); return
    for (name, d, intact), line in zip(cases, ans):
        if line.startswith("bad-op"):
            ctx.hist["model:not-wired"] += 1
            continue
        st, f = parse_fields(line)
        ctx.traces_validated += 1
        ctx.case(key=("parse", name), nontrivial=True, modelled=True)
        kind, rt = timed(lambda: real_tree(d), 10)
        if kind != "ok":
            ctx.hist["parse:real-raises-" + type(rt).__name__] += 1
            continue
        ctx.hist["parse:" + ("ok" if rt != "err mutagen" else "AtomError")] += 1
        mine = line if st != "ok" else f.get("tree")
        if mine != rt:
            ctx.disagree("mp4 parse", {"file": name, "hex": hx(d) if len(d) < 3000 else None}, model=line[:300], impl=rt[:300])
        if not intact:
            continue
        top, errors = walk(d)
        if errors:
            continue        # the model's strict walker knows mutagen's container set only; compared on well-formed files
        own = ",".join(str(e["value"]) for e in offset_entries(d, top) if e["value"] is not None) or "-"
        if st != "ok" or f.get("offsets") != own or f.get("strict") != "1":
            ctx.disagree("mp4 walk", {"file": name}, model=line[:300], impl="strict=1 offsets=" + own[:200])


# the witnesses of Props/C10.lean (`moof_counterexample`, `size0_moov_counterexample`, `ilst_first_counterexample`):
# name -> (Lean definition, bytes, quirk labels).  Each is saved once through the real code with no tags and padding=4,
# which writes `twoMoofNew` (empty ilst + free with 4 bytes) over the region.
WITNESS_NEW = bytes.fromhex("00000008696c73740000000c6672656500000000")
WITNESSES = [
    ("twoMoof", bytes.fromhex(
        "000000246d6f6f760000001c75647461000000146d6574610000000000000008696c7374"
        "000000286d6f6f6600000020747261660000001874666864000000010000000100000000000000540000000c6d64617441414141"
        "000000286d6f6f6600000020747261660000001874666864000000010000000100000000000000880000000c6d64617442424242"), []),
    ("size0Moov", bytes.fromhex(
        "0000000c6d64617441414141000000006d6f6f760000001c75647461000000146d6574610000000000000008696c7374"), ["size0-moov"]),
    ("ilstFirst", bytes.fromhex(
        "0000003a6d6f6f7600000032756474610000002a6d6574610000000000000008696c73740000000a78797a2058590000000c6672656500000000"
        "0000000c6d64617441414141"), ["ilst-first-free-last"]),
]
WITNESS_OPS = [("save", "empty", "four", False)]


def lean_bytes(src, name):
    import re
    m = re.search(r"def %s : Bytes :=\s*\[(.*?)\]" % name, src, re.S)
    if not m:
        return None
    return bytes(int(x, 16) for x in re.findall(r"0x([0-9a-fA-F]{2})", m.group(1)))


def check_witnesses(ctx, jobs):
    """the concrete files of the counterexample theorems, on the real code (and the same bytes in the Lean file)"""
    path = os.path.join(ctx.verif, "lean", "MutagenModel", "Props", "C10.lean")
    src = open(path).read() if os.path.exists(path) else ""
    for name, data, quirks in WITNESSES:
        if src:
            lb = lean_bytes(src, name)
            if lb != data:
                ctx.disagree("witness bytes", {"witness": name}, model=hx(lb or b"")[:120], impl=hx(data)[:120])
        run_history(ctx, name, data, None, WITNESS_OPS, {"witness": name}, list(quirks), jobs)
        ctx.hist["witness:" + name] += 1
        # the model's own choice of region, given only the new bytes
        if jobs is not None:
            try:
                line = ctx.driver.ask(["mp4 op=save data=%s new=%s" % (hx(data), hx(WITNESS_NEW))])[0]
            except RuntimeError as e:
                ctx.notes.append("driver: %s" % str(e)[:200]); continue
            if line.startswith("bad-op"):
                ctx.hist["model:not-wired"] += 1
                continue
            sess = Session(data)
            sess.apply(WITNESS_OPS[0])
            st, f = parse_fields(line)
            ctx.traces_validated += 1
            if st != "ok" or unhx(f.get("data", "-")) != sess.data:
                ctx.disagree("witness save", {"witness": name}, model=line[:300], impl=hx(sess.data)[:300])
    if src and lean_bytes(src, "twoMoofNew") != WITNESS_NEW:
        ctx.disagree("witness bytes", {"witness": "twoMoofNew"}, model=hx(lean_bytes(src, "twoMoofNew") or b""), impl=hx(WITNESS_NEW))


def check_consts(ctx):
    """`_CONTAINERS` / `_SKIP_SIZE` of the imported module against the literal copies in the model"""
    from mutagen.mp4 import _atom
    impl = "ok containers=%s skip=%s" % (",".join(n.hex() for n in _atom._CONTAINERS),
                                          ",".join("%s:%d" % (k.hex(), v) for k, v in sorted(_atom._SKIP_SIZE.items())))
    ctx.case(key="consts", nontrivial=True)
    if not ctx.model_ok():
        return False
    try:
        line = ctx.driver.ask(["mp4 op=consts"])[0]
    except RuntimeError as e:
        ctx.notes.append("driver: %s" % str(e)[:200]); return False
    if line.startswith("bad-op"):
        ctx.hist["model:not-wired"] += 1
        ctx.notes.append("the driver does not know `mp4` (Driver/Main.lean not wired): model comparison skipped")
        return False
    ctx.traces_validated += 1
    if line != impl:
        ctx.disagree("mp4 consts", {"what": "_CONTAINERS/_SKIP_SIZE"}, model=line, impl=impl)
    return True


def run_shared(ctx, hists, tag):
    """the MP4 layout family of this module (moov first/last, media data on both sides of moov, 64-bit atom headers, the
    orders of ilst and free inside meta, moof fragments, size-0 last atom) under the histories `hists(i)` of another
    property, with this module's structural oracle after every step: the atom tree is well formed with consistent sizes,
    every stco/co64/tfhd entry still addresses the same media bytes, the mdat payloads are unchanged and the file
    reloads to the tags last saved.  C07 (re-save), C08 (delete) and C09 (padding kept) all state that the bytes that
    are not tags stay where the file's own tables find them"""
    lays = [l for l, _ in targeted()] + layouts(ctx)
    n0 = ctx.evaluations
    for li, lay in enumerate(lays):
        data, expected = build(lay)
        desc = lay.describe(); q = quirks_of(lay, data)
        for ops in hists(li):
            run_history(ctx, "%s-synth%d" % (tag, li), data, expected, ops, desc, q, None)
    ctx.hist["mp4-layout-family:layouts"] += len(lays)
    ctx.hist["mp4-layout-family:steps"] += ctx.evaluations - n0


def run(ctx, thorough_histories=None):
    ctx.rule = RULE
    rng = ctx.rng
    jobs = {"lines": [], "expect": [], "limit": ctx.budget(60000, 200000), "big_left": ctx.budget(4, 40)} if ctx.model_ok() else None
    if not check_consts(ctx):
        jobs = None
    check_witnesses(ctx, jobs)
    lays = layouts(ctx)
    files = []
    for ti, (lay, ops) in enumerate(targeted()):
        data, expected = build(lay)
        run_history(ctx, "target%d" % ti, data, expected, ops, lay.describe(), quirks_of(lay, data), jobs)
    for li, lay in enumerate(lays):
        data, expected = build(lay)
        files.append(("synth%d" % li, data))
        desc = lay.describe()
        q = quirks_of(lay, data)
        hists = []
        if li < 12 or li % 5 == 0:
            hists.append(FIXED_HISTORIES[li % len(FIXED_HISTORIES)])
        for _ in range(ctx.budget(3, 5)):
            hists.append(gen_history(rng, ctx.budget(5, 10), big_ok=(rng.random() < ctx.budget(0.15, 0.5))))
        for hi, ops in enumerate(hists):
            run_history(ctx, "synth%d" % li, data, expected, ops, desc, q, jobs, sample=(li in (5, 17) and hi == 0))
        ctx.hist["layout:moov-%s" % ("first" if lay.moov_first else "last")] += 1
        ctx.hist["layout:moof=%d" % lay.nmoof] += 1
        if len(jobs["lines"]) > 40 if jobs else False:
            flush_model(ctx, jobs)
    for fn, data in sample_files(ctx):
        files.append((fn, data))
        for hi in range(ctx.budget(2, 6)):
            ops = FIXED_HISTORIES[hi % len(FIXED_HISTORIES)] if hi < 2 else gen_history(rng, 8)
            run_history(ctx, fn, data, None, ops, {"sample": fn}, [], jobs, sample=(fn == "has-tags.m4a" and hi == 0))
        ctx.hist["layout:sample-file"] += 1
    flush_model(ctx, jobs)
    if jobs is not None:
        check_walk_model(ctx, [(n, d) for n, d in files if len(d) < 200000][:ctx.budget(80, 600)])
        # load / save / delete of the model on damaged files, exception classes included (Props/C04_Mp4.lean)
        import mp4file_tie
        mp4file_tie.run(ctx)


def search(ctx):
    old = ctx.tier; ctx.tier = "thorough"
    try:
        run(ctx)
    finally:
        ctx.tier = old


def replay(ctx, payload):
    c = payload["case"]
    ctx.rule = RULE
    lay = None
    if "witness" in c.get("layout", {}):
        name, data, quirks = next(w for w in WITNESSES if w[0] == c["layout"]["witness"])
        ops = [tuple((None if x == "None" else True if x == "True" else False if x == "False" else x) for x in op) for op in c["history"]]
        ctx.case(key="replay", sample=c)
        run_history(ctx, name, data, None, ops, c["layout"], list(quirks), None)
        return
    if "sample" in c.get("layout", {}):
        with open(os.path.join(ctx.repo, "tests", "data", c["layout"]["sample"]), "rb") as f:
            data = f.read()
        expected = None
    else:
        lay = Layout(**{k: (tuple(v) if isinstance(v, list) and k in ("free", "wide") else v) for k, v in c["layout"].items()})
        data, expected = build(lay)
    ops = [tuple((None if x == "None" else True if x == "True" else False if x == "False" else x) for x in op) for op in c["history"]]
    ctx.case(key="replay", sample=c)
    run_history(ctx, c.get("file", "replay"), data, expected, ops, c["layout"], quirks_of(lay, data), None)
