"""C12 — Every ID3 frame type survives binary encoding (mutagen/id3/_specs.py, _frames.py, _tags.py).

Driven by the frame table obtained by introspection (`mutagen.id3.Frames`, `Frames_2_2`), so every
class is hit.  Per generated frame:
  (i)   ID3().add(frame); save(BytesIO, v2_version=4|3); ID3(fileobj, translate=False) (and
        translate=True where the class survives): same class, equal field values (gains within
        1/512 dB, peaks within 1/32768);
  (ii)  an independent decoder of the written frame bytes (from the ID3v2.3/2.4 documents; does not
        import mutagen) for T***, TXXX, W***, WXXX, COMM, USLT, APIC, PRIV, UFID, POPM, PCNT, GEOB
        agrees with the values set;
  (iii) the plain frame bytes re-framed by hand (unsynchronisation flag, data length indicator,
        zlib compression for v2.4 and v2.3, whole-tag unsynchronisation for v2.3, the ID3v2.2
        three-letter equivalent) load to the same values as the plain frame;
  (iv)  correspondence with the Lean model (driver command `id3spec`): spec-level bytes
        (`spec.write`), spec-level reads, `_writeData`, `_fromData`; skipped when the driver
        answers `bad-op`.

Violation keys: `<FRAME>:v2.4:roundtrip`, `<FRAME>:v2.3:roundtrip`, `<FRAME>:translate:roundtrip`,
`<FRAME>:v2.x:independent-decoder`, `<FRAME>:unsynchronised-input`, `<FRAME>:data-length-input`,
`<FRAME>:unsynch+data-length-input`, `<FRAME>:compressed-input`, `<FRAME>:compressed+unsynch-input`,
`<FRAME>:v2.3-compressed-input`, `<FRAME>:v2.3-tag-unsynchronised-input`, `<FRAME>:v2.2-input`,
`<FRAME>:tag+frame-unsynchronised-input`, `<FRAME>:negative-count-hangs|-not-rejected|-raises-<Exc>`,
`<FRAME>:construct`, `<FRAME>:v2.x:save`, `<FRAME>:v2.x:not-a-valid-tag`, `mixed-tag:v2.x:roundtrip`,
`determine_bpi` (DESIGN §6 F6), and for two value classes that this check singles out so that they do
not hide other round-trip failures of the same frame: `<FRAME>:v2.3:zero-tail` (a non-empty value made
only of NUL bytes after a text field is dropped when a v2.3 tag is read) and `<FRAME>:mixed-width`
(RVAD/RVA values of different byte widths).  Degenerate values (empty lists, a frame whose trailing
texts are all empty under v2.3) are counted in the histogram, not reported.

Until Driver/Main.lean dispatches `id3spec`, a scratch driver can be named with VERIF_C12_DRIVER.
"""
import io, os, struct, zlib, decimal, subprocess, collections
from vcheck import hx, unhx, parse_fields
from guards import timed

RULE = ("every class of mutagen.id3.Frames and Frames_2_2 (by introspection) x text encodings {latin1, utf16, utf16be, utf8} where "
        "the class has an EncodingSpec x value variants per spec kind (empty / Latin-1 / BMP / astral / BOM-leading text, multi-values, "
        "empty descriptions, byte payloads with 0x00/0xFF runs and false syncs, integer extremes of every width incl. 5-byte counters, "
        "gains/peaks at the ends of the 16-bit range, 2- and 3-byte RVAD magnitudes, nested CHAP/CTOC sub-frames, optional specs "
        "absent/partly/all present) x output v2.4 / v2.3 (v23_sep None and '/') x input framing {plain, unsynchronised, data-length, "
        "unsynch+data-length, zlib v2.4, zlib+unsynch, zlib v2.3, whole-tag unsynch v2.3, v2.2 three-letter}; plus crafted "
        "determine_bpi and negative-counter cases. Non-trivial: the frame was written with a non-empty body; distinct by "
        "(class, encoding, variant, output version)")

ENC_NAME = {0: "latin1", 1: "utf16", 2: "utf16be", 3: "utf8"}
V24_ONLY_TRANSLATE_SKIP = {"TYER", "TDAT", "TIME", "TORY", "IPLS", "RVAD", "EQUA", "TRDA", "TSIZ", "TCON", "CHAP", "CTOC"}


# ------------------------------------------------------------------------------------------
# driver access (the production driver, or a scratch one named by VERIF_C12_DRIVER while
# `id3spec` is not yet dispatched by Driver/Main.lean)

class Model:
    def __init__(self, ctx):
        self.ctx = ctx
        self.path = os.environ.get("VERIF_C12_DRIVER")
        self.ok = False
        try:
            if self.path or ctx.model_ok():
                r = self.ask(["id3spec op=classes"])
                self.ok = r[0].startswith("ok n=")
                self.classes = int(r[0].split("=")[1]) if self.ok else 0
        except Exception as e:
            ctx.notes.append("model probe failed: %r" % (e,))
        if not self.ok:
            ctx.notes.append("driver does not dispatch `id3spec` (or model side unavailable): correspondence skipped")

    def ask(self, lines):
        if not lines:
            return []
        if self.path:
            p = subprocess.run([self.path], input=("\n".join(lines) + "\n").encode(), stdout=subprocess.PIPE,
                               stderr=subprocess.PIPE, timeout=3600)
            out = p.stdout.decode().split("\n")
            if out and out[-1] == "":
                out.pop()
            if p.returncode != 0 or len(out) != len(lines):
                raise RuntimeError("scratch driver protocol error rc=%s %d/%d %s" % (
                    p.returncode, len(out), len(lines), p.stderr.decode()[-300:]))
            return out
        return self.ctx.driver.ask(lines)


# ------------------------------------------------------------------------------------------
# helpers that do not use mutagen

def syncsafe(n):
    return bytes([(n >> 21) & 0x7F, (n >> 14) & 0x7F, (n >> 7) & 0x7F, n & 0x7F])


def unsyncsafe(b):
    return (b[0] << 21) | (b[1] << 14) | (b[2] << 7) | b[3]


def ref_unsynch(b):
    """ID3v2.4 structure §6.1"""
    out = bytearray()
    for i, x in enumerate(b):
        out.append(x)
        if x == 0xFF and (i + 1 == len(b) or b[i + 1] >= 0xE0 or b[i + 1] == 0x00):
            out.append(0)
    return bytes(out)


def intround(x):
    return int(decimal.Decimal.from_float(x).to_integral_value(decimal.ROUND_HALF_EVEN))


def parse_tag(data):
    """independent walker of an ID3v2.2/2.3/2.4 tag without extended header and without tag-level
    unsynchronisation: (major, [(id bytes, flags, body bytes)])"""
    if data[:3] != b"ID3":
        raise ValueError("no ID3 header")
    major, flags = data[3], data[5]
    size = unsyncsafe(data[6:10])
    body = data[10:10 + size]
    if flags:
        raise ValueError("unexpected tag flags %#x" % flags)
    out = []
    o = 0
    while o < len(body):
        if major == 2:
            if o + 6 > len(body) or body[o:o + 3].strip(b"\x00") == b"":
                break
            fid = body[o:o + 3]
            n = int.from_bytes(body[o + 3:o + 6], "big")
            fl = 0
            o += 6
        else:
            if o + 10 > len(body) or body[o:o + 4].strip(b"\x00") == b"":
                break
            fid = body[o:o + 4]
            n = unsyncsafe(body[o + 4:o + 8]) if major == 4 else int.from_bytes(body[o + 4:o + 8], "big")
            if major == 4 and any(x & 0x80 for x in body[o + 4:o + 8]):
                raise ValueError("v2.4 frame size not syncsafe")
            fl = int.from_bytes(body[o + 8:o + 10], "big")
            o += 10
        if o + n > len(body):
            raise ValueError("frame %r overruns the tag" % fid)
        out.append((fid, fl, body[o:o + n]))
        o += n
    if body[o:].strip(b"\x00") != b"":
        raise ValueError("garbage after the last frame")
    return major, out


def split_term(b, enc):
    """(chunk before the terminator, rest after it); no terminator: (b, b'')"""
    if enc in (0, 3):
        i = b.find(b"\x00")
        return (b, b"") if i < 0 else (b[:i], b[i + 1:])
    for i in range(0, len(b) - 1, 2):
        if b[i] == 0 and b[i + 1] == 0:
            return b[:i], b[i + 2:]
    return b, b""


def dec_text(chunk, enc):
    if enc == 0:
        return chunk.decode("latin-1")
    if enc == 3:
        return chunk.decode("utf-8")
    if enc == 2:
        return chunk.decode("utf-16-be")
    if chunk[:2] == b"\xff\xfe":
        return chunk[2:].decode("utf-16-le")
    if chunk[:2] == b"\xfe\xff":
        return chunk[2:].decode("utf-16-be")
    if chunk == b"":
        return ""
    raise ValueError("UTF-16 text without BOM")


def dec_list(b, enc):
    vals = []
    while b:
        c, b = split_term(b, enc)
        vals.append(dec_text(c, enc))
    return vals


def indep_decode(fid, body):
    """independent decoder of the common frame kinds -> dict field -> value, or None if not covered"""
    f = fid.decode("ascii")
    if f in ("TXXX",):
        enc = body[0]; d, r = split_term(body[1:], enc)
        return {"encoding": enc, "desc": dec_text(d, enc), "text": dec_list(r, enc)}
    if f[0] == "T" and f not in ("TIPL", "TMCL"):
        enc = body[0]
        return {"encoding": enc, "text": dec_list(body[1:], enc)}
    if f == "WXXX":
        enc = body[0]; d, r = split_term(body[1:], enc)
        return {"encoding": enc, "desc": dec_text(d, enc), "url": split_term(r, 0)[0].decode("latin-1")}
    if f[0] == "W":
        return {"url": split_term(body, 0)[0].decode("latin-1")}
    if f == "COMM":
        enc = body[0]; d, r = split_term(body[4:], enc)
        return {"encoding": enc, "lang": body[1:4].decode("ascii"), "desc": dec_text(d, enc), "text": dec_list(r, enc)}
    if f == "USLT":
        enc = body[0]; d, r = split_term(body[4:], enc)
        return {"encoding": enc, "lang": body[1:4].decode("ascii"), "desc": dec_text(d, enc),
                "text": dec_text(split_term(r, enc)[0], enc)}
    if f == "APIC":
        enc = body[0]; m, r = split_term(body[1:], 0); typ = r[0]; d, r = split_term(r[1:], enc)
        return {"encoding": enc, "mime": m.decode("latin-1"), "type": typ, "desc": dec_text(d, enc), "data": r}
    if f in ("PRIV", "UFID"):
        o, r = split_term(body, 0)
        return {"owner": o.decode("latin-1"), "data": r}
    if f == "POPM":
        e, r = split_term(body, 0)
        d = {"email": e.decode("latin-1"), "rating": r[0]}
        if len(r) > 1:
            d["count"] = int.from_bytes(r[1:], "big")
        return d
    if f == "PCNT":
        return {"count": int.from_bytes(body, "big")}
    if f == "GEOB":
        enc = body[0]; m, r = split_term(body[1:], 0); fn, r = split_term(r, enc); d, r = split_term(r, enc)
        return {"encoding": enc, "mime": m.decode("latin-1"), "filename": dec_text(fn, enc), "desc": dec_text(d, enc), "data": r}
    return None


# ------------------------------------------------------------------------------------------
# value pools

TEXT_L1 = ["abc", "Caf\xe9 \xff\x80\xa0", "x", "semi;colon/slash", "\x01\x7f"]
TEXT_UNI = ["abc", "日本語テキスト", "\U0001F600 \U0001D11E", "﻿bom-first", "éאב",
            "￿￾", "Ā\u0001ā", "\U0010FFFF퟿"]
BLOBS = [
    b"\x89PNG\r\n\x1a\n" + bytes(range(256)),
    b"\xff" * 9, b"\x00" * 7 + b"\x01", b"\xff\x00\xff\xe0\xff\xff\x00\x00\xff", b"\xff", b"\x00\xff\xfe\x00",
    b"TIT2\x00\x00\x00\x03\x00\x00\x00A\x00", b"\x01",
    bytes((i * 37 + 11) % 256 for i in range(300)),
    b"\xff\xfb\x90\x64" * 5 + b"\xff",
]
ZERO_BLOBS = [b"\x00", b"\x00" * 5]
STAMPS = ["2004", "2004-01", "2004-01-02", "2004-01-02 03", "2004-01-02 03:04", "2004-01-02 03:04:05", "0001-12-31 23:59:59", "12345"]


def text_pool(enc):
    return TEXT_L1 if enc == 0 else TEXT_UNI


def pick(pool, v):
    return pool[v % len(pool)]


class Gen:
    """value generator; `v` is the variant number, everything random comes from ctx.rng"""

    def __init__(self, ctx, S, F):
        self.ctx = ctx; self.S = S; self.F = F; self.rng = ctx.rng

    def text(self, enc, v, allow_empty=True):
        pool = text_pool(enc)
        if allow_empty and v % 5 == 4:
            return ""
        if v % 11 == 10:
            n = self.rng.randrange(1, 12)
            if enc == 0:
                return "".join(chr(self.rng.choice([self.rng.randrange(1, 256), 0xFF, 0x80, 0x41])) for _ in range(n))
            return "".join(chr(self.rng.choice([self.rng.randrange(1, 0xD800), self.rng.randrange(0xE000, 0x110000), 0xFEFF, 0x100]))
                           for _ in range(n))
        return pick(pool, v)

    def blob(self, v):
        if v % 13 == 12:
            n = self.rng.choice([1, 2, 17, 127, 128, 129, 255, 256, 1000])
            return bytes(self.rng.choice([0, 0xFF, 0xFE, 0xE0, 0x54, self.rng.randrange(256)]) for _ in range(n))
        return pick(BLOBS, v)

    def sub_frames(self, enc, v, depth):
        F = self.F
        e = enc if enc is not None else (v % 4)
        sets = [
            [],
            [F["TIT2"](encoding=e, text=[self.text(e, v, False)])],
            [F["TIT2"](encoding=e, text=[self.text(e, v + 1, False)]), F["TPE1"](encoding=e, text=["a", self.text(e, v + 2, False)]),
             F["WXXX"](encoding=e, desc=self.text(e, v + 3), url="http://example.com/\xe9")],
            [F["APIC"](encoding=e, mime="image/png", type=3, desc=self.text(e, v), data=self.blob(v)),
             F["TIT3"](encoding=e, text=["sub"])],
        ]
        if depth < 1:
            sets.append([F["CHAP"](element_id="inner", start_time=1, end_time=2, start_offset=3, end_offset=4,
                                   sub_frames=[F["TIT2"](encoding=e, text=["deep"])]),
                         F["TIT2"](encoding=e, text=["toc title"])])
        return pick(sets, v)

    def value(self, spec, enc, v, depth=0):
        S = self.S
        t = type(spec)
        if t is S.EncodingSpec:
            return enc
        if t is S.PictureTypeSpec:
            return pick([3, 0, 20, 4, 17], v)
        if t is S.CTOCFlagsSpec:
            return pick([3, 0, 1, 2], v)
        if t is S.ChannelSpec:
            return pick([1, 0, 8, 2], v)
        if t is S.ByteSpec:
            return pick([0, 1, 0x7F, 0x80, 0xFF, 0xFE], v)
        if t is S.FrameIDSpec:
            return pick(["TIT2", "WXXX", "APIC"], v) if spec.len == 4 else pick(["TT2", "WXX", "PIC"], v)
        if t is S.StringSpec:
            if spec.len == 3:
                return pick(["eng", "XXX", "deu", "JPG", "PNG"], v)
            if spec.len == 8:
                return pick(["20240131", "19700101", "99991231"], v)
            return ("abcdefghij" * 10)[:spec.len]
        if t is S.BinaryDataSpec:
            return self.blob(v)
        if t in (S.EncodedTextSpec,):
            return self.text(enc, v)
        if t is S.EncodedNumericTextSpec:
            return pick(["12", "0", "2004", "123456789012345678901234567890"], v)
        if t is S.EncodedNumericPartTextSpec:
            return pick(["3/12", "1", "01/09", "7/"], v)
        if t is S.TimeStampSpec:
            return S.ID3TimeStamp(pick(STAMPS, v))
        if t is S.MultiSpec:
            n = [1, 2, 1, 3][v % 4]
            if len(spec.specs) == 1:
                sub = spec.specs[0]
                if type(sub) is S.EncodedTextSpec:
                    return [self.text(enc, v + 3 * i, allow_empty=False) for i in range(n)]
                return [self.value(sub, enc, v + i) for i in range(n)]
            return [[self.text(enc, v + 2 * i + j, allow_empty=(j == 1)) for j, _ in enumerate(spec.specs)] for i in range(n)]
        if t is S.Latin1TextSpec:
            return pick(["http://example.com/a?b=c", "owner@example.org", "", "Caf\xe9\xff", "image/jpeg", "x"], v)
        if t is S.Latin1TextListSpec:
            return pick([["ch1", "ch2"], ["only"], [], ["\xe9", "", "z"]], v)
        if t is S.SizedIntegerSpec:
            n = getattr(spec, "_SizedIntegerSpec__sz")
            top = 256 ** n
            return pick([0, 1, 255, 256 % top, top - 1, top // 2, top // 2 - 1, 0x0102030405060708 % top], v)
        if t is S.IntegerSpec:
            return pick([0, 1, 255, 2 ** 32 - 1, 2 ** 32, 2 ** 40 + 5, 2 ** 64, 0x01020304, 65536], v)
        if t is S.VolumeAdjustmentSpec:
            return pick([0.0, -64.0, 32767 / 512.0, 1.5, -3.25, 0.001, -0.0009765625, 6.02, -12.3456], v)
        if t is S.VolumePeakSpec:
            return pick([0.0, 0.5, 1.0, 65535 / 32768.0, 1 / 3.0, 0.999969482421875, 1 / 32768.0], v)
        if t is S.SynchronizedTextSpec:
            n = [1, 3, 2][v % 3]
            return [(self.text(enc, v + i, allow_empty=(i == 1)), [0, 1000, 2 ** 32 - 1, 65536][(v + i) % 4]) for i in range(n)]
        if t is S.KeyEventSpec:
            return pick([[(1, 0)], [(2, 1000), (-128, 2 ** 32 - 1), (127, 65536)], [(0xFD - 256, 5), (0, 0)]], v)
        if t is S.VolumeAdjustmentsSpec:
            return pick([[(0.0, -64.0)], [(100.5, 1.5), (32767.5, 32767 / 512.0), (1.0, -0.001953125)], [(440.0, 0.0), (20.0, 3.0)]], v)
        if t is S.ASPIIndexSpec:
            return pick([[1, 2, 3], [0, 255], [65535, 256, 0, 7], [9]], v)
        if t is S.ID3FramesSpec:
            return self.sub_frames(enc, v, depth)
        if t is S.RVASpec:
            m = spec._max_values
            base = [[1, -2], [0x1234, -0x4321, 100, 200], [-65535, 65535, 0, 1], [70000, -80000, 16777215, 65536],
                    [5, 6, 7, 8, -9, -10, 11, 12, 13, 14, -15, 16], [0, 0], [1, 70000], [-1, 1, 2, 3, 4, 5, 6, 7, -8, 9],
                    [256, -70000, 3, 4], [65535, 65536]]
            c = [x for x in base if len(x) <= m]
            return list(pick(c, v))
        raise RuntimeError("no generator for spec class %s" % t.__name__)


# ------------------------------------------------------------------------------------------
# model value syntax

def cps(s):
    return ",".join(str(ord(c)) for c in s) if s else "-"


def frame_vals(fr):
    """[(spec, value)] of a frame: required, then the optional attributes that are set"""
    out = [(s, getattr(fr, s.name)) for s in fr._framespec]
    for s in fr._optionalspec:
        if hasattr(fr, s.name):
            out.append((s, getattr(fr, s.name)))
        else:
            break
    return out


class Conv:
    def __init__(self, S):
        self.S = S

    def to_model(self, spec, val, read=False, order=None):
        S = self.S
        t = type(spec)
        if t in (S.ByteSpec, S.PictureTypeSpec, S.CTOCFlagsSpec, S.ChannelSpec, S.EncodingSpec, S.SizedIntegerSpec, S.IntegerSpec):
            return "i%d" % int(val)
        if t in (S.StringSpec, S.FrameIDSpec, S.Latin1TextSpec, S.EncodedTextSpec, S.EncodedNumericTextSpec, S.EncodedNumericPartTextSpec):
            return "t" + cps(val)
        if t is S.TimeStampSpec:
            return "t" + cps(val.text)
        if t is S.BinaryDataSpec:
            return "x" + hx(val)
        if t is S.MultiSpec:
            if len(spec.specs) == 1:
                return "[" + ";".join(self.to_model(spec.specs[0], x, read) for x in val) + "]"
            return "[" + ";".join("[" + ";".join(self.to_model(s, x, read) for s, x in zip(spec.specs, rec)) + "]" for rec in val) + "]"
        if t is S.Latin1TextListSpec:
            return "[" + ";".join("t" + cps(x) for x in val) + "]"
        if t is S.VolumeAdjustmentSpec:
            return "i%d" % (round(val * 512) if read else intround(val * 512))
        if t is S.VolumePeakSpec:
            return "i%d" % (round(val * (2 ** 31 - 1)) if read else intround(val * 32768))
        if t is S.SynchronizedTextSpec:
            return "[" + ";".join("[t%s;i%d]" % (cps(a), b) for a, b in val) + "]"
        if t is S.KeyEventSpec:
            return "[" + ";".join("[i%d;i%d]" % (a, b) for a, b in val) + "]"
        if t is S.VolumeAdjustmentsSpec:
            return "[" + ";".join("[i%d;i%d]" % (int(f * 2), int(a * 512)) for f, a in val) + "]"
        if t is S.ASPIIndexSpec:
            return "[" + ";".join("i%d" % x for x in val) + "]"
        if t is S.RVASpec:
            return "[" + ";".join("i%d" % int(x) for x in val) + "]"
        if t is S.ID3FramesSpec:
            frames = list(val.values()) if hasattr(val, "values") else list(val)
            if order is not None:
                frames = sorted(frames, key=lambda f: order.index(type(f).__name__))
            return "[" + ";".join(self.frame_model(f, read) for f in frames) + "]"
        raise RuntimeError("no model syntax for %s" % t.__name__)

    def frame_model(self, fr, read=False, orders=None):
        return "{%s:%s}" % (type(fr).__name__, ";".join(self.vals_model(fr, read, orders)))

    def vals_model(self, fr, read=False, orders=None):
        out = []
        for s, v in frame_vals(fr):
            out.append(self.to_model(s, v, read, order=(orders or {}).get(s.name)))
        return out


def err_name(e):
    import mutagen
    from mutagen.id3._specs import SpecError
    if isinstance(e, SpecError) or isinstance(e, mutagen.MutagenError):
        return "mutagen"
    if isinstance(e, UnicodeError):
        return "unicode"
    if isinstance(e, struct.error):
        return "struct"
    for cls, n in ((KeyError, "key"), (IndexError, "index"), (ValueError, "value"), (TypeError, "type"),
                   (AttributeError, "attribute"), (NotImplementedError, "notimplemented"), (OverflowError, "overflow")):
        if isinstance(e, cls):
            return n
    return type(e).__name__


# ------------------------------------------------------------------------------------------
# oracle (i): field comparison

class Oracle:
    def __init__(self, S, F):
        self.S = S; self.F = F

    def val_diff(self, spec, a, b, exact, expect_fn=None):
        """None if equal (within wire precision unless `exact`), else a short description"""
        S = self.S
        t = type(spec)
        try:
            if t is S.VolumeAdjustmentSpec:
                ok = (a == b) if exact else abs(a - b) <= 1 / 512.0
            elif t is S.VolumePeakSpec:
                ok = (a == b) if exact else abs(a - b) <= 1 / 32768.0
            elif t is S.VolumeAdjustmentsSpec:
                a = sorted(tuple(x) for x in a); b = sorted(tuple(x) for x in b)
                ok = len(a) == len(b) and all(
                    ((x == y) if exact else (abs(x[0] - y[0]) <= 0.5 and abs(x[1] - y[1]) <= 1 / 512.0)) for x, y in zip(a, b))
            elif t is S.ID3FramesSpec:
                d = self.tags_diff(a, b, exact, expect_fn)
                return d
            elif t in (S.KeyEventSpec, S.SynchronizedTextSpec):
                ok = [tuple(x) for x in a] == [tuple(x) for x in b]
            elif t is S.MultiSpec and len(spec.specs) > 1:
                ok = [list(x) for x in a] == [list(x) for x in b]
            elif t is S.BinaryDataSpec:
                ok = isinstance(b, bytes) and a == b
            elif t is S.RVASpec or t is S.ASPIIndexSpec:
                ok = [int(x) for x in a] == [int(x) for x in b]
            else:
                ok = (a == b) and (isinstance(a, str) == isinstance(b, str))
        except Exception as e:
            return "comparison raised %r" % (e,)
        return None if ok else "%r != %r" % (a, b)

    def tags_diff(self, a, b, exact, expect_fn=None):
        fa = list(a.values()) if hasattr(a, "values") else list(a)
        fb = list(b.values()) if hasattr(b, "values") else list(b)
        if sorted(type(f).__name__ for f in fa) != sorted(type(f).__name__ for f in fb):
            return "sub-frames %r != %r" % (sorted(type(f).__name__ for f in fa), sorted(type(f).__name__ for f in fb))
        for x in fa:
            ys = [y for y in fb if type(y) is type(x)]
            if not any(not self.frame_diff(x, y, exact, expect_fn=expect_fn) for y in ys):
                return "sub-frame %s differs: %s" % (type(x).__name__, self.frame_diff(x, ys[0], exact, expect_fn=expect_fn))
        return None

    def frame_diff(self, want, got, exact=False, expect=None, expect_fn=None):
        """list of (field, description) where `got` differs from `want` (`expect` overrides wanted values;
        `expect_fn(frame)` computes the overrides of nested frames)"""
        diffs = []
        if expect is None and expect_fn is not None:
            expect = expect_fn(want)
        if type(want) is not type(got) and not (expect and expect.get("__class__") is type(got)):
            diffs.append(("__class__", "%s != %s" % (type(want).__name__, type(got).__name__)))
            return diffs
        expect = expect or {}
        for s in got._framespec:
            w = expect.get(s.name, getattr(want, s.name, None))
            g = getattr(got, s.name)
            d = self.val_diff(s, w, g, exact, expect_fn)
            if d:
                diffs.append((s.name, d))
        for s in got._optionalspec:
            hw, hg = hasattr(want, s.name), hasattr(got, s.name)
            if hw and hg:
                d = self.val_diff(s, expect.get(s.name, getattr(want, s.name)), getattr(got, s.name), exact)
                if d:
                    diffs.append((s.name, d))
            elif hw and not hg:
                diffs.append((s.name, "optional field lost"))
            elif hg and not hw:
                d = self.val_diff(s, s.default, getattr(got, s.name), exact)
                if d:
                    diffs.append((s.name, "optional field appeared: %r" % (getattr(got, s.name),)))
        return diffs


# ------------------------------------------------------------------------------------------

def tag24(frames, flags=0):
    return b"ID3\x04\x00" + bytes([flags]) + syncsafe(len(frames)) + frames


def tag23(frames, flags=0):
    return b"ID3\x03\x00" + bytes([flags]) + syncsafe(len(frames)) + frames


def tag22(frames, flags=0):
    return b"ID3\x02\x00" + bytes([flags]) + syncsafe(len(frames)) + frames


def frame24(fid, body, fl=0):
    return fid + syncsafe(len(body)) + struct.pack(">H", fl) + body


def frame23(fid, body, fl=0):
    return fid + struct.pack(">LH", len(body), fl) + body


def frame22(fid, body):
    return fid + len(body).to_bytes(3, "big") + body


class Runner:
    def __init__(self, ctx):
        import mutagen.id3
        from mutagen.id3 import _specs as S, _frames as FR
        from mutagen.id3._tags import ID3Header
        from mutagen.id3._util import ID3SaveConfig
        self.ctx = ctx; self.S = S; self.FR = FR
        self.ID3 = mutagen.id3.ID3
        self.Frames = dict(FR.Frames); self.Frames22 = dict(FR.Frames_2_2)
        self.ID3Header = ID3Header; self.ID3SaveConfig = ID3SaveConfig
        self.gen = Gen(ctx, S, self.Frames)
        self.conv = Conv(S)
        self.oracle = Oracle(S, self.Frames)
        self.model = Model(ctx)
        self.mlines = []     # driver requests
        self.mexpect = []    # (what, case, expected answer or callable)
        self.base22 = {}     # base class name -> v2.2 class name (same spec lists)
        for n, c in self.Frames22.items():
            b = c.__base__
            if b.__name__ in self.Frames and c._framespec is b._framespec and c._optionalspec is b._optionalspec:
                self.base22[b.__name__] = n

    # ---------------------------------------------------------------- generation
    def has_enc(self, cls):
        return any(type(s) is self.S.EncodingSpec for s in cls._framespec)

    def uses_text(self, cls):
        S = self.S
        return any(isinstance(s, (S.EncodedTextSpec, S.MultiSpec, S.SynchronizedTextSpec, S.ID3FramesSpec)) for s in
                   list(cls._framespec) + list(cls._optionalspec))

    def make(self, cls, enc, v):
        S = self.S
        kw = {}
        specs = list(cls._framespec)
        nopt = [0, 1, len(cls._optionalspec)][v % 3] if cls._optionalspec else 0
        specs += list(cls._optionalspec)[:nopt]
        for i, s in enumerate(specs):
            kw[s.name] = self.gen.value(s, enc, v + 5 * i)
        if cls.__name__ == "ASPI":
            kw["b"] = [8, 16][v % 2]
            kw["Fi"] = [x % (256 if kw["b"] == 8 else 65536) for x in kw["Fi"]]
            kw["N"] = len(kw["Fi"])
        return cls(**kw)

    # ---------------------------------------------------------------- real code
    def save(self, frames, version, sep="default", pad0=False):
        t = self.ID3()
        for f in frames:
            t.add(f)
        bio = io.BytesIO()
        kw = {}
        if sep != "default":
            kw["v23_sep"] = sep
        if pad0:
            kw["padding"] = lambda info: 0
        t.save(bio, v2_version=version, **kw)
        return bio.getvalue()

    def load(self, data, translate=False):
        return self.ID3(io.BytesIO(data), translate=translate)

    def load_one(self, data, translate=False):
        """('ok', frame) / ('lost', n) / ('exc', e)"""
        kind, r = timed(lambda: self.load(data, translate), 5)
        if kind != "ok":
            return "exc" if kind == "exc" else "hang", r
        fr = list(r.values())
        if len(fr) != 1 or r.unknown_frames:
            return "lost", (len(fr), len(r.unknown_frames))
        return "ok", fr[0]

    # ---------------------------------------------------------------- expectations
    def expected_v23(self, fr, sep):
        """field overrides expected after a v2.3 round trip (documented v2.3 behaviour)"""
        S = self.S
        exp = {}
        for s, val in frame_vals(fr):
            if type(s) is S.EncodingSpec and int(val) not in (0, 1):
                exp[s.name] = 1
            if type(s) is S.MultiSpec and len(s.specs) == 1 and isinstance(s.specs[0], S.EncodedTextSpec) \
                    and not isinstance(s.specs[0], S.TimeStampSpec) and sep is not None:
                exp[s.name] = [sep.join(val)]
        return exp

    def classify(self, fr, version):
        """value classes that this check singles out: returns a key suffix or None"""
        S = self.S
        name = type(fr).__name__
        vals = frame_vals(fr)
        for i, (s, val) in enumerate(vals):
            if type(s) is S.RVASpec:
                widths = {max(2, (abs(int(x)).bit_length() + 7) // 8) for x in val}
                if len(widths) > 1:
                    return "mixed-width"
        return None

    def zero_tail(self, fr, body, version):
        """v2.3: the bytes after some text field are all NUL (and non-empty).  Returns None, "degenerate"
        (only empty strings / lists follow: their terminators are the NULs) or "zero-tail" (a non-empty
        value made of NUL bytes follows)"""
        if version != 3:
            return None
        S = self.S
        cfg = self.ID3SaveConfig(3, None)
        f23 = fr._get_v23_frame(sep=None)
        parts = []
        for s, val in frame_vals(f23):
            parts.append((s, s.write(cfg, f23, val), val))
        res = None
        for i, (s, b, _) in enumerate(parts):
            if isinstance(s, S.EncodedTextSpec) and not isinstance(s, S.SynchronizedTextSpec):
                tail = b"".join(p for _, p, _ in parts[i + 1:])
                if tail and not tail.strip(b"\x00"):
                    empty = all((not val if isinstance(val, (str, bytes, list)) else False) for _, _, val in parts[i + 1:])
                    res = "degenerate" if empty and res is None else "zero-tail"
            if type(s) is S.MultiSpec and len(b) and version == 3:
                # inside a multi-value: a trailing run of empty strings
                vals = list(parts[i][2])
                if len(vals) > 1 and all(x == "" for x in vals[1:] if isinstance(x, str)) and isinstance(vals[-1], str) and vals[-1] == "":
                    res = res or "degenerate"
            if type(s) is S.ID3FramesSpec:
                for sub in parts[i][2].values():
                    r = self.zero_tail(sub, None, version)
                    if r == "zero-tail" or (r and res is None):
                        res = r
        return res

    def degenerate(self, fr):
        """empty lists / empty text lists: written as nothing or unreadable by design"""
        S = self.S
        for s, val in frame_vals(fr):
            if type(s) in (S.MultiSpec, S.KeyEventSpec, S.SynchronizedTextSpec, S.VolumeAdjustmentsSpec, S.ASPIIndexSpec) and len(val) == 0:
                return True
        return False

    # ---------------------------------------------------------------- one frame
    def check_frame(self, cls, enc, v):
        ctx = self.ctx; S = self.S
        name = cls.__name__
        try:
            fr = self.make(cls, enc, v)
        except Exception as e:
            ctx.violation("%s:construct" % name, "constructing a %s from generated valid values raised %r" % (name, e),
                          {"frame": name, "enc": enc, "variant": v})
            return
        is22 = len(name) == 3
        if is22 and cls.__base__ is self.FR.Frame:
            ctx.hist["v2.2-without-equivalent:" + name] += 1
            self.check_22_own(cls, fr, enc, v, None)
            return
        target = cls.__base__ if is22 else cls
        degenerate = self.degenerate(fr)
        plain = {}
        for version in (4, 3):
            seps = [None] if version == 4 else ([None, "/"] if v % 2 == 0 else ["/"])
            for sep in seps:
                if version == 3 and enc in (2, 3) and v % 3 != 0:
                    pass    # still run: the v2.3 downgrade is cheap
                tagname = "v2.%d" % version
                case = {"frame": name, "repr": repr(fr)[:600], "enc": enc, "variant": v, "version": version, "v23_sep": sep}
                kind, data = timed(lambda: self.save([fr], version, sep if version == 3 else "default", pad0=(v % 2 == 1)), 5)
                ctx.hist["save:%s:%s" % (tagname, kind)] += 1
                if kind != "ok":
                    ctx.violation("%s:%s:save" % (name, tagname), "save raised %r" % (data,), case)
                    continue
                try:
                    major, frames = parse_tag(data)
                except Exception as e:
                    ctx.violation("%s:%s:not-a-valid-tag" % (name, tagname), "independent walker: %s" % e, case)
                    continue
                body = frames[0][2] if len(frames) == 1 else None
                ctx.case(key=(name, enc, v, version, sep), nontrivial=bool(body),
                         sample={"frame": repr(fr)[:200], "version": tagname, "bytes": hx(data[:48])} if (v == 1 and name in ("TXXX", "APIC", "RVA2")) else None)
                if degenerate:
                    ctx.hist["degenerate-empty-list"] += 1
                    continue
                if len(frames) != 1 or frames[0][0] != target.__name__.encode() or frames[0][1] != 0:
                    ctx.violation("%s:%s:roundtrip" % (name, tagname), "tag holds %r instead of one plain %s frame" % (
                        [(f[0], f[1]) for f in frames], target.__name__), case)
                    continue
                expect = self.expected_v23(fr, sep) if version == 3 else {}
                if is22:
                    expect = dict(expect); expect["__class__"] = target
                    if name == "LNK":
                        fid = fr.frameid
                        expect["frameid"] = self.Frames22[fid].__bases__[0].__name__ if fid in self.Frames22 else fid.ljust(4)
                klass = self.classify(fr, version)
                zt = self.zero_tail(fr, body, version) if klass is None else None
                if zt == "degenerate":
                    ctx.hist["degenerate-empty-tail:v2.3"] += 1
                    continue
                if zt:
                    klass = "v2.3:zero-tail"
                st, got = self.load_one(data)
                ctx.hist["load:%s:%s" % (tagname, st)] += 1
                key = "%s:%s:roundtrip" % (name, tagname) if klass is None else "%s:%s" % (name, klass)
                if klass is not None:
                    case = dict(case, klass=klass)      # lets one known_findings entry cover the class for every frame
                if st != "ok":
                    ctx.violation(key, "reload of the saved tag: %s %r" % (st, got), case)
                else:
                    efn = (lambda f, _sep=sep: self.expected_v23(f, _sep)) if version == 3 else None
                    diffs = self.oracle.frame_diff(fr, got, exact=False, expect=expect, expect_fn=efn)
                    if diffs:
                        ctx.violation(key, "field values differ after save/reload: %s" % (diffs[:3],), case)
                    elif klass is None and (version, None) not in plain and (version == 4 or sep is None):
                        plain[(version, None)] = (body, got)
                # (ii) independent decoder
                if klass is None or klass == "v2.3:zero-tail":
                    self.check_indep(name, target, fr, frames[0], version, expect, case)
                # translate=True
                if version == 4 and not is22 and name not in V24_ONLY_TRANSLATE_SKIP and klass is None and st == "ok":
                    st2, got2 = self.load_one(data, translate=True)
                    ok2 = st2 == "ok" and not self.oracle.frame_diff(fr, got2, exact=False, expect=(
                        {"mime": {"PNG": "image/png", "JPG": "image/jpeg"}.get(fr.mime, fr.mime)} if name == "APIC" else {}))
                    ctx.case(key=(name, enc, v, "translate"), nontrivial=True)
                    if not ok2:
                        ctx.violation("%s:translate:roundtrip" % name, "ID3(translate=True) of the saved v2.4 tag: %s %r" % (
                            st2, got2 if st2 != "ok" else self.oracle.frame_diff(fr, got2)), case)
        # (iii) input framing
        if (4, None) in plain:
            self.check_framing(name, target, fr, plain, enc, v)
        # (iv) model
        if self.model.ok and not is22:
            self.queue_model(cls, fr, enc, v)
        elif self.model.ok and is22:
            self.queue_model(cls, fr, enc, v, frame_only=True)
        if is22:
            self.check_22_own(cls, fr, enc, v, target)

    def check_indep(self, name, target, fr, frame, version, expect, case):
        ctx = self.ctx
        fid, fl, body = frame
        try:
            d = indep_decode(fid, body)
        except Exception as e:
            ctx.violation("%s:v2.%d:independent-decoder" % (name, version), "independent decoder failed on the written frame: %r" % (e,),
                          dict(case, body=hx(body[:200])))
            return
        if d is None:
            ctx.hist["indep:not-covered"] += 1
            return
        ctx.hist["indep:checked"] += 1
        bad = []
        for k, val in d.items():
            want = expect.get(k, getattr(fr, k, None))
            if k == "text" and target.__name__ != "USLT":
                want = [x.text.replace(" ", "T") if hasattr(x, "text") else x for x in want]
            if k == "count" and not hasattr(fr, "count"):
                bad.append((k, "counter written although not set"))
                continue
            if isinstance(want, int) and not isinstance(want, bool):
                want = int(want)
            if want != val:
                bad.append((k, "%r != %r" % (want, val)))
        if name in ("POPM", "POP") and hasattr(fr, "count") and "count" not in d:
            bad.append(("count", "counter not written"))
        if version == 3 and "encoding" in d and d["encoding"] not in (0, 1):
            bad.append(("encoding", "v2.3 frame written with encoding %d" % d["encoding"]))
        if bad:
            ctx.violation("%s:v2.%d:independent-decoder" % (name, version),
                          "written bytes decode (independently) to other values: %s" % (bad[:3],), dict(case, body=hx(body[:200])))

    def check_framing(self, name, target, fr, plain, enc, v):
        ctx = self.ctx
        body4, got4 = plain[(4, None)]
        fid = target.__name__.encode()
        variants = [
            ("unsynchronised-input", tag24(frame24(fid, ref_unsynch(body4), 0x0002)), ref_unsynch(body4) != body4, got4),
            ("data-length-input", tag24(frame24(fid, syncsafe(len(body4)) + body4, 0x0001)), True, got4),
            ("unsynch+data-length-input", tag24(frame24(fid, syncsafe(len(body4)) + ref_unsynch(body4), 0x0003)), True, got4),
            ("compressed-input", tag24(frame24(fid, syncsafe(len(body4)) + zlib.compress(body4), 0x0009)), True, got4),
            ("compressed+unsynch-input", tag24(frame24(fid, syncsafe(len(body4)) + ref_unsynch(zlib.compress(body4)), 0x000B)), True, got4),
            ("tag+frame-unsynchronised-input", tag24(frame24(fid, ref_unsynch(body4), 0x0002), 0x80), True, got4),
        ]
        if (3, None) in plain:
            body3, got3 = plain[(3, None)]
            z = zlib.compress(body3)
            variants.append(("v2.3-compressed-input", tag23(frame23(fid, struct.pack(">L", len(body3)) + z, 0x0080)), True, got3))
            fr3 = frame23(fid, body3)
            variants.append(("v2.3-tag-unsynchronised-input", tag23(ref_unsynch(fr3), 0x80), ref_unsynch(fr3) != fr3, got3))
            n22 = self.base22.get(target.__name__)
            if n22 and len(body3) < 2 ** 24:
                variants.append(("v2.2-input", tag22(frame22(n22.encode(), body3)), True, got3))
                fr2 = frame22(n22.encode(), body3)
                # ID3v2.2 section 3.1: bit 7 of the flags = unsynchronisation of the whole tag
                variants.append(("v2.2-tag-unsynchronised-input", tag22(ref_unsynch(fr2), 0x80), ref_unsynch(fr2) != fr2, got3))
        for label, data, nontrivial, ref in variants:
            st, got = self.load_one(data)
            ctx.case(key=(name, enc, v, label), nontrivial=nontrivial)
            ctx.hist["framing:" + label] += 1
            case = {"frame": name, "repr": repr(fr)[:400], "enc": enc, "variant": v, "framing": label, "tag": hx(data[:400])}
            if name in ("CHAP", "CTOC") and label in ("tag+frame-unsynchronised-input", "v2.3-tag-unsynchronised-input", "v2.2-tag-unsynchronised-input"):
                case["klass"] = "nested-double-unsynch"
            if st != "ok":
                ctx.violation("%s:%s" % (name, label), "re-framed input: %s %r" % (st, got), case)
                continue
            diffs = self.oracle.frame_diff(ref, got, exact=True)
            if diffs:
                ctx.violation("%s:%s" % (name, label), "re-framed input decodes to other values than the plain frame: %s" % (diffs[:3],), case)

    def check_22_own(self, cls, fr, enc, v, target):
        """a v2.2 class: its own `_writeData` body in a hand-built v2.2 tag"""
        ctx = self.ctx
        name = cls.__name__
        if self.degenerate(fr):
            return
        try:
            body = fr._writeData(self.ID3SaveConfig(3, None))
        except Exception as e:
            ctx.violation("%s:v2.2:writeData" % name, "_writeData raised %r" % (e,), {"frame": name, "repr": repr(fr)[:300]})
            return
        data = tag22(frame22(name.encode(), body))
        case = {"frame": name, "repr": repr(fr)[:400], "enc": enc, "variant": v, "tag": hx(data[:300])}
        ctx.case(key=(name, enc, v, "v2.2-own"), nontrivial=True)
        kind, r = timed(lambda: self.load(data), 5)
        if kind != "ok":
            ctx.violation("%s:v2.2-input" % name, "loading a v2.2 tag raised %r" % (r,), case)
            return
        if target is None:
            ctx.hist["v2.2-without-equivalent:dropped" if not list(r.values()) else "v2.2-without-equivalent:kept"] += 1
            return
        if self.classify(fr, 3) or self.zero_tail(fr, body, 3):
            return
        got = list(r.values())
        expect = dict(self.expected_v23(fr, None)); expect["__class__"] = target
        if name == "LNK":
            fid = fr.frameid
            expect["frameid"] = self.Frames22[fid].__bases__[0].__name__ if fid in self.Frames22 else fid.ljust(4)
        if len(got) != 1:
            ctx.violation("%s:v2.2-input" % name, "v2.2 frame lost on load (%d frames)" % len(got), case)
            return
        diffs = self.oracle.frame_diff(fr, got[0], exact=False, expect=expect, expect_fn=lambda f: self.expected_v23(f, None))
        if diffs:
            ctx.violation("%s:v2.2-input" % name, "v2.2 frame decodes to other values than its v2.3/2.4 equivalent: %s" % (diffs[:3],), case)

    # ---------------------------------------------------------------- model correspondence
    def hdr(self, version):
        h = self.ID3Header()
        h.version = (2, version, 0)
        return h

    def sub_orders(self, fr, cfg):
        """wire order of nested frames as mutagen emits them (independent parse of its bytes)"""
        S = self.S
        orders = {}
        for s, val in frame_vals(fr):
            if type(s) is S.ID3FramesSpec:
                raw = bytes(val._write(cfg))
                ids = []
                o = 0
                while o + 10 <= len(raw):
                    n = unsyncsafe(raw[o + 4:o + 8]) if cfg.v2_version == 4 else int.from_bytes(raw[o + 4:o + 8], "big")
                    ids.append(raw[o:o + 4].decode("ascii"))
                    o += 10 + n
                # frames written as nothing (empty text frames) go last; they write no bytes
                for f in val.values():
                    if type(f).__name__ not in ids:
                        ids.append(type(f).__name__)
                orders[s.name] = ids
        return orders

    def has_nested_dups(self, fr):
        """two nested frames of the same class at some level: their wire order cannot be told from the ids"""
        S = self.S
        for s, val in frame_vals(fr):
            if type(s) is S.ID3FramesSpec:
                names = [type(f).__name__ for f in val.values()]
                if len(names) != len(set(names)):
                    return True
                if any(self.has_nested_dups(f) for f in val.values()):
                    return True
        return False

    def queue(self, line, what, case, expect):
        self.mlines.append(line); self.mexpect.append((what, case, expect))

    def queue_model(self, cls, fr, enc, v, frame_only=False):
        S = self.S
        name = cls.__name__
        if self.has_nested_dups(fr):
            return
        N = getattr(fr, "N", None) if name == "ASPI" else None
        b = getattr(fr, "b", None) if name == "ASPI" else None
        for version in (4, 3):
            sep = None if (version == 4 or v % 2 == 0) else "/"
            cfg = self.ID3SaveConfig(version, sep)
            case = {"frame": name, "repr": repr(fr)[:400], "enc": enc, "variant": v, "version": version, "sep": sep}
            # frame level
            try:
                f23 = fr._get_v23_frame(sep=sep) if version == 3 else fr
                orders = self.sub_orders(f23, cfg)
                vals = "[" + ";".join(self.conv.vals_model(fr, orders=orders)) + "]"
            except Exception as e:
                self.ctx.notes.append("model syntax failed for %s: %r" % (name, e))
                return
            try:
                data = fr._writeData(cfg); impl = "ok v=" + hx(data)
            except Exception as e:
                data = None; impl = "err " + err_name(e)
            self.queue("id3spec op=wframe cls=%s ver=%d sep=%s vals=%s" % (name, version, cps(sep) if sep else "none", vals),
                       "_writeData", case, impl)
            if data is not None and not self.degenerate(fr):
                # _fromData of the written bytes (plain flags) through the real code
                try:
                    g = cls._fromData(self.hdr(version), 0, data)
                    orders_g = self.sub_orders(g, cfg) if False else None
                    impl_r = "ok v=[" + ";".join(self.conv.vals_model(g, read=True, orders=self.read_orders(g, data, version))) + "]"
                except Exception as e:
                    impl_r = "err " + err_name(e)
                    if err_name(e) == "mutagen":
                        impl_r = "ok v=junk"
                self.queue("id3spec op=rframe cls=%s ver=%d flags=0 data=%s" % (name, version, hx(data)), "_fromData", case, impl_r)
            if frame_only or version == 3:
                continue
            # spec level
            for s, val in frame_vals(fr):
                sc = dict(case, field=s.name)
                args = "cls=%s field=%s" % (name, s.name)
                if enc is not None:
                    args += " enc=%d" % enc
                if N is not None:
                    args += " N=%d b=%d" % (N, b)
                try:
                    w = s.write(cfg, fr, val); impl = "ok v=" + hx(w)
                except Exception as e:
                    w = None; impl = "err " + err_name(e)
                self.queue("id3spec op=wspec %s ver=4 val=%s" % (args, self.conv.to_model(s, val, order=orders.get(s.name))),
                           "spec.write:" + type(s).__name__ + (":" + ENC_NAME[enc] if enc is not None else ""), sc, impl)
                if w is None:
                    continue
                greedy = type(s) in (S.BinaryDataSpec, S.IntegerSpec, S.MultiSpec, S.SynchronizedTextSpec, S.KeyEventSpec,
                                     S.VolumeAdjustmentsSpec, S.ID3FramesSpec, S.RVASpec)
                rest = b"" if greedy else [b"\x01\x02", b"", b"\x00\x00\x00", b"\xff"][v % 4]
                for hv in (4, 3):
                    if not w + rest:
                        continue
                    try:
                        rv, left = s.read(self.hdr(hv), fr, w + rest)
                        if type(s) is S.ID3FramesSpec:
                            mv = self.conv.to_model(s, rv, read=True, order=self.nested_order(w, hv))
                        else:
                            mv = self.conv.to_model(s, rv, read=True)
                        impl = "ok v=%s rest=%s" % (mv, hx(left))
                    except Exception as e:
                        impl = "err " + err_name(e)
                    self.queue("id3spec op=rspec %s ver=%d data=%s" % (args, hv, hx(w + rest)),
                               "spec.read:" + type(s).__name__ + (":" + ENC_NAME[enc] if enc is not None else ""), sc, impl)
                # damaged input: truncations and a flipped byte (error branches of the readers)
                if v % 3 == 0 and len(w) > 1 and type(s) is not S.ID3FramesSpec:
                    cuts = sorted({1, len(w) // 2, len(w) - 1})
                    dam = [w[:c] for c in cuts]
                    i = self.ctx.rng.randrange(len(w))
                    dam.append(w[:i] + bytes([w[i] ^ self.ctx.rng.choice([0x80, 0xFF, 0x01])]) + w[i + 1:])
                    for d in dam:
                        if not d:
                            continue
                        try:
                            rv, left = s.read(self.hdr(4), fr, d)
                            impl = "ok v=%s rest=%s" % (self.conv.to_model(s, rv, read=True), hx(left))
                        except Exception as e:
                            impl = "err " + err_name(e)
                        self.queue("id3spec op=rspec %s ver=4 data=%s" % (args, hx(d)), "spec.read-damaged:" + type(s).__name__, sc, impl)

    def nested_order(self, raw, version):
        ids = []
        o = 0
        while o + 10 <= len(raw):
            n = unsyncsafe(raw[o + 4:o + 8]) if version == 4 else int.from_bytes(raw[o + 4:o + 8], "big")
            ids.append(raw[o:o + 4].decode("ascii"))
            o += 10 + n
        return ids

    def read_orders(self, g, data, version):
        """wire order of the nested frames of a frame read from `data` (sub_frames is always the last spec)"""
        S = self.S
        orders = {}
        specs = [s for s, _ in frame_vals(g)]
        if specs and type(specs[-1]) is S.ID3FramesSpec:
            # locate the nested frame area: the tail of `data` starting at the first nested frame id
            names = [type(f).__name__ for f in getattr(g, specs[-1].name).values()]
            best = None
            for n in names:
                i = data.find(n.encode())
                if i >= 0 and (best is None or i < best):
                    best = i
            orders[specs[-1].name] = self.nested_order(data[best:], version) if best is not None else []
            for n in names:
                if n not in orders[specs[-1].name]:
                    orders[specs[-1].name].append(n)
        return orders

    def flush_model(self):
        ctx = self.ctx
        if not self.mlines:
            return
        out = self.model.ask(self.mlines)
        for line, (what, case, impl), ans in zip(self.mlines, self.mexpect, out):
            if ans.startswith("err notimplemented") or ans == "bad-args":
                ctx.hist["model:outside:" + what.split(":")[0]] += 1
                if ans == "bad-args":
                    ctx.disagree(what + " (driver could not parse the request)", dict(case, request=line[:300]), model=ans, impl=impl[:200])
                continue
            ctx.traces_validated += 1
            ctx.hist["model:" + what.split(":")[0]] += 1
            if ans != impl:
                ctx.disagree(what, dict(case, request=line[:400]), model=ans[:400], impl=impl[:400])
        self.mlines = []; self.mexpect = []

    # ---------------------------------------------------------------- special cases
    def negative_counts(self):
        ctx = self.ctx
        F = self.Frames
        cases = [("PCNT", lambda: F["PCNT"](count=-1)), ("POPM", lambda: F["POPM"](email="a", rating=1, count=-1)),
                 ("PCST", lambda: F["PCST"](value=-1)), ("POSS", lambda: F["POSS"](format=1, position=-5)),
                 ("SEEK", lambda: F["SEEK"](offset=-1)), ("RBUF", lambda: F["RBUF"](size=-1)),
                 ("PCNT", lambda: F["PCNT"](count=-(2 ** 40)))]
        for name, mk in cases:
            for version in (4, 3):
                fr = mk()
                kind, r = timed(lambda: self.save([fr], version), 2)
                ctx.case(key=(name, "negative", version, repr(fr)), nontrivial=True, modelled=True)
                ctx.hist["negative-count:" + (type(r).__name__ if kind == "exc" else kind)] += 1
                case = {"frame": name, "repr": repr(fr), "version": version}
                if kind == "hang":
                    ctx.violation("%s:negative-count-hangs" % name, "saving %r does not terminate" % (fr,), case)
                elif kind == "ok":
                    ctx.violation("%s:negative-count-not-rejected" % name, "saving %r succeeded (%d bytes)" % (fr, len(r)), case)
                elif not isinstance(r, ValueError):
                    ctx.violation("%s:negative-count-raises-%s" % (name, type(r).__name__), "saving %r raised %r instead of ValueError" % (fr, r), case)
                if self.model.ok:
                    self.queue("id3spec op=wframe cls=%s ver=%d sep=none vals=[%s]" % (name, version, ";".join(self.conv.vals_model(fr))),
                               "_writeData:negative", case, "err value")

    def determine_bpi_case(self):
        """two valid frames whose second payload embeds a chain of small fake frames exactly where the
        plain-integer reading of the first frame's syncsafe size lands (DESIGN §6 F6)"""
        ctx = self.ctx
        F = self.Frames
        a = F["PRIV"](owner="a", data=b"\x55" * 198)            # body 200 = syncsafe 00 00 01 48 -> 0x148 = 328 as plain int
        chain = b"".join(b"TIT2\x00\x00\x00\x02\x00\x00\x00A" for _ in range(6))
        # first frame: header 10 + 200; plain-int walk lands at 10 + 328 = 338; second frame starts at 210, its body at 220
        # PRIV body = owner "b\0" (2 bytes) + data  => data starts at 222; filler up to 338
        b = F["PRIV"](owner="b", data=b"\x11" * (338 - 222) + chain + b"\x22" * 50)
        for pad0 in (True, False):
            data = self.save([a, b], 4, pad0=pad0)
            kind, tag = timed(lambda: self.load(data), 5)
            ctx.case(key=("determine_bpi", pad0), nontrivial=True, modelled=True,
                     sample={"case": "determine_bpi", "frames": "PRIV(198 bytes) + PRIV(embedded TIT2 chain)"})
            case = {"frames": [repr(a)[:80], repr(b)[:120]], "padding0": pad0, "tag": hx(data[:64]), "klass": "determine_bpi"}
            ok = kind == "ok" and sorted((k, f.data) for k, f in tag.items() if hasattr(f, "data")) == sorted(
                [(a.HashKey, a.data), (b.HashKey, b.data)]) and len(tag) == 2
            ctx.hist["determine_bpi:" + ("ok" if ok else "lost")] += 1
            if not ok:
                ctx.violation("determine_bpi", "a v2.4 tag written by mutagen is re-read with plain-integer frame sizes because a binary "
                              "payload looks like a chain of frames: frames lost/garbled on reload (%s)" % (
                                  sorted(tag.keys()) if kind == "ok" else repr(tag)), case)
            if self.model.ok:
                body = parse_tag(data)
                area = data[10:10 + unsyncsafe(data[6:10])]
                from mutagen.id3._tags import determine_bpi
                from mutagen.id3._util import BitPaddedInt
                impl = "ok v=%d" % (1 if determine_bpi(area, self.Frames) is BitPaddedInt else 0)
                self.queue("id3spec op=bpi data=%s" % hx(area), "determine_bpi", case, impl)

    def zero_tail_cases(self):
        """v2.3: all-NUL bytes after a text field (checked explicitly so that the class is always exercised)"""
        F = self.Frames
        for fr in (F["APIC"](encoding=0, mime="image/png", type=3, desc="d", data=b"\x00\x00\x00"),
                   F["GEOB"](encoding=1, mime="a/b", filename="f", desc="d", data=b"\x00")):
            name = type(fr).__name__
            for version in (3, 4):
                data = self.save([fr], version, None)
                st, got = self.load_one(data)
                self.ctx.case(key=(name, "zero-tail", version), nontrivial=True)
                case = {"frame": name, "repr": repr(fr), "version": version, "klass": "v2.3:zero-tail"}
                diffs = self.oracle.frame_diff(fr, got) if st == "ok" else [("*", st)]
                self.ctx.hist["zero-tail:v2.%d:%s" % (version, "equal" if not diffs else "differs")] += 1
                if diffs:
                    self.ctx.violation("%s:v2.%d:%s" % (name, version, "zero-tail" if version == 3 else "roundtrip"),
                                       "bytes after a text field that are all NUL are lost on reload: %s" % (diffs[:2],), case)

    def nested_unsynch_case(self):
        """v2.4 tag with the tag-level unsynchronisation flag and an unsynchronised CHAP/CTOC frame whose
        sub-frame contains FF 00 in its plain form (and no false sync, so that a second un-unsynchronisation
        of the sub-frame succeeds and removes the 00): checked explicitly so that the class is exercised
        in every run"""
        F = self.Frames
        for fr in (F["CHAP"](element_id="c", start_time=0, end_time=1, start_offset=2, end_offset=3,
                             sub_frames=[F["PRIV"](owner="o", data=b"\xff\x00\x01")]),
                   F["CTOC"](element_id="t", flags=3, child_element_ids=["c"],
                             sub_frames=[F["PRIV"](owner="o", data=b"\xff\x00\x01")])):
            name = type(fr).__name__
            data = self.save([fr], 4, pad0=True)
            major, frames = parse_tag(data)
            body = frames[0][2]
            st0, plain = self.load_one(data)
            data3 = self.save([fr], 3, None, pad0=True)
            body3 = parse_tag(data3)[1][0][2]
            st3, plain3 = self.load_one(data3)
            fr3 = frame23(name.encode(), body3)
            for label, tag in (("unsynchronised-input", tag24(frame24(name.encode(), ref_unsynch(body), 0x0002))),
                               ("tag+frame-unsynchronised-input", tag24(frame24(name.encode(), ref_unsynch(body), 0x0002), 0x80)),
                               ("v2.3-tag-unsynchronised-input", tag23(ref_unsynch(fr3), 0x80))):
                st, got = self.load_one(tag)
                if label.startswith("v2.3"):
                    st0, plain = st3, plain3
                self.ctx.case(key=(name, "nested-unsynch", label), nontrivial=True)
                case = {"frame": name, "repr": repr(fr), "framing": label, "tag": hx(tag), "klass": "nested-double-unsynch"}
                diffs = self.oracle.frame_diff(plain, got, exact=True) if (st == "ok" and st0 == "ok") else [("*", (st0, st))]
                self.ctx.hist["nested-unsynch:%s:%s" % (label, "equal" if not diffs else "differs")] += 1
                if diffs:
                    self.ctx.violation("%s:%s" % (name, label), "re-framed input decodes to other values than the plain frame: %s" % (diffs[:2],), case)


    def chapter_then_frames_case(self):
        """a tag whose frames follow each other under TAG-level unsynchronisation (v2.4 header flag 0x80 without
        per-frame flags; v2.3 whole-tag): every frame decodes like in the plain tag, whatever comes before it -
        in particular behind a CHAP/CTOC frame, whose embedded frames are read with a header of their own"""
        F = self.Frames
        chap = F["CHAP"](element_id="c", start_time=0, end_time=1, start_offset=2, end_offset=3,
                         sub_frames=[F["TIT2"](encoding=1, text=["\u00ffsub"])])
        ctoc = F["CTOC"](element_id="t", flags=3, child_element_ids=["c"], sub_frames=[F["TIT2"](encoding=0, text=["x"])])
        others = [F["PRIV"](owner="o", data=b"\xff\x00\x01\xff\xe0\xff"), F["TIT2"](encoding=1, text=["\u00ff\u0100 bom"]),
                  F["APIC"](encoding=0, mime="image/png", type=3, desc="d", data=b"\x89PNG\xff\x00\xff\x00\x00")]
        import itertools
        for ch in (chap, ctoc):
            for perm in itertools.permutations([ch] + others[:2] if self.ctx.quick else [ch] + others):
                frames = list(perm)
                for version in (4, 3):
                    # every frame rendered on its own, then framed by hand IN THIS ORDER (the writer would sort them)
                    parsed = []
                    for fr1 in frames:
                        d1 = self.save([fr1], version, None, pad0=True)
                        parsed.append(parse_tag(d1)[1][0])
                    if version == 4:
                        data = tag24(b"".join(frame24(fid.encode() if isinstance(fid, str) else fid, b, 0) for fid, fl, b in parsed))
                        # v2.4 tag-level flag: every frame is unsynchronised individually (the flag says all are)
                        fb = b"".join(frame24(fid.encode() if isinstance(fid, str) else fid, ref_unsynch(b), 0) for fid, fl, b in parsed)
                        tag = tag24(fb, 0x80)
                    else:
                        plain_body = b"".join(frame23(fid.encode() if isinstance(fid, str) else fid, b) for fid, fl, b in parsed)
                        data = tag23(plain_body)
                        tag = tag23(ref_unsynch(plain_body), 0x80)
                    k0, plain = timed(lambda: self.load(data, False), 5)
                    k1, got = timed(lambda: self.load(tag, False), 5)
                    label = "v2.%d-tag-unsynchronised-multi" % version
                    self.ctx.case(key=(type(ch).__name__, label, tuple(type(f).__name__ for f in frames)), nontrivial=True)
                    self.ctx.hist["multi-unsynch:" + label] += 1
                    case = {"frames": [repr(f)[:120] for f in frames], "framing": label, "tag": hx(tag[:600])}
                    if k0 != "ok" or k1 != "ok":
                        self.ctx.violation("multi:%s" % label, "loading failed: %r / %r" % (plain if k0 != "ok" else "ok", got if k1 != "ok" else "ok"), case)
                        continue
                    a = {kk: repr(v) for kk, v in plain.items()}
                    b = {kk: repr(v) for kk, v in got.items()}
                    if a != b:
                        diff = sorted(kk for kk in set(a) | set(b) if a.get(kk) != b.get(kk))
                        self.ctx.violation("multi:%s" % label, "frames %s decode differently in the unsynchronised tag: %s vs %s"
                                           % (diff[:3], [a.get(kk, "-")[:80] for kk in diff[:2]], [b.get(kk, "-")[:80] for kk in diff[:2]]), case)

    def mixed_tag(self, n):
        """several frames in one tag (sorting, HashKeys, determine_bpi on real mixtures)"""
        ctx = self.ctx
        names = sorted(self.Frames)
        for i in range(n):
            k = ctx.rng.randrange(2, 7)
            frames = []
            seen = set()
            for _ in range(k):
                nm = ctx.rng.choice(names)
                cls = self.Frames[nm]
                enc = ctx.rng.randrange(4) if self.has_enc(cls) else None
                try:
                    fr = self.make(cls, enc, ctx.rng.randrange(1000))
                except Exception:
                    continue
                if self.degenerate(fr) or self.classify(fr, 4) or fr.HashKey in seen:
                    continue
                seen.add(fr.HashKey)
                frames.append(fr)
            if not frames:
                continue
            for version in (4, 3):
                kind, data = timed(lambda: self.save(frames, version, None), 5)
                if kind != "ok":
                    ctx.violation("mixed-tag:v2.%d:save" % version, "save raised %r" % (data,), {"frames": [repr(f)[:200] for f in frames]})
                    continue
                kind, tag = timed(lambda: self.load(data), 5)
                ctx.case(key=("mixed", i, version), nontrivial=True, modelled=False)
                bad = None
                if kind != "ok":
                    bad = "load: %r" % (tag,)
                else:
                    for fr in frames:
                        if self.zero_tail(fr, None, version):
                            continue
                        # match by class and values (a HashKey may depend on the encoding, which v2.3 changes)
                        cands = [g for g in tag.values() if type(g) is type(fr)]
                        if not cands:
                            bad = "%s lost" % fr.HashKey
                            break
                        ds = [self.oracle.frame_diff(fr, g, expect=self.expected_v23(fr, None) if version == 3 else {},
                                                     expect_fn=(lambda f: self.expected_v23(f, None)) if version == 3 else None)
                              for g in cands]
                        if all(ds):
                            bad = "%s: %s" % (fr.HashKey, ds[0][:2])
                            break
                if bad:
                    # is it the determine_bpi heuristic?
                    key = "mixed-tag:v2.%d:roundtrip" % version
                    if version == 4:
                        from mutagen.id3._tags import determine_bpi
                        area = data[10:10 + unsyncsafe(data[6:10])]
                        if determine_bpi(area, self.Frames) is int:
                            key = "determine_bpi"
                    ctx.violation(key, "frames saved together do not all reload: " + bad, {"frames": [repr(f)[:300] for f in frames], "version": version})

    # ---------------------------------------------------------------- driver
    def run(self):
        ctx = self.ctx
        nv = ctx.budget(12, 40)
        classes = [(n, c) for n, c in sorted(self.Frames.items())] + [(n, c) for n, c in sorted(self.Frames22.items())]
        ctx.extra["frame_classes"] = len(classes)
        for name, cls in classes:
            encs = [0, 1, 2, 3] if self.has_enc(cls) else [None]
            is22 = len(name) == 3
            for enc in encs:
                n = nv if not is22 else max(2, nv // 2)
                if not self.uses_text(cls) and enc is not None:
                    n = max(2, n // 2)
                for v in range(n):
                    vv = v + (0 if enc is None else 3 * enc)
                    try:
                        self.check_frame(cls, enc, vv)
                    except Exception as e:
                        import traceback
                        ctx.violation("%s:harness-exception" % name, "checking raised %r" % (e,),
                                      {"frame": name, "enc": enc, "variant": vv, "tb": traceback.format_exc()[-600:]})
                    ctx.hist["class:" + ("v2.2" if is22 else "v2.3/4")] += 1
            if len(self.mlines) > 4000:
                self.flush_model()
        self.negative_counts()
        self.determine_bpi_case()
        self.zero_tail_cases()
        self.nested_unsynch_case()
        self.chapter_then_frames_case()
        self.mixed_tag(ctx.budget(150, 1500))
        self.flush_model()
        ctx.extra["model_requests"] = ctx.traces_validated


def run(ctx):
    ctx.rule = RULE
    Runner(ctx).run()


def search(ctx):
    old = ctx.tier; ctx.tier = "thorough"
    try:
        Runner(ctx).run()
    finally:
        ctx.tier = old


def replay(ctx, payload):
    """re-run the generators (cases are deterministic in (class, enc, variant)); a replay of a single frame
    re-checks only that class"""
    ctx.rule = RULE
    case = payload.get("case") or {}
    r = Runner(ctx)
    name = case.get("frame") if isinstance(case, dict) else None
    if name in r.Frames or name in r.Frames22:
        cls = r.Frames.get(name) or r.Frames22.get(name)
        r.check_frame(cls, case.get("enc"), case.get("variant", 0))
        r.negative_counts(); r.zero_tail_cases(); r.determine_bpi_case()
        r.flush_model()
    else:
        r.run()
