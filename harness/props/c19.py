"""C19 — Running out of space while growing leaves the file as it was."""
import errno
import formats as F
import walkers
from fobj import FaultFile
from guards import timed
from vcheck import hx, parse_fields

RULE = ("for every taggable format and sample: a tag growth of a few bytes to several KiB (thorough: up to 3 copy-buffer lengths with a small "
        "buffer substituted) saved into a capacity-limited file object, once for EVERY remaining capacity 0..growth-1 (quick: all values for "
        "growth <= 600, stride lattice above) with leak in {0, partial}: save() must raise MutagenError; formats whose tag region is enlarged "
        "before anything is overwritten must leave the bytes identical (length included), the others (tag appended at the end, chunk created, "
        "multi-page Ogg comments) must leave every foreign piece intact. With capacity = growth the save must succeed. FLAC is also compared "
        "with the Lean model (status and bytes). Non-trivial: the device filled up during the enlargement; distinct by "
        "(format, sample, growth, capacity, leak)")

# formats whose tag lives in one region that is enlarged before anything is overwritten
UNCHANGED = {"MP3", "TrueAudio", "FLAC", "MP4", "ASF"}
UNCHANGED_IF_TAGGED = {"AIFF", "WAVE", "DSDIFF"}          # existing ID3 chunk
OGG = {"OggVorbis", "OggOpus", "OggSpeex", "OggTheora", "OggFLAC"}


def cap_values(growth, quick, rng):
    if growth <= (600 if quick else 5000):
        return list(range(growth))
    vals = set([0, 1, 2, growth - 1, growth - 2, growth // 2])
    step = max(1, growth // (24 if quick else 200))
    vals.update(range(0, growth, step))
    vals.update(rng.randrange(growth) for _ in range(8 if quick else 60))
    return sorted(v for v in vals if 0 <= v < growth)


def run(ctx):
    from mutagen import MutagenError
    ctx.rule = RULE
    rng = ctx.rng
    flac_lines = []; flac_expect = []
    import containers
    from mutagen import _util
    scenarios = []
    for fmt in F.TAGGABLE:
        samples = fmt.samples[:2] if ctx.quick else fmt.samples
        for sname in samples:
            scenarios.append((fmt, sname, F.sample_bytes(ctx.repo, sname), {}, "default", [3, 150] if ctx.quick else [3, 150, 1500, 9000]))
        # growth of several copy-buffer lengths: a small buffer substituted for the 1 MiB default of the _util functions
        scenarios.append((fmt, fmt.samples[0], F.sample_bytes(ctx.repo, fmt.samples[0]), {}, "small", [1700] if ctx.quick else [900, 1700, 4000]))
    flac = F.BY_KIND["FLAC"]
    fl = F.sample_bytes(ctx.repo, flac.samples[0])
    # FLAC followed by an ID3v1 block, saved with deleteid3=True (the block is to go, but only once the save is through)
    scenarios.append((flac, flac.samples[0] + "+id3v1", fl + containers.id3v1_block(), {"deleteid3": True}, "default", [150, 1500]))
    scenarios.append((flac, flac.samples[0] + "+id3v1", fl + containers.id3v1_block(), {"deleteid3": True}, "small", [1700]))
    # the real 1 MiB buffer with a growth of 2.5 buffers
    for k in ("MP3", "FLAC"):
        scenarios.append((F.BY_KIND[k], F.BY_KIND[k].samples[0], F.sample_bytes(ctx.repo, F.BY_KIND[k].samples[0]), {}, "default",
                          [int(2.5 * _util._DEFAULT_BUFFER_SIZE)]))
    BUF_FUNCS = [getattr(_util, n) for n in ("resize_file", "move_bytes", "insert_bytes", "delete_bytes", "resize_bytes")]
    saved_defaults = [f.__defaults__ for f in BUF_FUNCS]

    def set_buffers(mode):
        for f, d in zip(BUF_FUNCS, saved_defaults):
            if mode == "small" and d:
                f.__defaults__ = tuple(257 if x == _util._DEFAULT_BUFFER_SIZE else x for x in d)
            else:
                f.__defaults__ = d
    try:
      for fmt, sname, data, savekw, bufmode, sizes in scenarios:
        set_buffers(bufmode)
        ctx.hist["buffers:" + bufmode] += 1
        for _once in (0,):
            w0 = walkers.walk(fmt.kind, data)
            if w0.errors:
                continue
            for tsize in sizes:
                # the tags to save, prepared on an unrestricted copy
                try:
                    obj, fobj = F.load(fmt, data, "x" + fmt.exts[0])
                    F.put(fmt, obj, 4, "G" * tsize)
                    F.put(fmt, obj, 0, "t" * (tsize // 3 + 1))
                except Exception as e:
                    ctx.notes.append("cannot prepare %s: %s" % (sname, type(e).__name__)); break
                ref = F.NamedBytesIO(data, "x" + fmt.exts[0])
                try:
                    ref.seek(0); obj.save(ref, **dict(({"padding": (lambda i: 0)} if fmt.padding else {}), **savekw))
                except Exception as e:
                    ctx.notes.append("reference save failed for %s: %s" % (sname, type(e).__name__)); break
                growth = len(ref.getvalue()) - len(data)
                if growth <= 0 and tsize == sizes[-1]:
                    # existing padding absorbs the edit: enlarge the tag until the file has to grow
                    big = tsize
                    while growth <= 0 and big < 400000:
                        big = big * 8 + 4000
                        obj, fobj = F.load(fmt, data, "x" + fmt.exts[0])
                        F.put(fmt, obj, 4, "G" * big); F.put(fmt, obj, 0, "t" * (big // 3 + 1))
                        ref = F.NamedBytesIO(data, "x" + fmt.exts[0])
                        ref.seek(0); obj.save(ref, **dict(({"padding": (lambda i: 0)} if fmt.padding else {}), **savekw))
                        growth = len(ref.getvalue()) - len(data)
                    tsize = big
                if growth <= 0:
                    continue
                if savekw.get("deleteid3"):
                    growth += 128       # the ID3v1 block goes only after the enlargement: the peak size counts
                blocks_arg = None
                if fmt.kind == "FLAC" and not data.startswith(b"ID3") and not savekw and bufmode == "default" and growth < 100000:
                    blocks_arg = ",".join("%d:%s" % (b.code, hx(b.write())) for b in obj.metadata_blocks if b.code != 1)
                for r in cap_values(growth, ctx.quick, rng) + [growth]:
                    for leak in ((0,) if (ctx.quick and r % 3) else (0, 5)):
                        capf = FaultFile(data, cap=len(data) + r, leak=leak)
                        capf.name = "x" + fmt.exts[0]
                        def attempt():
                            # a fresh object holding the same tags, saving into the limited file
                            o2, _ = F.load(fmt, data, "x" + fmt.exts[0])
                            F.put(fmt, o2, 4, "G" * tsize)
                            F.put(fmt, o2, 0, "t" * (tsize // 3 + 1))
                            capf.seek(0)
                            o2.save(capf, **dict(({"padding": (lambda i: 0)} if fmt.padding else {}), **savekw))
                        kind, res = timed(attempt, 20)
                        after = capf.getvalue()
                        case = {"format": fmt.kind, "sample": sname, "tag_growth": growth, "remaining_capacity": r, "leak": leak,
                                "buffers": bufmode, "save_kwargs": sorted(savekw)}
                        ctx.case(key=(fmt.kind, sname, growth, r, leak, bufmode), nontrivial=(r < growth), modelled=(blocks_arg is not None),
                                 sample=case if (r == 1 and leak == 0 and tsize == 150 and sname == fmt.samples[0] and fmt.kind in ("FLAC", "MP3")) else None)
                        ctx.hist["fmt:" + fmt.kind] += 1
                        if r >= growth:
                            ctx.hist["fits"] += 1
                            if kind != "ok":
                                ctx.violation("%s:fails-with-enough-space" % fmt.kind, "save failed although the growth fits: %r" % (res,), case)
                            elif after != ref.getvalue():
                                ctx.violation("%s:differs-from-unlimited-save" % fmt.kind, "capacity-limited save differs from the unlimited one", case)
                            continue
                        ctx.hist["full"] += 1
                        if kind == "ok":
                            # the save found a way that needs less space (e.g. reusing padding): must be a complete, valid save
                            if after != ref.getvalue():
                                ctx.violation("%s:returns-normally-on-full-device" % fmt.kind,
                                              "save returned normally on a full device with a file different from the unlimited save", case)
                            continue
                        if kind == "hang":
                            ctx.violation("%s:hang" % fmt.kind, "save did not finish", case); continue
                        if not isinstance(res, MutagenError):
                            ctx.violation("%s:raises-%s" % (fmt.kind, type(res).__name__),
                                          "ENOSPC surfaced as %s: %s" % (type(res).__name__, str(res)[:80]), case)
                        strict = fmt.kind in UNCHANGED or (fmt.kind in UNCHANGED_IF_TAGGED and w0.tagged) or \
                            (fmt.kind in OGG and w0.book.get("pages_for_comment", 1) == 1 and False)
                        if strict:
                            if after != data:
                                what = "length %d -> %d" % (len(data), len(after)) if len(after) != len(data) else "same length, bytes differ"
                                ctx.violation("%s:file-modified-on-enospc" % fmt.kind, "file changed although save failed (%s)" % what, case)
                        elif fmt.family == "ape" or fmt.kind == "DSF":
                            # tag appended at the end: the audio payload must still be there, in place
                            payload = w0.foreign[0][1]
                            start = 28 if fmt.kind == "DSF" else 0
                            if after[start:start + len(payload)] != payload:
                                ctx.violation("%s:payload-damaged-on-enospc" % fmt.kind, "the audio payload is no longer intact after the failed save", case)
                        else:
                            w = walkers.walk(fmt.kind, after)
                            mine = dict((l, b) for l, b in w.foreign)
                            lost = [l for l, b in w0.foreign if mine.get(l) != b and not (l == "after-form")]
                            if lost and after[:len(data)] != data:
                                ctx.violation("%s:payload-damaged-on-enospc" % fmt.kind,
                                              "audio / foreign data %r differ after the failed save" % (lost[:3],), case)
                        if blocks_arg is not None and len(flac_lines) < ctx.budget(400, 4000):
                            flac_lines.append("flacc op=save data=%s blocks=%s pad=0 cap=%d leak=%d" % (hx(data), blocks_arg, len(data) + r, leak))
                            flac_expect.append((case, "err mutagen" if kind != "ok" else "ok", hx(after)))
    finally:
        set_buffers("default")
    if ctx.model_ok() and flac_lines:
        for line, (case, st, dat) in zip(ctx.driver.ask(flac_lines), flac_expect):
            ctx.traces_validated += 1
            mst, mf = parse_fields(line)
            impl = "ok" if st == "ok" else "err:enospc"
            if mst != impl or mf.get("data") != dat:
                ctx.disagree("flac-save-enospc", case, model=line[:160], impl="%s data=%s" % (impl, dat[:120]))


    # the container models as programs over the file object (Model/Container/<X>M.lean, Props/C19_<X>.lean, Props/C06_<X>.lean):
    # the real code on fobj.FaultFile vs the model under the same capacity / fault schedule - outcome class, bytes left, call log
    import importlib
    for name in ("asf_tie", "iff_tie", "dsf_tie", "ogginject_tie"):
        importlib.import_module(name).run_faults(ctx)
    importlib.import_module("mp4file_tie").run_faults(ctx, want=("cap",))
    importlib.import_module("id3file_tie").run_faults(ctx, want=("cap",))
    importlib.import_module("apefile_tie").run_faults(ctx, want=("cap",))

def search(ctx):
    old = ctx.tier; ctx.tier = "thorough"
    try:
        run(ctx)
    finally:
        ctx.tier = old
