"""C05 — Stream information equals what the headers encode."""
import os
import io, struct, itertools, importlib
from vcheck import hx, parse_fields
from guards import timed

RULE = ("MPEG audio: the full version x layer x protection x bitrate-index x rate-index x padding x mode product (every ISO-valid header as a "
        "6-frame stream with ISO frame lengths through MP3(), every header through MPEGFrame vs the Lean decoder); FLAC STREAMINFO: every bit "
        "field at 0/1/max-1/max and random values through FLAC() and StreamInfo.load/write vs the Lean model; synthesised headers of the other "
        "formats (harness/gen/headers_more.py: field extremes, every rate-table row) through the real loaders. Non-trivial: the header is "
        "spec-valid and the loader returned stream info; distinct by parameter tuple")


def pack_bits(fields):
    v = 0; n = 0
    for w, x in fields:
        assert 0 <= x < (1 << w), (w, x)
        v = (v << w) | x; n += w
    assert n % 8 == 0
    return v.to_bytes(n // 8, "big")


ISO_BR = {
    (10, 1): [0, 32, 64, 96, 128, 160, 192, 224, 256, 288, 320, 352, 384, 416, 448],
    (10, 2): [0, 32, 48, 56, 64, 80, 96, 112, 128, 160, 192, 224, 256, 320, 384],
    (10, 3): [0, 32, 40, 48, 56, 64, 80, 96, 112, 128, 160, 192, 224, 256, 320],
    (20, 1): [0, 32, 48, 56, 64, 80, 96, 112, 128, 144, 160, 176, 192, 224, 256],
    (20, 2): [0, 8, 16, 24, 32, 40, 48, 56, 64, 80, 96, 112, 128, 144, 160],
}
ISO_BR[(20, 3)] = ISO_BR[(20, 2)]
for _l in (1, 2, 3):
    ISO_BR[(25, _l)] = ISO_BR[(20, _l)]
ISO_SR = {10: [44100, 48000, 32000], 20: [22050, 24000, 16000], 25: [11025, 12000, 8000]}


def iso_frame_length(ver, lay, br, sr, pad):
    if lay == 1:
        return (12 * br // sr + pad) * 4
    if lay == 3 and ver != 10:
        return 72 * br // sr + pad
    return 144 * br // sr + pad


def mpeg_header(v, l, p, b, s, pad, priv, m, rest):
    return pack_bits([(11, 0x7FF), (2, v), (2, l), (1, p), (4, b), (2, s), (1, pad), (1, priv), (2, m), (6, rest)])


def check_mpeg(ctx):
    from mutagen.mp3 import MP3, MPEGFrame, HeaderNotFoundError
    rng = ctx.rng
    combos = list(itertools.product(range(4), range(4), range(2), range(16), range(4), range(2), range(4)))
    lines = []
    frames_real = []
    for (v, l, p, b, s, pad, m) in combos:
        priv = rng.randrange(2); rest = rng.randrange(64)
        hdr = mpeg_header(v, l, p, b, s, pad, priv, m, rest)
        valid = not (v == 1 or l == 0 or s == 3 or b == 15 or b == 0)
        lines.append("mpeg op=decode data=" + hx(hdr + b"\0" * 4))
        # MPEGFrame on one frame worth of bytes
        f = io.BytesIO(hdr + b"\0" * 3000)
        try:
            fr = MPEGFrame(f)
            ver10 = int(round(fr.version * 10))
            real = "ok ver=%d lay=%d br=%d sr=%d ch=%d mode=%d pad=%d prot=%d flen=%d" % (
                ver10, fr.layer, fr.bitrate, fr.sample_rate, fr.channels, fr.mode, int(fr.padding), int(fr.protected),
                f.tell() - fr.frame_offset)
        except HeaderNotFoundError:
            real = "err mutagen"
        except Exception as e:
            real = "err " + type(e).__name__
        frames_real.append(real)
        case = {"fmt": "MPEG", "version_bits": v, "layer_bits": l, "protection": p, "bitrate_index": b, "rate_index": s,
                "padding": pad, "mode": m, "private": priv, "rest": rest}
        ctx.case(key=("mpeg", v, l, p, b, s, pad, m), nontrivial=valid,
                 sample=case if (v, l, p, b, s, pad, m) in ((3, 1, 1, 9, 0, 0, 1), (0, 3, 0, 14, 2, 1, 3)) else None)
        ctx.hist["mpeg:" + ("valid" if valid else "invalid")] += 1
        if not valid:
            continue
        ver = {0: 25, 2: 20, 3: 10}[v]; lay = 4 - l
        br = ISO_BR[(ver, lay)][b] * 1000; sr = ISO_SR[ver][s]
        flen = iso_frame_length(ver, lay, br, sr, pad)
        nframes = 6
        if ctx.quick and (p == 0 or (m in (1, 2) and b % 3)):
            # quick tier: the 6-frame stream for a third of the product; the header-level check above covers all
            continue
        stream = (hdr + b"\0" * (flen - 4)) * nframes
        kind, r = timed(lambda: MP3(io.BytesIO(stream)).info, 10)
        ctx.hist["mpeg-stream:" + kind] += 1
        exp = dict(version=ver / 10.0, layer=lay, bitrate=br, sample_rate=sr, channels=(1 if m == 3 else 2), mode=m,
                   padding=bool(pad), protected=(p == 0), sketchy=False, length=8 * len(stream) / float(br))
        if kind != "ok":
            ctx.violation("mpeg:layer%d:stream-rejected" % lay,
                          "a valid %d-frame MPEG-%s layer %d stream is rejected: %r" % (nframes, ver / 10.0, lay, r), case)
            continue
        bad = {k: (getattr(r, k, None), e) for k, e in exp.items() if getattr(r, k, None) != e}
        if bad:
            ctx.violation("mpeg:layer%d:%s" % (lay, "+".join(sorted(bad))),
                          "MP3().info differs from the header: %r" % (bad,), case)
    if ctx.model_ok():
        mo = ctx.driver.ask(lines)
        for (combo, line, real) in zip(combos, mo, frames_real):
            ctx.traces_validated += 1
            if line != real:
                ctx.disagree("MPEGFrame", {"fields": combo}, model=line, impl=real)


def check_mpeg_vbr(ctx):
    """Layer III streams whose first frame carries a Xing/Info or VBRI header: duration and average bitrate come from
    the frame and byte counts in that header.  Xing/Info sits behind the side information (32 bytes MPEG-1 stereo, 17 MPEG-1
    mono and MPEG-2/2.5 stereo, 9 MPEG-2/2.5 mono), VBRI always 32 bytes behind the 4 header bytes."""
    from mutagen.mp3 import MP3
    rng = ctx.rng
    for v in (3, 2, 0):
        ver = {0: 25, 2: 20, 3: 10}[v]
        for m in range(4):
            for s in range(3):
                for kind_ in ("Xing", "Info", "VBRI"):
                    for rep in range(ctx.budget(1, 4)):
                        b = rng.choice([5, 9, 12, 14]) if rep else 9
                        br = ISO_BR[(ver, 3)][b] * 1000; sr = ISO_SR[ver][s]
                        flen = iso_frame_length(ver, 3, br, sr, 0)
                        hdr = mpeg_header(v, 1, 1, b, s, 0, 0, m, 0)
                        side = (32 if m != 3 else 17) if ver == 10 else (17 if m != 3 else 9)
                        nfr = rng.choice([1, 2, 199, 200, 4000, 123457]); nby = rng.randrange(1000, 40_000_000)
                        if kind_ == "VBRI":
                            vb = b"VBRI" + struct.pack(">HHHLLHHHH", 1, 0, 75, nby, nfr, 1, 1, 2, 1) + b"\x00\x00"
                            if 4 + 32 + len(vb) > flen:
                                continue
                            first = hdr + b"\0" * 32 + vb
                        else:
                            xi = kind_.encode() + struct.pack(">LLL", 3, nfr, nby)
                            if 4 + side + len(xi) > flen:
                                continue
                            first = hdr + b"\0" * side + xi
                        first += b"\0" * (flen - len(first))
                        stream = first + (hdr + b"\0" * (flen - 4)) * 5
                        spf = 1152 if ver == 10 else 576
                        exp_len = nfr * spf / float(sr)
                        exp_br = nby * 8 / exp_len
                        case = {"fmt": "MPEG-VBR", "header": kind_, "version": ver / 10.0, "mode": m, "rate_index": s, "bitrate_index": b,
                                "frames": nfr, "bytes": nby}
                        kind, r = timed(lambda: MP3(io.BytesIO(stream)).info, 10)
                        ctx.case(key=("mpeg-vbr", kind_, v, m, s, b, nfr, nby), nontrivial=True, modelled=False,
                                 sample=case if (v, m, s, kind_, rep) == (3, 3, 0, "Xing", 0) else None)
                        ctx.hist["mpeg-vbr:" + kind_] += 1
                        if kind != "ok":
                            ctx.violation("mpeg:vbr:%s:stream-rejected" % kind_, "stream with a %s header rejected: %r" % (kind_, r), case)
                            continue
                        bad = {}
                        if r.length != exp_len:
                            bad["length"] = (r.length, exp_len)
                        # average bit rate: byte count over duration; whether the header frame itself is counted is a convention
                        if abs(r.bitrate - exp_br) > flen * 8 / exp_len + 1:
                            bad["bitrate"] = (r.bitrate, exp_br)
                        if r.sketchy:
                            bad["sketchy"] = (True, False)
                        if (r.sample_rate, r.channels) != (sr, 1 if m == 3 else 2):
                            bad["sample_rate+channels"] = ((r.sample_rate, r.channels), (sr, 1 if m == 3 else 2))
                        if bad:
                            ctx.violation("mpeg:vbr:%s:%s" % (kind_, "+".join(sorted(bad))),
                                          "MP3().info ignores or misreads the %s header (MPEG-%s mode %d): %r" % (kind_, ver / 10.0, m, bad), case)


SI_LIMITS = [("minbs", 16), ("maxbs", 16), ("minfs", 24), ("maxfs", 24), ("sr", 20), ("ch", 3), ("bps", 5), ("total", 36), ("md5", 128)]


def streaminfo_bytes(p):
    return pack_bits([(16, p["minbs"]), (16, p["maxbs"]), (24, p["minfs"]), (24, p["maxfs"]), (20, p["sr"]),
                      (3, p["ch"] - 1), (5, p["bps"] - 1), (36, p["total"]), (128, p["md5"])])


def check_flac(ctx):
    from mutagen.flac import FLAC, StreamInfo
    rng = ctx.rng
    cases = []
    def extremes(w, lo=0):
        m = (1 << w) - 1
        return sorted(set([lo, lo + 1, m - 1, m, 1 << (w - 1), (1 << (w - 1)) - 1]) - {-1})
    base = dict(minbs=4096, maxbs=4096, minfs=0, maxfs=0, sr=44100, ch=2, bps=16, total=1000, md5=0)
    for name, w in SI_LIMITS:
        for x in extremes(w):
            p = dict(base)
            if name == "ch":
                p["ch"] = x + 1
            elif name == "bps":
                p["bps"] = x + 1
            else:
                p[name] = x
            cases.append(p)
    for _ in range(ctx.budget(300, 5000)):
        p = {}
        for name, w in SI_LIMITS:
            x = rng.choice([0, 1, (1 << w) - 1, rng.randrange(1 << w), rng.randrange(1 << w)])
            p[name] = x + 1 if name in ("ch", "bps") else x
        cases.append(p)
    lines = []; expect_lines = []; wlines = []; wexpect = []
    for i, p in enumerate(cases):
        payload = streaminfo_bytes(p)
        valid = p["sr"] != 0
        data = b"fLaC" + bytes([0x80]) + (34).to_bytes(3, "big") + payload + b"\xff\xf8" + b"\0" * 64
        kind, r = timed(lambda: FLAC(io.BytesIO(data)).info, 10)
        ctx.case(key=("flac",) + tuple(sorted(p.items())), nontrivial=valid,
                 sample=dict(p, fmt="FLAC STREAMINFO") if i in (3, 40) else None)
        ctx.hist["flac:" + kind] += 1
        case = dict(p, fmt="FLAC")
        if valid:
            if kind != "ok":
                ctx.violation("flac:rejected", "valid STREAMINFO rejected: %r" % (r,), case)
            else:
                exp = dict(min_blocksize=p["minbs"], max_blocksize=p["maxbs"], min_framesize=p["minfs"], max_framesize=p["maxfs"],
                           sample_rate=p["sr"], channels=p["ch"], bits_per_sample=p["bps"], total_samples=p["total"],
                           md5_signature=p["md5"], length=p["total"] / float(p["sr"]))
                bad = {k: (getattr(r, k, None), e) for k, e in exp.items() if getattr(r, k, None) != e}
                if bad:
                    ctx.violation("flac:" + "+".join(sorted(bad)), "FLAC().info differs from STREAMINFO: %r" % (bad,), case)
                elif r.write() != payload:
                    ctx.violation("flac:rewrite", "StreamInfo.write() of a loaded block differs from the block", case)
        else:
            from mutagen import MutagenError
            if kind == "ok" or not isinstance(r, MutagenError):
                ctx.violation("flac:zero-rate", "sample rate 0 gave %s %r" % (kind, r), case)
        lines.append("flacinfo op=siload data=" + hx(payload))
        if kind == "ok":
            expect_lines.append("ok minbs=%d maxbs=%d minfs=%d maxfs=%d sr=%d ch=%d bps=%d total=%d md5=%d" % (
                r.min_blocksize, r.max_blocksize, r.min_framesize, r.max_framesize, r.sample_rate, r.channels,
                r.bits_per_sample, r.total_samples, r.md5_signature))
        else:
            expect_lines.append("err mutagen")
    # write side with out-of-range attribute values (masking behaviour)
    for _ in range(ctx.budget(200, 2000)):
        si = StreamInfo.__new__(StreamInfo)
        vals = {}
        for name, w in SI_LIMITS:
            x = rng.choice([0, 1, (1 << w) - 1, rng.randrange(1 << w)])
            vals[name] = max(1, x) if name in ("ch", "bps") else x
        vals["ch"] = rng.randrange(1, 9); vals["bps"] = rng.randrange(1, 33)
        si.min_blocksize, si.max_blocksize, si.min_framesize, si.max_framesize = vals["minbs"], vals["maxbs"], vals["minfs"], vals["maxfs"]
        si.sample_rate, si.channels, si.bits_per_sample, si.total_samples, si.md5_signature = vals["sr"], vals["ch"], vals["bps"], vals["total"], vals["md5"]
        try:
            w = si.write()
        except Exception as e:
            continue
        wlines.append("flacinfo op=siwrite " + " ".join("%s=%d" % kv for kv in vals.items()))
        wexpect.append("ok v=" + hx(w))
    if ctx.model_ok():
        for line, exp, p in zip(ctx.driver.ask(lines), expect_lines, cases):
            ctx.traces_validated += 1
            if line != exp:
                ctx.disagree("StreamInfo.load", p, model=line, impl=exp)
        for line, exp in zip(ctx.driver.ask(wlines), wexpect):
            ctx.traces_validated += 1
            if line != exp:
                ctx.disagree("StreamInfo.write", {}, model=line[:120], impl=exp[:120])


def check_more(ctx):
    try:
        from gen import headers_more
    except Exception as e:
        ctx.notes.append("gen/headers_more.py not available: %s" % e)
        return
    for kind, params, data, expect in headers_more.cases(ctx.rng, not ctx.quick):
        path = headers_more.KINDS[kind]
        mod, name = path.rsplit(".", 1)
        cls = getattr(importlib.import_module(mod), name)
        k, r = timed(lambda: cls(io.BytesIO(data)).info, 10)
        ctx.case(key=(kind,) + tuple(sorted((a, repr(b)) for a, b in params.items())), nontrivial=(k == "ok"), modelled=False,
                 sample=dict(params, fmt=kind) if ctx.hist["more:" + kind] == 2 else None)
        ctx.hist["more:" + kind] += 1
        case = dict(params, fmt=kind)
        if k != "ok":
            ctx.violation("%s:%s" % (kind, "hang" if k == "hang" else "rejected-" + type(r).__name__),
                          "spec-valid %s header not loaded: %r" % (kind, r), case)
            continue
        bad = {}
        for attr, e in expect.items():
            if kind == "MP4_AAC" and attr == "codec":
                continue      # RFC 6381 naming of hierarchically signalled HE-AAC is a matter of interpretation
            e = headers_more.evaluate(e)
            got = getattr(r, attr, None)
            if got != e:
                bad[attr] = (got, e)
        if bad:
            ctx.violation("%s:%s" % (kind, "+".join(sorted(bad))), "%s info differs from the header: %r" % (kind, bad), case)


def check_ogg_last_page(ctx):
    """the length of an Ogg stream comes from the granule position of its last page: a packet of that page whose bytes
    look like a page header must not be taken for a page (theorem/witness: Props/C05_OggVorbis.lean ogg_false_sync_witness)"""
    import io
    from mutagen.ogg import OggPage
    for fmt_name, sample, mod, cls in (("OggVorbis", "empty.ogg", "mutagen.oggvorbis", "OggVorbis"), ("OggOpus", "example.opus", "mutagen.oggopus", "OggOpus"),
                                       ("OggSpeex", "empty.spx", "mutagen.oggspeex", "OggSpeex")):
        K = getattr(__import__(mod, fromlist=[cls]), cls)
        data = open(os.path.join(ctx.repo, "tests", "data", sample), "rb").read()
        f = io.BytesIO(data); pages = []
        while True:
            try:
                pages.append(OggPage(f))
            except EOFError:
                break
        last = pages[-1]
        want = K(io.BytesIO(data)).info.length
        for factor in (10, 0):
            fake = OggPage(); fake.serial = last.serial; fake.sequence = last.sequence + 1; fake.position = last.position * factor
            fake.last = True; fake.packets = [b"zz"]
            new = OggPage(); new.serial = last.serial; new.sequence = last.sequence; new.position = last.position; new.last = True
            new.complete = True; new.continued = last.continued
            new.packets = [fake.write()]
            out = b"".join(p.write() for p in pages[:-1]) + new.write()
            case = {"format": fmt_name, "sample": sample, "embedded_granule_factor": factor}
            ctx.case(key=("ogg-last-page", fmt_name, factor), nontrivial=True, modelled=False, sample=case if factor == 10 and fmt_name == "OggVorbis" else None)
            ctx.hist["ogg-last-page"] += 1
            try:
                got = K(io.BytesIO(out)).info.length
            except Exception as e:
                ctx.violation("ogg:last-page:raises:%s" % fmt_name, "%s on a stream whose last page carries a packet that looks like a page header: %s" % (type(e).__name__, e), case)
                continue
            if got != want:
                ctx.violation("ogg:last-page:false-sync:%s" % fmt_name, "length %r, the last page's granule position encodes %r" % (got, want), case)


def check_smf_length(ctx):
    """Standard MIDI File length: a delta-time in front of ANY event advances the time (SMF 1.0), not only in front of channel
    messages; witness theorem Props/C05_Smf.lean smf_meta_delta_witness (the three further tempo deviations proved there -
    tempo changes charged to the wrong interval, same-tick tempo events ordered by value, format-1 tempo map taken from the first
    track that has one - are characterised by the hypothesis `Aligned` of smf_info_decodes_partial)"""
    import io
    from mutagen.smf import SMF
    # division 480; note on, note off after 480 ticks, End of Track after another 480: 960 ticks at the default tempo = 1.0 s
    data = bytes.fromhex("4d546864000000060000000101e04d54726b0000000e00903c408360803c008360ff2f00")
    case = {"format": "SMF", "data_hex": data.hex(), "encoded_length_s": 1.0}
    ctx.case(key=("smf-meta-delta",), nontrivial=True, modelled=True, sample=case)
    ctx.hist["smf:meta-delta"] += 1
    try:
        got = SMF(io.BytesIO(data)).info.length
    except Exception as e:
        ctx.violation("SMF:length:raises", "%s: %s" % (type(e).__name__, e), case); return
    if got != 1.0:
        ctx.violation("SMF:length:non-channel-delta-ignored", "length %r, the file encodes 1.0 s (960 ticks at 480 per quarter, 500000 us per quarter)" % got, case)


def run(ctx):
    ctx.rule = RULE
    check_ogg_last_page(ctx)
    check_smf_length(ctx)
    check_mpeg(ctx)
    check_mpeg_vbr(ctx)
    check_flac(ctx)
    check_more(ctx)
    # stream-info parsers modelled in Lean (Model/Info, Spec/Info, Props/C05_<Fmt>.lean): model vs real class, spec builder
    # vs the independent Python builders
    import info_tie_a
    info_tie_a.run(ctx)
    import info_tie_b
    info_tie_b.run(ctx)


def search(ctx):
    old = ctx.tier; ctx.tier = "thorough"
    try:
        run(ctx)
    finally:
        ctx.tier = old
