"""C06 — I/O failures surface only as MutagenError; success means written."""
import errno
import formats as F
import walkers
from fobj import FaultFile, RawMem
from guards import timed
from vcheck import hx, parse_fields

RULE = ("for every taggable format, sample and operation (load, growing save, shrinking save, delete by method, module-level delete): one run "
        "per file-object call index 0..N-1 with an IOError injected at that call (quick: every index when N <= 120, else the first/last 25 and "
        "a random 40), and a short read (0, 1 or half of the requested bytes) at read-call indices; the call must complete or raise MutagenError, "
        "must not call close() on the caller's object, and when it returns normally a reload must give exactly the tags that were saved (none "
        "after delete). FLAC save is also compared with the Lean model under the same fault (status and bytes). Non-trivial: the fault fired; "
        "distinct by (format, sample, operation, fault kind, index)")


def prepare(fmt, data, op):
    """-> (callable(fobj) performing the operation, expected tags snapshot after success or None)"""
    name = "x" + fmt.exts[0]
    if op == "load":
        def go(fobj):
            fobj._f.seek(0)
            fmt.cls(fobj)
        return go, "n/a"
    obj, _ = F.load(fmt, data, name)
    if op == "save-grow":
        F.put(fmt, obj, 4, "G" * 2500); F.put(fmt, obj, 0, "grow")
    elif op == "save-shrink":
        F.put(fmt, obj, 0, "s")
        if obj.tags is not None:
            for k in list(obj.tags.keys())[1:]:
                try:
                    del obj.tags[k]
                except Exception:
                    pass
    if op.startswith("save"):
        expect = F.snapshot(fmt, obj)
        def go(fobj):
            fobj._f.seek(0)
            obj.save(fobj, **({"padding": (lambda i: 0)} if fmt.padding else {}))
        return go, expect
    if op == "delete":
        def go(fobj):
            fobj._f.seek(0)
            obj.delete(fobj)
        return go, None
    if op == "module-delete":
        import containers
        fn = containers.module_delete(fmt)
        if fn is None:
            return None, None
        def go(fobj):
            fobj._f.seek(0)
            fn(fobj)
        return go, None
    raise KeyError(op)


def indices(n, quick, rng):
    if n <= (120 if quick else 1500):
        return list(range(n))
    keep = set(range(25)) | set(range(n - 25, n))
    keep.update(rng.sample(range(n), 40 if quick else 400))
    return sorted(keep)


def run(ctx):
    from mutagen import MutagenError
    ctx.rule = RULE
    rng = ctx.rng
    flac_jobs = []
    import containers
    for fmt in F.TAGGABLE:
        samples = fmt.samples[:1] if ctx.quick else fmt.samples[:3]
        todo = [(sname, F.sample_bytes(ctx.repo, sname)) for sname in samples]
        # loading is cheap and every sample has its own header structures (VBRI / Xing / LAME tables, extended headers,
        # multi-page comments ...): all samples are loaded under faults, the writing operations run on the first ones
        load_only = [(sname, F.sample_bytes(ctx.repo, sname)) for sname in fmt.samples if sname not in samples]
        load_only = [x for x in load_only if len(x[1]) < 400000]
        load_only_names = {x[0] for x in load_only}
        # synthesised layouts: MP4 atom layouts (64-bit headers, split media, fragments), a few tails for ID3-framed files
        synth = containers.synth_samples(ctx, fmt)
        if fmt.kind == "MP4":
            # quick tier: the layouts with 64-bit atom headers (their size patching has its own read/convert path) and one more
            todo += synth if not ctx.quick else [x for x in synth if "-wide" in x[0]] + synth[:1]
        elif synth:
            todo += synth[:2] if ctx.quick else synth[:6]
        for sname, data in todo + load_only:
            if walkers.walk(fmt.kind, data).errors:
                continue
            for op in (("load",) if sname in load_only_names else ("load", "save-grow", "save-shrink", "delete", "module-delete")):
                try:
                    go, expect = prepare(fmt, data, op)
                except Exception as e:
                    ctx.notes.append("cannot prepare %s %s: %s" % (sname, op, type(e).__name__)); continue
                if go is None:
                    continue
                ref = FaultFile(data); ref.name = "x" + fmt.exts[0]
                k0, r0 = timed(lambda: go(ref), 30)
                if k0 != "ok":
                    ctx.notes.append("reference %s of %s failed: %r" % (op, sname, r0)); continue
                n = ref.calls
                ref_log = list(ref.log)
                # the same operation on a raw stream (io.RawIOBase), clean and with one fault: never closed, only MutagenError
                for fa in (None, 0, 3, n // 2):
                    rm = RawMem(data, name="x" + fmt.exts[0], fail_at=fa)
                    try:
                        go3, _ = prepare(fmt, data, op)
                    except Exception:
                        break
                    def run_raw():
                        rm._b.seek(0)
                        if op == "load":
                            fmt.cls(rm)
                        else:
                            # prepare()'s closure rewinds through `_f` of FaultFile: give it the same handle
                            rm._f = rm._b
                            go3(rm)
                    kr, rr = timed(run_raw, 30)
                    ctx.case(key=(fmt.kind, sname, op, "raw", fa), nontrivial=True, modelled=False)
                    ctx.hist["raw-stream"] += 1
                    craw = {"format": fmt.kind, "sample": sname, "op": op, "stream": "io.RawIOBase", "fail_at": fa}
                    if rm.close_calls or rm.closed:
                        ctx.violation("%s:%s:closes-caller-file" % (fmt.kind, op), "close() was called on the caller's raw stream", craw)
                    if kr == "exc" and not isinstance(rr, MutagenError):
                        key = "escape:%s:raw-stream" % type(rr).__name__
                        if isinstance(rr, ValueError) and str(rr).startswith("Can't "):
                            key = "escape:ValueError:_util.py:verify_fileobj"      # the recorded finding, reached through a raw stream
                        ctx.violation(key, "%s escaped from %s %s on a raw stream: %s"
                                      % (type(rr).__name__, fmt.kind, op, str(rr)[:100]), craw)
                ref_bytes = ref.getvalue()
                reads = [i for i, l in enumerate(ref_log) if l.startswith("r")]
                plans = [("io", i, None) for i in indices(n, ctx.quick, rng)]
                rsel = reads if len(reads) <= (40 if ctx.quick else 400) else rng.sample(reads, 40 if ctx.quick else 400)
                for i in rsel:
                    want = int(ref_log[i][1:]) if ref_log[i][1:].lstrip("-").isdigit() else 0
                    for short in sorted({0, 1, max(0, want // 2), max(0, want - 1)}):
                        if want < 0 or short < want:
                            plans.append(("short", i, short))
                for kind, i, short in plans:
                    f = FaultFile(data, fail_at=(i if kind == "io" else None), short=((i, short) if kind == "short" else None))
                    f.name = "x" + fmt.exts[0]
                    try:
                        go2, expect2 = prepare(fmt, data, op)
                    except Exception:
                        continue
                    k, r = timed(lambda: go2(f), 30)
                    after = f.getvalue()
                    case = {"format": fmt.kind, "sample": sname, "op": op, "fault": kind, "call_index": i,
                            "call": ref_log[i] if i < len(ref_log) else None, "short_to": short, "calls_in_clean_run": n}
                    ctx.case(key=(fmt.kind, sname, op, kind, i, short), nontrivial=True, modelled=(fmt.kind == "FLAC" and op.startswith("save")),
                             sample=case if (i == 7 and kind == "io" and op == "save-grow" and fmt.kind in ("FLAC", "MP4")) else None)
                    ctx.hist["op:" + op] += 1
                    ctx.hist["fault:" + kind] += 1
                    ctx.hist["outcome:" + (k if k != "exc" else ("MutagenError" if isinstance(r, MutagenError) else type(r).__name__))] += 1
                    if f.closed_called:
                        ctx.violation("%s:%s:closes-caller-file" % (fmt.kind, op), "close() was called on the caller's file object", case)
                    if k == "hang":
                        ctx.violation("%s:%s:hang" % (fmt.kind, op), "did not finish", case); continue
                    if k == "exc":
                        if not isinstance(r, MutagenError):
                            import traceback
                            tb = traceback.extract_tb(r.__traceback__)
                            frames = [fr for fr in tb if "/mutagen/" in fr.filename]
                            site = frames[-1] if frames else None
                            if site is not None and (site.name == "<lambda>" or site.name.startswith("_") and site.filename.endswith("_util.py")) and len(frames) > 1:
                                site = frames[-2]
                            where = "%s:%s" % (site.filename.split("/mutagen/")[-1], site.name) if site else "?"
                            ctx.violation("escape:%s:%s" % (type(r).__name__, where),
                                          "%s escaped from %s %s (%s fault at call %d: %s): %s" % (
                                              type(r).__name__, fmt.kind, op, kind, i, case["call"], str(r)[:100]), case)
                        continue
                    # returned normally: the state must be complete
                    if op == "load":
                        continue
                    k2, o2 = timed(lambda: fmt.cls(F.NamedBytesIO(after, "x" + fmt.exts[0])), 30)
                    if k2 != "ok":
                        ctx.violation("undetected:%s:%s" % (kind, f.fault_site),
                                      "the call returned normally but the file no longer loads: %r" % (o2,), case)
                        continue
                    snap = F.snapshot(fmt, o2)
                    want_snap = expect2 if op.startswith("save") else None
                    if snap != want_snap:
                        ctx.violation("undetected:%s:%s" % (kind, f.fault_site),
                                      "the call returned normally but a reload does not give the saved state", case)
                    elif kind == "short" and after != ref_bytes and op != "load":
                        w1 = walkers.walk(fmt.kind, after); w2 = walkers.walk(fmt.kind, ref_bytes)
                        if [(l, b) for l, b in w1.foreign] != [(l, b) for l, b in w2.foreign]:
                            ctx.violation("undetected:short:%s" % (f.fault_site,),
                                          "the call returned normally after a short read but audio/foreign data differ from the clean run", case)
                    if fmt.kind == "FLAC" and op.startswith("save") and kind == "io" and not data.startswith(b"ID3"):
                        flac_jobs.append((case, data, i, ref_log, k, after, go2))


    # the container models as programs over the file object (Model/Container/<X>M.lean, Props/C19_<X>.lean, Props/C06_<X>.lean):
    # the real code on fobj.FaultFile vs the model under the same capacity / fault schedule - outcome class, bytes left, call log
    import importlib
    for name in ("asf_tie", "iff_tie", "dsf_tie", "ogginject_tie"):
        importlib.import_module(name).run_faults(ctx)
    importlib.import_module("mp4file_tie").run_faults(ctx, want=("io", "short"))
    importlib.import_module("id3file_tie").run_faults(ctx, want=("io", "short"))
    importlib.import_module("apefile_tie").run_faults(ctx, want=("io", "short"))
    # load as a program over the file object (Props/C06_<X>Load.lean): the real constructor on FaultFile vs the model
    for name in ("asf_tie", "dsf_tie", "iff_tie", "ogginject_tie", "mp4file_tie", "id3file_tie", "apefile_tie", "flacload_tie"):
        importlib.import_module(name).run_load_faults(ctx)
    # FLAC.save with its real reads (Props/C06_FlacSave.lean)
    importlib.import_module("flacload_tie").run_save_faults(ctx)
    # MP4Tags.save with its real reads: an IOError at every file-object call incl. the parse, short reads at every read
    importlib.import_module("mp4file_tie").run_full_faults(ctx)

def search(ctx):
    old = ctx.tier; ctx.tier = "thorough"
    try:
        run(ctx)
    finally:
        ctx.tier = old
