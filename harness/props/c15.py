"""C15 — Ogg paging: packets in, same packets out, valid pages (mutagen/ogg.py)."""
import io, struct
from vcheck import hx, unhx, parse_fields
from guards import timed

RULE = ("packet lists with counts 0..300 and sizes on the lattice {0,1,254,255,256,k*255+-1,4080,4096,2047,2048,65025,65536} "
        "x default_size/wiggle_room variations through OggPage.from_packets / to_packets / write / OggPage(fileobj); CRC of every page of "
        "every Ogg file in tests/data against an independent RFC 3533 CRC; OggPage.replace on synthetic multiplexed streams with "
        "fewer/equal/more new pages. Non-trivial: at least one page produced; distinct by (packet lengths, parameters)")

LATTICE = [0, 1, 2, 254, 255, 256, 509, 510, 511, 2047, 2048, 2049, 4079, 4080, 4081, 4096, 8160, 65024, 65025, 65026, 65536]


def rfc_crc(data):
    """RFC 3533: polynomial 0x04c11db7, init 0, no reflection, no final xor"""
    crc = 0
    for b in data:
        crc ^= b << 24
        for _ in range(8):
            crc = ((crc << 1) ^ 0x04C11DB7) & 0xFFFFFFFF if crc & 0x80000000 else (crc << 1) & 0xFFFFFFFF
    return crc


_TABLE = None


def rfc_crc_fast(data):
    global _TABLE
    if _TABLE is None:
        _TABLE = []
        for i in range(256):
            r = i << 24
            for _ in range(8):
                r = ((r << 1) ^ 0x04C11DB7) & 0xFFFFFFFF if r & 0x80000000 else (r << 1) & 0xFFFFFFFF
            _TABLE.append(r)
    crc = 0
    for b in data:
        crc = ((crc << 8) & 0xFFFFFFFF) ^ _TABLE[((crc >> 24) ^ b) & 0xFF]
    return crc


def packet(i, n):
    return bytes((i * 7 + j) % 251 for j in range(n))


def desc(p):
    return "c%dk%df%dl%ds%dr%dp%dn%s" % (p.complete, p.continued, p.first, p.last, p.sequence, p.serial, p.position,
                                          ".".join(str(len(x)) for x in p.packets))


def walk_pages(data):
    """independent page walker (RFC 3533 §6): [(offset, header fields, lacing, body)]"""
    out = []
    o = 0
    while o < len(data):
        if data[o:o + 4] != b"OggS" or o + 27 > len(data):
            raise ValueError("bad capture pattern at %d" % o)
        ver, flags, pos, serial, seq, crc, nseg = struct.unpack("<BBqIIIB", data[o + 4:o + 27])
        lac = data[o + 27:o + 27 + nseg]
        n = sum(lac)
        end = o + 27 + nseg + n
        if len(lac) != nseg or end > len(data):
            raise ValueError("truncated page at %d" % o)
        page = data[o:end]
        zero = page[:22] + b"\0\0\0\0" + page[26:]
        out.append(dict(offset=o, flags=flags, pos=pos, serial=serial, seq=seq, crc=crc, crc_ok=(rfc_crc_fast(zero) == crc),
                        lacing=list(lac), body=page[27 + nseg:], raw=page))
        o = end
    return out


def packets_of(pages, serial):
    """reassemble the packets of one logical stream from walked pages; incomplete tail kept"""
    pk = []; cur = None
    for p in pages:
        if p["serial"] != serial:
            continue
        body = p["body"]; o = 0; acc = 0
        cont = bool(p["flags"] & 1)
        first_seg = True
        for v in p["lacing"]:
            acc += v
            if v < 255:
                chunk = body[o:o + acc]; o += acc; acc = 0
                if first_seg and cont and cur is not None:
                    cur += chunk
                else:
                    if cur is not None:
                        pk.append(cur)  # should not happen in valid streams
                    cur = chunk
                pk.append(cur); cur = None
                first_seg = False
        if acc:
            chunk = body[o:o + acc]
            if first_seg and cont and cur is not None:
                cur += chunk
            else:
                cur = chunk
    return pk, cur


def gen_lists(ctx):
    rng = ctx.rng
    lists = [[], [0], [0, 0], [1], [255], [254, 255, 256], [4080], [4096], [65025], [65536],
             [1] * 253 + [4080], [0] * 300, [1] * 300, [255] * 254 + [1], [255] * 255 + [7],
             [254] * 255 + [254], [3] * 254 + [0], [3] * 255 + [0, 0, 5], [510] * 128,
             [4080, 4080], [4079, 1, 4081], [2047, 2048, 2049], [8160, 3], [65025, 65025]]
    for _ in range(ctx.budget(120, 1200)):
        n = rng.choice([1, 2, 3, 5, 17, 100, 255, 256, 300])
        budget = 300000
        l = []
        for _ in range(n):
            if rng.random() < (0.8 if n > 20 else 0.3):
                v = rng.choice([0, 1, 2, 254, 255, 256, rng.randrange(0, 600)])
            else:
                v = rng.choice(LATTICE + [rng.randrange(0, 70000)])
            v = min(v, budget); budget -= v
            l.append(v)
        lists.append(l)
    params = [(4096, 2048)]
    cases = [(l, 0, 4096, 2048) for l in lists]
    extra = [(255, 0), (255, 2048), (256, 0), (1000, 100), (4096, 0), (8192, 4096), (65024, 2048), (65024, 70000), (510, 255)]
    for i, l in enumerate(lists):
        if i % ctx.budget(4, 1) == 0:
            D, W = extra[i % len(extra)]
            cases.append((l, rng.choice([0, 1, 7, 2 ** 31]), D, W))
    return cases


def check_from_packets(ctx):
    from mutagen.ogg import OggPage
    cases = gen_lists(ctx)
    model = None
    if ctx.model_ok():
        model = ctx.driver.ask(["ogg op=frompackets pl=%s seq=%d D=%d W=%d" % (",".join(map(str, l)) or "-", seq, D, W)
                                for l, seq, D, W in cases])
    render_lines = []; render_expect = []
    for i, (lens, seq, D, W) in enumerate(cases):
        packets = [packet(j, n) for j, n in enumerate(lens)]
        kind, pages = timed(lambda: OggPage.from_packets(packets, seq, D, W), 20)
        case = {"fn": "from_packets", "lens": lens if len(lens) < 40 else "%d packets, sum %d: %r..." % (len(lens), sum(lens), lens[:12]),
                "lens_full": lens, "seq": seq, "default_size": D, "wiggle_room": W}
        ctx.case(key=(tuple(lens), seq, D, W), nontrivial=(kind == "ok" and len(pages) > 0),
                 sample={k: case[k] for k in ("fn", "lens", "seq", "default_size", "wiggle_room")} if i in (12, 30) else None)
        ctx.hist["from_packets:" + kind] += 1
        if kind != "ok":
            ctx.violation("from_packets:" + kind, "from_packets raised/hung: %r" % (pages,), case)
            continue
        ctx.hist["pages:%s" % ("0" if not pages else "1" if len(pages) == 1 else "2-9" if len(pages) < 10 else "10+")] += 1
        d = ";".join(desc(p) for p in pages) or "-"
        if model is not None:
            ctx.traces_validated += 1
            if model[i] != "ok pages=" + d:
                ctx.disagree("from_packets", case, model=model[i][:400], impl=d[:400])
        # oracle: reassembly
        try:
            back = OggPage.to_packets(pages)
            backs = OggPage.to_packets(pages, strict=True)
        except Exception as e:
            ctx.violation("to_packets:raises-" + type(e).__name__ + (":empty" if not pages else ""),
                          "to_packets(from_packets(p)) raised %s" % type(e).__name__, case)
            back = backs = None
        if back is not None and (back != packets or backs != packets):
            ctx.violation("roundtrip", "to_packets(from_packets(p)) != p", case)
        # oracle: every page renders, within limits, size, crc, parses back; flags consistent
        prev_complete = True
        raw = b""
        for k, p in enumerate(pages):
            if p.sequence != seq + k:
                ctx.violation("sequence", "page %d has sequence %d" % (k, p.sequence), case)
            if p.continued != (not prev_complete):
                ctx.violation("continuation", "continued flag inconsistent at page %d" % k, case)
            prev_complete = p.complete
            try:
                w = p.write()
            except Exception as e:
                ctx.violation("page-unrenderable", "page %d of from_packets cannot be rendered: %s (%d packets)" % (
                    k, type(e).__name__, len(p.packets)), case)
                break
            nseg = w[26]
            if len(w) != p.size:
                ctx.violation("size", "size != len(write())", case)
            zero = w[:22] + b"\0\0\0\0" + w[26:]
            if struct.unpack("<I", w[22:26])[0] != rfc_crc_fast(zero):
                ctx.violation("crc", "CRC of rendered page is not the RFC 3533 CRC", case)
            q = OggPage(io.BytesIO(w))
            if desc(q) != desc(p) or q.packets != p.packets:
                ctx.violation("parse-render", "page does not parse back to an equal page", case)
            if not p.complete and (len(p.packets[-1]) % 255 or not p.packets[-1]):
                ctx.violation("split-not-255", "packet split at a non-multiple of 255", case)
            raw += w
            if k < 3 and i % 7 == 0 and len(w) < 20000:
                render_lines.append("ogg op=render pk=%s complete=%d continued=%d first=%d last=%d seq=%d serial=%d position=%d" % (
                    ",".join(hx(x) for x in p.packets) or "_", p.complete, p.continued, p.first, p.last, p.sequence, p.serial, p.position))
                render_expect.append(w)
        else:
            if pages:
                # independent walker + reassembly
                try:
                    walked = walk_pages(raw)
                    pk, tail = packets_of(walked, 0)
                    if pk != packets or tail is not None or not all(x["crc_ok"] for x in walked):
                        ctx.violation("independent-walk", "independent RFC 3533 walker disagrees with the packets", case)
                except ValueError as e:
                    ctx.violation("independent-walk", "independent walker rejects the pages: %s" % e, case)
    if model is not None and render_lines:
        mo = ctx.driver.ask(render_lines)
        for line, w in zip(mo, render_expect):
            ctx.traces_validated += 1
            st, f = parse_fields(line)
            if st != "ok" or f.get("v") != hx(w) or int(f.get("size", -1)) != len(w):
                ctx.disagree("render", {"line": line[:200]}, model=line[:200], impl=hx(w)[:200])


def check_sample_crcs(ctx):
    import os
    d = os.path.join(ctx.repo, "tests", "data")
    n = 0
    lines = []; expect = []
    for fn in sorted(os.listdir(d)):
        if not fn.lower().endswith((".ogg", ".oga", ".ogv", ".opus", ".spx", ".oggflac", ".oggtheora")):
            continue
        data = open(os.path.join(d, fn), "rb").read()
        try:
            pages = walk_pages(data)
        except ValueError:
            continue
        for p in pages:
            n += 1
            ctx.case(key=("crc", fn, p["offset"]), nontrivial=True, modelled=True)
            if not p["crc_ok"]:
                ctx.notes.append("sample %s page at %d has a CRC the RFC implementation rejects" % (fn, p["offset"]))
            if len(p["raw"]) < 70000 and len(lines) < ctx.budget(60, 100000):
                zero = p["raw"][:22] + b"\0\0\0\0" + p["raw"][26:]
                lines.append("ogg op=crc data=" + hx(zero)); expect.append(p["crc"])
    ctx.hist["sample-pages"] = n
    if ctx.model_ok() and lines:
        for line, c in zip(ctx.driver.ask(lines), expect):
            ctx.traces_validated += 1
            if line != "ok v=%d" % c:
                ctx.disagree("crc(sample page)", {"expected": c}, model=line, impl=c)


def build_stream(ctx, spec):
    """spec: list of (serial, [packet lengths]) logical streams; pages interleaved round-robin.
    returns bytes"""
    from mutagen.ogg import OggPage
    per = []
    for si, (serial, lens) in enumerate(spec):
        pages = OggPage.from_packets([packet(si * 31 + j, n) for j, n in enumerate(lens)], 0, 4096, 2048)
        for p in pages:
            p.serial = serial
        pages[0].first = True
        pages[-1].last = True
        per.append(pages)
    out = b""
    idx = [0] * len(per)
    while any(idx[i] < len(per[i]) for i in range(len(per))):
        for i in range(len(per)):
            if idx[i] < len(per[i]):
                out += per[i][idx[i]].write(); idx[i] += 1
    return out


def check_replace(ctx):
    from mutagen.ogg import OggPage
    rng = ctx.rng
    specs = []
    for _ in range(ctx.budget(40, 400)):
        nstreams = rng.choice([1, 2, 3])
        spec = []
        for s in range(nstreams):
            # packet 1 is the one replaced
            lens = [rng.choice([30, 58, 300]), rng.choice([10, 200, 4000, 9000, 20000])] + \
                   [rng.choice([0, 1, 255, 3000, 5000]) for _ in range(rng.randrange(0, 5))]
            spec.append((1000 + s * 17, lens))
        newlen = rng.choice([0, 5, 200, 4000, 4080, 9000, 20000, 40000])
        which = rng.randrange(nstreams)
        # which packet is replaced (packet 1 mostly, later ones so that the run starts later in the stream) and
        # how the caller numbered the new pages (replace() copies serial and sequence numbers over)
        t = 1 if rng.random() < 0.4 else rng.randrange(len(spec[which][1]))
        mode = rng.choice(["preserve", "preserve", "seq0", "seqN"])
        specs.append((spec, which, newlen, t, mode))
    for i, (spec, which, newlen, t, mode) in enumerate(specs):
        data = build_stream(ctx, spec)
        serial = spec[which][0]
        before = walk_pages(data)
        f = io.BytesIO(data)
        # find the pages of `serial` holding packet index 1 (as mutagen's OggFileType does)
        pages = []
        f.seek(0)
        allp = []
        while True:
            try:
                p = OggPage(f)
            except EOFError:
                break
            allp.append(p)
        mine = [p for p in allp if p.serial == serial]
        # pages that hold any byte of packet #1
        completed = 0; old = []; k = None
        for p in mine:
            if p.packets and completed <= t <= completed + len(p.packets) - 1:
                if not old:
                    k = t - completed
                old.append(p)
            completed += len(p.packets) - (0 if p.complete else 1)
        if not old:
            continue
        old_packets = OggPage.to_packets(old)
        new_packets = list(old_packets)
        new_packets[k] = packet(99, newlen)
        if mode == "preserve":
            new_pages = OggPage._from_packets_try_preserve(new_packets, old)
        elif mode == "seq0":
            new_pages = OggPage.from_packets(new_packets)
        else:
            new_pages = OggPage.from_packets(new_packets, rng.choice([1, 7, 1000]))
        case = {"fn": "replace", "spec": spec, "serial": serial, "newlen": newlen, "packet": t, "new_pages_from": mode,
                "old_pages": len(old), "new_pages": len(new_pages)}
        rel = "fewer" if len(new_pages) < len(old) else "equal" if len(new_pages) == len(old) else "more"
        ctx.hist["replace:" + rel] += 1
        ctx.hist["replace:%s:%s:first-old-seq-%s" % (mode, rel, "0" if old[0].sequence == 0 else ">0")] += 1
        ctx.case(key=("replace", repr(spec), which, newlen, t, mode), nontrivial=True, modelled=False,
                 sample=case if i == 3 else None)
        kind, err = timed(lambda: OggPage.replace(f, old, new_pages), 20)
        if kind != "ok":
            ctx.violation("replace:" + kind, "replace raised %r" % (err,), case)
            continue
        after_raw = f.getvalue()
        try:
            after = walk_pages(after_raw)
        except ValueError as e:
            ctx.violation("replace:invalid-stream", "file is not a page sequence after replace: %s" % e, case)
            continue
        # other streams untouched and in order
        o_b = [p["raw"] for p in before if p["serial"] != serial]
        o_a = [p["raw"] for p in after if p["serial"] != serial]
        if o_b != o_a:
            ctx.violation("replace:foreign-stream-changed", "pages of other streams changed", case)
        m_a = [p for p in after if p["serial"] == serial]
        m_b = [p for p in before if p["serial"] == serial]
        if [p["seq"] for p in m_a] != list(range(m_b[0]["seq"], m_b[0]["seq"] + len(m_a))):
            ctx.violation("replace:sequence-gap", "sequence numbers not gapless after replace", case)
        if not all(p["crc_ok"] for p in after):
            ctx.violation("replace:crc", "bad CRC after replace", case)
        if bool(m_a[0]["flags"] & 2) != bool(m_b[0]["flags"] & 2) or bool(m_a[-1]["flags"] & 4) != bool(m_b[-1]["flags"] & 4):
            ctx.violation("replace:first-last-flags", "first/last flags moved", case)
        if sum(1 for p in m_a if p["flags"] & 2) != 1 or sum(1 for p in m_a if p["flags"] & 4) != 1:
            ctx.violation("replace:first-last-flags", "first/last flags duplicated or lost", case)
        pk_b, tb = packets_of(before, serial)
        pk_a, ta = packets_of(after, serial)
        exp = list(pk_b); exp[t] = packet(99, newlen)
        if pk_a != exp or ta is not None:
            ctx.violation("replace:packets", "packets of the edited stream are not the old ones with packet %d replaced" % t, case)


def check_try_preserve(ctx):
    """_from_packets_try_preserve(packets, old_pages): the result reassembles to exactly `packets` and is numbered from
    old_pages[0].sequence, whatever the relation of the new packet sizes to the old ones (same sizes: layout copied;
    same count and total but different sizes; different count)"""
    from mutagen.ogg import OggPage
    rng = ctx.rng
    for i in range(ctx.budget(60, 600)):
        n = rng.randrange(1, 6)
        lens = [rng.choice([0, 1, 100, 200, 254, 255, 256, 510, 3000, 4080, 5000, 9000]) for _ in range(n)]
        seq = rng.choice([0, 3, 70000])
        old = OggPage.from_packets([packet(j, x) for j, x in enumerate(lens)], seq, rng.choice([255, 1024, 4096]), rng.choice([0, 2048]))
        if not old:
            continue
        rel = rng.choice(["same", "permuted", "shift-byte", "other-count", "other-total"])
        new = list(lens)
        if rel == "permuted":
            rng.shuffle(new)
        elif rel == "shift-byte" and n > 1:
            a, b = rng.sample(range(n), 2)
            if new[a] > 0:
                d = rng.choice([1, 1, new[a]]); new[a] -= d; new[b] += d
        elif rel == "other-count":
            new = new + [rng.choice([0, 5, 300])] if rng.random() < 0.5 or n == 1 else new[:-1]
        elif rel == "other-total":
            new[rng.randrange(n)] += rng.choice([1, 255, 4000])
        new_packets = [packet(50 + j, x) for j, x in enumerate(new)]
        case = {"fn": "_from_packets_try_preserve", "old_lens": lens, "new_lens": new, "seq": seq, "relation": rel}
        ctx.hist["try_preserve:" + ("same-sizes" if new == lens else "same-count-and-total" if (len(new), sum(new)) == (len(lens), sum(lens)) else "different")] += 1
        ctx.case(key=("try_preserve", tuple(lens), tuple(new), seq), nontrivial=True, modelled=False, sample=case if i == 5 else None)
        kind, pages = timed(lambda: OggPage._from_packets_try_preserve(new_packets, old), 20)
        if kind != "ok":
            ctx.violation("try_preserve:" + kind, "_from_packets_try_preserve raised/hung: %r" % (pages,), case)
            continue
        try:
            back = OggPage.to_packets(pages, strict=True) if pages else []
        except Exception as e:
            ctx.violation("try_preserve:to_packets-raises", "to_packets of the result raised %s: %s" % (type(e).__name__, e), case)
            continue
        if back != new_packets:
            ctx.violation("try_preserve:roundtrip", "to_packets(_from_packets_try_preserve(p, old)) != p (sizes %r instead of %r)" % (
                [len(x) for x in back][:8], new[:8]), case)
        if [p.sequence for p in pages] != list(range(seq, seq + len(pages))):
            ctx.violation("try_preserve:sequence", "result is not numbered from old_pages[0].sequence", case)
        for pg in pages:
            try:
                w = pg.write()
            except Exception as e:
                ctx.violation("try_preserve:unrenderable", "a result page cannot be rendered: %s" % type(e).__name__, case)
                break
            if len(w) != pg.size or w[26] > 255:
                ctx.violation("try_preserve:size", "size != len(write())", case)


def check_to_packets_edge(ctx):
    from mutagen.ogg import OggPage
    kind, r = timed(lambda: OggPage.to_packets([]), 5)
    ctx.case(key="to_packets([])", nontrivial=True, sample={"fn": "to_packets", "pages": []})
    if kind != "ok" or r != []:
        ctx.violation("to_packets:raises-%s:empty" % (type(r).__name__ if kind == "exc" else kind),
                      "to_packets([]) does not return [] (from_packets([]) == [])", {"fn": "to_packets", "pages": []})
    # correspondence for parse + to_packets on damaged page runs
    rng = ctx.rng
    lines = []; datas = []
    for _ in range(ctx.budget(150, 1500)):
        lens = [rng.choice([0, 1, 255, 300, 4080, 5000]) for _ in range(rng.randrange(1, 6))]
        pages = OggPage.from_packets([packet(j, n) for j, n in enumerate(lens)], rng.choice([0, 5]), rng.choice([255, 1000, 4096]), rng.choice([0, 2048]))
        mode = rng.randrange(5)
        if mode == 1 and len(pages) > 1:
            pages.pop(rng.randrange(len(pages)))       # sequence gap / orphan continuation
        elif mode == 2:
            pages[rng.randrange(len(pages))].serial = 9
        elif mode == 3 and len(pages) > 1:
            pages = pages[1:]                           # may start continued
        elif mode == 4:
            pages = pages[:-1] or pages                 # may end incomplete
        data = b"".join(p.write() for p in pages)
        strict = rng.randrange(2)
        lines.append("ogg op=topackets data=%s strict=%d" % (hx(data), strict)); datas.append((data, strict))
    if ctx.model_ok():
        mo = ctx.driver.ask(lines)
        for line, (data, strict) in zip(mo, datas):
            f = io.BytesIO(data); pages = []
            while True:
                try:
                    pages.append(OggPage(f))
                except EOFError:
                    break
            try:
                pk = OggPage.to_packets(pages, strict=bool(strict))
                impl = "ok n=%d v=%s lens=%s" % (len(pk), hx(b"".join(pk)), ",".join(str(len(x)) for x in pk) or "-")
            except ValueError:
                impl = "err value"
            except IndexError:
                impl = "err index"
            ctx.case(key=("topackets", data, strict), nontrivial=True)
            ctx.hist["to_packets:" + impl[:9].strip()] += 1
            ctx.traces_validated += 1
            if line != impl:
                ctx.disagree("to_packets", {"data": hx(data)[:300], "strict": strict}, model=line[:300], impl=impl[:300])


def run(ctx):
    ctx.rule = RULE
    check_to_packets_edge(ctx)
    check_from_packets(ctx)
    check_sample_crcs(ctx)
    check_replace(ctx)
    check_try_preserve(ctx)
    # the API functions themselves against the Lean model (Props/C15_OggInject.lean)
    import ogginject_tie
    ogginject_tie.run_c15(ctx)


def search(ctx):
    old = ctx.tier; ctx.tier = "thorough"
    try:
        run(ctx)
    finally:
        ctx.tier = old
