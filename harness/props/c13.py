"""C13 — ID3 version conversion keeps the information and is valid."""
import io, itertools
from guards import timed
from vcheck import parse_fields
import id3spec

RULE = ("generated tags over the frames with version-specific forms (TDRC at every precision incl. midnight/full hours, TDOR, TYER/TDAT/TIME, "
        "TORY, TIPL/TMCL/IPLS, multi-valued and UTF-8 text, CHAP sub-frames) x source version {2.3, 2.4} x target {2.3, 2.4} x separators "
        "{'/', None, ';'} x v1 option {0, 1, 2}; the written bytes are walked by an independent ID3v2/ID3v1 decoder (harness/id3spec.py): "
        "version byte, plain vs syncsafe sizes, encodings, frame ids, the digits of TYER/TDAT/TIME/TORY, people lists, joined values, ID3v1 "
        "fields; reload with mutagen. The date logic is compared with the Lean model. Non-trivial: the tag holds at least one version-specific "
        "frame; distinct by (frames, versions, separator, v1)")

V24_ONLY = {"ASPI", "EQU2", "RVA2", "SEEK", "SIGN", "TDEN", "TDOR", "TDRC", "TDRL", "TDTG", "TIPL", "TMCL", "TMOO", "TPRO", "TSOA",
            "TSOP", "TSOT", "TSST"}


def stamps(ctx):
    out = ["2020", "0999", "2020-05", "2020-05-06", "2020-05-06 12", "2020-05-06 12:34", "2020-05-06 12:34:56",
           "2020-05-06 00:00", "2020-05-06 12:00", "2020-05-06 00:30", "2020-12-31 23:59:59", "1999-01-01 00:00:00",
           "2020-05-06T07:08", "9999-09-09 09:09"]
    rng = ctx.rng
    for _ in range(ctx.budget(30, 300)):
        y = rng.choice([1, 33, 1970, 2024, 9999, rng.randrange(1, 10000)])
        parts = ["%04d" % y]
        vals = [rng.choice([1, 12, rng.randrange(1, 13)]), rng.choice([1, 28, rng.randrange(1, 29)]),
                rng.choice([0, 23, rng.randrange(24)]), rng.choice([0, 59, rng.randrange(60)]), rng.choice([0, 59, rng.randrange(60)])]
        n = rng.randrange(0, 6)
        seps = ["-", "-", " ", ":", ":"]
        s = parts[0]
        for i in range(n):
            s += seps[i] + "%02d" % vals[i]
        out.append(s)
    return out


def parse_stamp(s):
    import re
    fields = re.split(r"[-T:/.]|\s+", s + ":::::")[:6]
    out = []
    for f in fields:
        try:
            out.append(int(f))
        except ValueError:
            out.append(None)
    return out


def run(ctx):
    from mutagen.id3 import ID3, TDRC, TDOR, TIT2, TPE1, TALB, COMM, TRCK, TCON, TIPL, TMCL, CHAP, CTOC, TXXX, TYER, TDAT, TIME, TORY, IPLS
    ctx.rule = RULE
    rng = ctx.rng
    lines = []; expects = []
    for i, st in enumerate(stamps(ctx)):
        y, mo, d, h, mi, s = parse_stamp(st)
        for sep, v1 in itertools.product(("/", None, ";"), (0, 2)):
            if ctx.quick and (i % 3) and (sep != "/" or v1 != 0):
                continue
            tag = ID3()
            tag.add(TDRC(encoding=3, text=[st]))
            tag.add(TDOR(encoding=3, text=["1984-03-02"]))
            tag.add(TIT2(encoding=3, text=["Title ä", "Second"]))
            tag.add(TPE1(encoding=3, text=["A", "B/C"]))
            tag.add(TALB(encoding=0, text=["Album"]))
            tag.add(COMM(encoding=3, lang="eng", desc="", text=["a comment"]))
            tag.add(TRCK(encoding=0, text=["7/9"]))
            tag.add(TCON(encoding=0, text=["Rock"]))
            tag.add(TIPL(encoding=3, people=[["producer", "P"]]))
            tag.add(TMCL(encoding=3, people=[["guitar", "G"]]))
            tag.add(CHAP(element_id="c1", start_time=0, end_time=1000, start_offset=0xFFFFFFFF, end_offset=0xFFFFFFFF,
                         sub_frames=[TIT2(encoding=3, text=["chap"]), TDRC(encoding=3, text=["2001"])]))
            f = io.BytesIO()
            case = {"tdrc": st, "sep": sep, "v1": v1, "target": 3}
            def save23():
                tag.update_to_v23()
                tag.save(f, v2_version=3, v23_sep=sep, v1=v1)
            k, r = timed(save23, 10)
            ctx.case(key=("to23", st, sep, v1), nontrivial=True, modelled=True, sample=case if i in (5, 7) and sep == "/" and v1 == 0 else None)
            ctx.hist["target:2.3"] += 1
            if k != "ok":
                ctx.violation("v23:save-fails:%s" % (type(r).__name__ if k == "exc" else k), "saving as v2.3 failed: %r" % (r,), case); continue
            data = f.getvalue()
            t = id3spec.walk_tag(data)
            if t.errors:
                ctx.violation("v23:invalid:" + t.errors[0].split(":")[0][:30], "v2.3 tag invalid: %s" % t.errors[:2], case)
            if t.version is None or t.version[0] != 3:
                ctx.violation("v23:version-byte", "tag saved with v2_version=3 declares %r" % (t.version,), case)
            got = {}
            for fid, fl, body in t.frames:
                if fid in V24_ONLY:
                    ctx.violation("v23:v24-frame:" + fid, "v2.4-only frame %s in a v2.3 tag" % fid, case)
                dec = id3spec.decode_frame(fid, body)
                if dec and "encoding" in dec and dec["encoding"] not in (0, 1):
                    ctx.violation("v23:encoding", "frame %s uses encoding %d in a v2.3 tag" % (fid, dec["encoding"]), case)
                if dec is not None and fid != "CHAP":
                    got.setdefault(fid, dec)
            # the date in the frames defined for it
            exp_tyer = "%04d" % y if y else None
            exp_tdat = "%02d%02d" % (d, mo) if (mo and d) else None
            exp_time = "%02d%02d" % (h, mi) if (h is not None and mi is not None) else None
            for fid, exp in (("TYER", exp_tyer), ("TDAT", exp_tdat), ("TIME", exp_time)):
                have = got.get(fid, {}).get("text", [None])[0] if fid in got else None
                if have != exp:
                    ctx.violation("v23:date:%s" % fid, "TDRC %r: %s is %r, expected %r" % (st, fid, have, exp), case)
            if got.get("TORY", {}).get("text") != ["1984"]:
                ctx.violation("v23:TORY", "TDOR 1984-03-02 -> TORY %r" % (got.get("TORY"),), case)
            if got.get("IPLS", {}).get("people") != [["producer", "P"], ["guitar", "G"]]:
                ctx.violation("v23:IPLS", "TIPL+TMCL -> IPLS %r" % (got.get("IPLS"),), case)
            exp_title = ["Title ä", "Second"] if sep is None else [(sep).join(["Title ä", "Second"])]
            if got.get("TIT2", {}).get("text") != exp_title:
                ctx.violation("v23:multivalue", "multi-valued TIT2 with separator %r written as %r" % (sep, got.get("TIT2")), case)
            # ID3v1
            v1b = id3spec.decode_id3v1(data[-128:]) if len(data) >= 128 else None
            if v1 == 2:
                expv1 = {"title": exp_title[0][:30] if sep is not None else "Title ä", "artist": None, "album": "Album",
                         "year": ("%04d" % y)[:4] if y else "", "comment": "a comment", "track": 7, "genre": 17}
                if v1b is None:
                    ctx.violation("v1:missing", "v1=2 but no ID3v1 block written", case)
                else:
                    for key in ("album", "year", "comment", "track", "genre"):
                        if v1b[key] != expv1[key]:
                            ctx.violation("v1:" + key, "ID3v1 %s is %r, expected %r" % (key, v1b[key], expv1[key]), case)
                    if not v1b["title"].startswith("Title ä"[:30]):
                        ctx.violation("v1:title", "ID3v1 title is %r" % (v1b["title"],), case)
            elif v1b is not None:
                ctx.violation("v1:unwanted", "v1=0 but an ID3v1 block is present", case)
            # reload as v2.3 and convert back: information preserved
            def back():
                f.seek(0)
                return ID3(f)     # translate=True: update_to_v24
            k2, t2 = timed(back, 10)
            if k2 != "ok":
                ctx.violation("v23:reload-fails", "v2.3 tag does not reload: %r" % (t2,), case); continue
            if y:
                exp_back = "%04d" % y
                if mo and d:
                    exp_back += "-%02d-%02d" % (mo, d)
                    if h is not None and mi is not None:
                        exp_back += " %02d:%02d:00" % (h, mi)
                have = [str(x) for x in t2["TDRC"].text] if "TDRC" in t2 else None
                if have != [exp_back]:
                    ctx.violation("roundtrip:TDRC", "TDRC %r came back as %r, expected %r" % (st, have, [exp_back]), case)
            # save again as v2.4: syncsafe sizes, version 4
            g = io.BytesIO()
            k3, r3 = timed(lambda: t2.save(g, v2_version=4, v1=0), 10)
            ctx.case(key=("to24", st, sep), nontrivial=True, modelled=False)
            ctx.hist["target:2.4"] += 1
            if k3 == "ok":
                t4 = id3spec.walk_tag(g.getvalue())
                if t4.errors or t4.version[0] != 4:
                    ctx.violation("v24:invalid", "v2.4 tag invalid: %s version %r" % (t4.errors[:2], t4.version), case)
            else:
                ctx.violation("v24:save-fails", "saving as v2.4 failed: %r" % (r3,), case)
            # Lean model of the date logic
            q = "id3date op=to23" + "".join(" %s=%d" % (n, v) for n, v in zip(("y", "mo", "d", "h", "mi", "s"), (y, mo, d, h, mi, s)) if v is not None)
            lines.append(q)
            tag2 = ID3(); tag2.add(TDRC(encoding=0, text=[st])); tag2.update_to_v23()
            def txt(fid):
                return str(tag2[fid].text[0]) if fid in tag2 else "-"
            expects.append(("ok tyer=%s tdat=%s time=%s" % (txt("TYER"), txt("TDAT"), txt("TIME")), case))
    if ctx.model_ok():
        for line, (exp, case) in zip(ctx.driver.ask(lines), expects):
            ctx.traces_validated += 1
            if line != exp:
                ctx.disagree("update_to_v23 date", case, model=line, impl=exp)
    check_v1_fields(ctx)
    check_sources(ctx)
    check_source_frames(ctx)
    check_source_people(ctx)



    # the ID3v1 codec and update_to_v23 / update_to_v24 at the frame level against Model/Id3v1.lean, Model/Id3Convert.lean
    import id3convert_tie
    id3convert_tie.run(ctx)

def check_sources(ctx):
    """hand-built v2.2 / v2.3 source tags (dates in TYE/TDA/TIM resp. TYER/TDAT/TIME, numeric frames), with and without a
    trailing ID3v1 block that carries a year: loaded with the defaults (translate to v2.4, ID3v1 merged) the recording
    date keeps everything the source had; saved as v2.4 the tag is valid and reloads the same.  And numeric text frames
    with several values saved as v2.3 are joined by the separator like every other text frame."""
    from mutagen.id3 import ID3, TBPM, TRCK, TPOS, TLEN, TYER, TIT2
    rng = ctx.rng

    def syncsafe(n):
        return bytes([(n >> 21) & 0x7F, (n >> 14) & 0x7F, (n >> 7) & 0x7F, n & 0x7F])

    def v1block(year):
        return b"TAG" + b"t".ljust(30, b"\0") + b"a".ljust(30, b"\0") + b"l".ljust(30, b"\0") + year.encode("ascii").ljust(4, b"\0")[:4] + \
            b"c".ljust(29, b"\0") + b"\x01\x0c"
    for ver in (2, 3):
        for has_v1 in (False, True):
            for (y, dm, hm) in (("2004", "0312", "1030"), ("1999", "3112", None), ("2010", None, None), ("2004", "0101", "0000")):
                frames = b""
                def fr(fid3, fid4, body):
                    if ver == 2:
                        return fid3 + len(body).to_bytes(3, "big") + body
                    return fid4 + len(body).to_bytes(4, "big") + b"\0\0" + body
                frames += fr(b"TT2", b"TIT2", b"\x00title")
                frames += fr(b"TYE", b"TYER", b"\x00" + y.encode())
                if dm:
                    frames += fr(b"TDA", b"TDAT", b"\x00" + dm.encode())
                if hm:
                    frames += fr(b"TIM", b"TIME", b"\x00" + hm.encode())
                data = b"ID3" + bytes([ver, 0, 0]) + syncsafe(len(frames)) + frames + b"\xff\xfb\x90\x00" + b"\0" * 600 + \
                    (v1block(rng.choice([y, "1980"])) if has_v1 else b"")
                exp = y
                if dm:
                    exp += "-%s-%s" % (dm[2:], dm[:2])
                    if hm:
                        exp += " %s:%s:00" % (hm[:2], hm[2:])
                case = {"sub": "source", "version": ver, "v1": has_v1, "year": y, "date": dm, "time": hm}
                k, t = timed(lambda: ID3(io.BytesIO(data)), 10)
                ctx.case(key=("source", ver, has_v1, y, dm, hm), nontrivial=True, modelled=False, sample=None)
                ctx.hist["source:v2.%d%s" % (ver, "+v1" if has_v1 else "")] += 1
                if k != "ok":
                    ctx.violation("source:load-fails", repr(t)[:100], case); continue
                have = [str(x) for x in t["TDRC"].text] if "TDRC" in t else None
                if have != [exp]:
                    ctx.violation("source:v2.%d:TDRC" % ver, "a v2.%d tag with year %s date %s time %s%s loads as TDRC %r, expected %r"
                                  % (ver, y, dm, hm, " and an ID3v1 block" if has_v1 else "", have, [exp]), case)
                g = io.BytesIO(data)
                k2, r2 = timed(lambda: t.save(g, v2_version=4, v1=1), 10)
                if k2 != "ok":
                    ctx.violation("source:save-fails", repr(r2)[:100], case); continue
                w = id3spec.walk_tag(g.getvalue())
                if w.errors or w.version[0] != 4:
                    ctx.violation("v24:invalid", "v2.4 tag invalid: %s version %r" % (w.errors[:2], w.version), case)
                tdrc = [id3spec.decode_frame(fid, body) for fid, fl, body in w.frames if fid == "TDRC"]
                if not tdrc or tdrc[0].get("text") != [exp.replace(" ", "T")] and tdrc[0].get("text") != [exp]:
                    ctx.violation("source:v2.%d:saved-TDRC" % ver, "saved v2.4 TDRC is %r, expected %r" % (tdrc[:1], exp), case)
    # multi-valued numeric text frames in v2.3
    for cls, vals in ((TBPM, ["120", "140"]), (TRCK, ["1/9", "2/9"]), (TPOS, ["1", "2"]), (TLEN, ["1000", "2000"]), (TIT2, ["a", "b"])):
        for sep in ("/", "; ", None):
            tag = ID3(); tag.add(cls(encoding=3, text=list(vals)))
            f = io.BytesIO()
            case = {"sub": "numeric-multi", "frame": cls.__name__, "sep": sep}
            def save():
                tag.update_to_v23(); tag.save(f, v2_version=3, v23_sep=sep)
            k, r = timed(save, 10)
            ctx.case(key=("numeric-multi", cls.__name__, sep), nontrivial=True, modelled=False, sample=None)
            if k != "ok":
                ctx.violation("v23:save-fails:%s" % (type(r).__name__ if k == "exc" else k), repr(r)[:100], case); continue
            w = id3spec.walk_tag(f.getvalue())
            got = [id3spec.decode_frame(fid, body) for fid, fl, body in w.frames if fid == cls.__name__]
            exp = [sep.join(vals)] if sep is not None else list(vals)
            if not got or got[0].get("text") != exp:
                ctx.violation("v23:multivalue:%s" % cls.__name__, "multi-valued %s with separator %r written as %r, expected %r"
                              % (cls.__name__, sep, got[:1], exp), case)


def check_source_frames(ctx):
    """byte-level source tags of every version whose text fields come in every encoding the version allows, with several
    values and - as taggers that append instead of replace leave them - as repeated frames of one kind (the loader merges
    those into one multi-valued frame): saved as v2.4 and as v2.3 the tag must be written (no encoding error) and carry
    every value of the source, in order, in an encoding that can hold them"""
    from mutagen.id3 import ID3
    rng = ctx.rng

    def syncsafe(n):
        return bytes([(n >> 21) & 0x7F, (n >> 14) & 0x7F, (n >> 7) & 0x7F, n & 0x7F])

    def enc_values(enc, values):
        if enc == 0:
            return b"\x00" + b"\x00".join(v.encode("latin-1") for v in values)
        if enc == 1:
            return b"\x01" + b"\x00\x00".join(b"\xff\xfe" + v.encode("utf-16-le") for v in values)
        if enc == 2:
            return b"\x02" + b"\x00\x00".join(v.encode("utf-16-be") for v in values)
        return b"\x03" + b"\x00".join(v.encode("utf-8") for v in values)
    LATIN = ["plain", "Mot\u00f6rhead", "x/y", "caf\u00e9 1"]
    WIDE = ["\u0395\u03bb\u03bb\u03b7\u03bd\u03b9\u03ba\u03ac", "\u65e5\u672c\u8a9e", "\u0416\u0443\u043a", "na\u00efve \u2014 dash"]
    IDS = [("TT2", "TIT2"), ("TP1", "TPE1"), ("TAL", "TALB"), ("TCM", "TCOM"), ("TT1", "TIT1"), ("TXT", "TEXT")]
    n = ctx.budget(160, 1500)
    for i in range(n):
        ver = (2, 3, 4)[i % 3]
        encs = (0, 1) if ver < 4 else (0, 1, 2, 3)
        fid3, fid4 = IDS[(i // 3) % len(IDS)]
        nframes = rng.choice([1, 2, 2, 3])
        parts = []; expected = []
        for j in range(nframes):
            enc = rng.choice(encs)
            pool = LATIN if enc == 0 else (WIDE + LATIN if rng.random() < 0.7 else LATIN)
            vals = rng.sample(pool, rng.choice([1, 1, 2]))
            parts.append((enc, vals))
            for v in vals:
                if v not in expected:
                    expected.append(v)
        frames = b""
        for enc, vals in parts:
            body = enc_values(enc, vals)
            if ver == 2:
                frames += fid3.encode() + len(body).to_bytes(3, "big") + body
            elif ver == 3:
                frames += fid4.encode() + len(body).to_bytes(4, "big") + b"\0\0" + body
            else:
                frames += fid4.encode() + syncsafe(len(body)) + b"\0\0" + body
        data = b"ID3" + bytes([ver, 0, 0]) + syncsafe(len(frames) + 20) + frames + b"\0" * 20 + b"\xff\xfb\x90\x00" + b"\0" * 400
        case = {"sub": "source-frames", "version": ver, "frame": fid4, "parts": [[e, v] for e, v in parts], "data_hex": data[:len(frames) + 30].hex()}
        shape = "%d-frame%s:%s" % (nframes, "s" if nframes > 1 else "", "mixed-encodings" if len({e for e, _ in parts}) > 1 else "one-encoding")
        ctx.hist["source-frames:v2.%d:%s" % (ver, shape)] += 1
        ctx.case(key=("source-frames", ver, fid4, repr(parts)), nontrivial=True, modelled=False, sample=case if i == 7 else None)
        k, t = timed(lambda: ID3(io.BytesIO(data)), 10)
        if k != "ok":
            ctx.violation("source-frames:load-fails", repr(t)[:100], case); continue
        have = [str(x) for x in t[fid4].text] if fid4 in t else None
        if have != expected:
            ctx.violation("source-frames:v2.%d:load" % ver, "the %s values %r of the source load as %r" % (fid4, expected, have), case); continue
        for target, sep in ((4, None), (3, "/"), (3, None)):
            k, t = timed(lambda: ID3(io.BytesIO(data)), 10)
            g = io.BytesIO(data)

            def save():
                if target == 3:
                    t.update_to_v23()
                t.save(g, v2_version=target, v23_sep=sep)
            k2, r2 = timed(save, 10)
            c2 = dict(case, target=target, sep=sep)
            if k2 != "ok":
                ctx.violation("source-frames:save-fails:v2.%d" % target, "saving the loaded tag as v2.%d raised %r" % (target, r2), c2); continue
            w = id3spec.walk_tag(g.getvalue())
            if w.errors or w.version[0] != target:
                ctx.violation("source-frames:v2.%d:invalid" % target, "written tag invalid: %s version %r" % (w.errors[:2], w.version), c2); continue
            got = [id3spec.decode_frame(fid, body) for fid, fl, body in w.frames if fid == fid4]
            exp = [sep.join(expected)] if (target == 3 and sep is not None) else list(expected)
            if len(got) != 1 or got[0].get("text") != exp:
                ctx.violation("source-frames:v2.%d:values" % target, "the %s values %r of the v2.%d source are written as %r in the v2.%d tag "
                              "(separator %r)" % (fid4, expected, ver, [x.get("text") for x in got], target, sep), c2)
            elif target == 3 and got[0].get("encoding") not in (0, 1):
                ctx.violation("source-frames:v2.3:encoding", "v2.3 text frame written with encoding %r" % got[0].get("encoding"), c2)


def check_source_people(ctx):
    """byte-level source tags with an involved-people list (IPL in v2.2, IPLS in v2.3, TIPL/TMCL in v2.4) in every encoding
    the version allows, with names inside and outside Latin-1: loaded (translated to v2.4) the pairs are all there; saved
    as v2.4 and as v2.3 the tag is written and carries the same pairs in the frame of that version"""
    from mutagen.id3 import ID3
    rng = ctx.rng

    def syncsafe(n):
        return bytes([(n >> 21) & 0x7F, (n >> 14) & 0x7F, (n >> 7) & 0x7F, n & 0x7F])

    def enc_list(enc, values):
        if enc == 0:
            return b"\x00" + b"".join(v.encode("latin-1") + b"\x00" for v in values)
        if enc == 1:
            return b"\x01" + b"".join(b"\xff\xfe" + v.encode("utf-16-le") + b"\x00\x00" for v in values)
        if enc == 2:
            return b"\x02" + b"".join(v.encode("utf-16-be") + b"\x00\x00" for v in values)
        return b"\x03" + b"".join(v.encode("utf-8") + b"\x00" for v in values)
    ROLES = ["producer", "engineer", "mix", "arranger", "guitar"]
    LATIN = ["Ann Lee", "J\u00f6rg M\u00fcller", "x/y"]
    WIDE = ["\u0141ukasz", "\u0414\u043c\u0438\u0442\u0440\u0438\u0439", "\u5c0f\u6797"]
    for i in range(ctx.budget(60, 600)):
        ver = (2, 3, 4)[i % 3]
        enc = rng.choice((0, 1) if ver < 4 else (0, 1, 2, 3))
        n = rng.choice([1, 2, 3])
        names = rng.sample(LATIN if enc == 0 else (WIDE + LATIN), n)
        if enc != 0 and i % 2 == 0:
            names[0] = rng.choice(WIDE)
        pairs = [[rng.choice(ROLES), nm] for nm in names]
        flat = [x for p in pairs for x in p]
        fid4 = "TIPL" if ver == 4 else "IPLS"
        if ver == 4 and i % 4 == 1:
            fid4 = "TMCL"
        body = enc_list(enc, flat)
        if ver == 2:
            frames = b"IPL" + len(body).to_bytes(3, "big") + body
        elif ver == 3:
            frames = b"IPLS" + len(body).to_bytes(4, "big") + b"\0\0" + body
        else:
            frames = fid4.encode() + syncsafe(len(body)) + b"\0\0" + body
        frames += (b"TT2" + (6).to_bytes(3, "big") + b"\x00title") if ver == 2 else \
            (b"TIT2" + ((6).to_bytes(4, "big") if ver == 3 else syncsafe(6)) + b"\0\0" + b"\x00title")
        data = b"ID3" + bytes([ver, 0, 0]) + syncsafe(len(frames) + 16) + frames + b"\0" * 16 + b"\xff\xfb\x90\x00" + b"\0" * 400
        case = {"sub": "source-people", "version": ver, "encoding": enc, "pairs": pairs, "data_hex": data[:len(frames) + 26].hex()}
        wide = any(ord(c) > 255 for x in flat for c in x)
        ctx.hist["source-people:v2.%d:enc%d:%s" % (ver, enc, "outside-latin1" if wide else "latin1")] += 1
        ctx.case(key=("source-people", ver, enc, repr(pairs), fid4), nontrivial=True, modelled=False, sample=case if i == 5 else None)
        k, t = timed(lambda: ID3(io.BytesIO(data)), 10)
        if k != "ok":
            ctx.violation("source-people:load-fails", repr(t)[:100], case); continue
        loaded_id = fid4 if ver == 4 else "TIPL"
        have = [list(p) for p in t[loaded_id].people] if loaded_id in t else None
        if have != pairs:
            ctx.violation("source-people:v2.%d:load" % ver, "the people list %r of the source loads as %s %r" % (pairs, loaded_id, have), case); continue
        for target in (4, 3):
            k, t = timed(lambda: ID3(io.BytesIO(data)), 10)
            g = io.BytesIO(data)

            def save():
                if target == 3:
                    t.update_to_v23()
                t.save(g, v2_version=target)
            k2, r2 = timed(save, 10)
            c2 = dict(case, target=target)
            if k2 != "ok":
                ctx.violation("source-people:save-fails:v2.%d" % target, "saving the loaded tag as v2.%d raised %r" % (target, r2), c2); continue
            w = id3spec.walk_tag(g.getvalue())
            want_id = "IPLS" if target == 3 else loaded_id
            got = [id3spec.decode_frame(fid, body) for fid, fl, body in w.frames if fid == want_id]
            if w.errors or len(got) != 1 or got[0].get("people") != pairs:
                ctx.violation("source-people:v2.%d:pairs" % target, "the people list %r of the v2.%d source is written as %r (%s) in the v2.%d tag; "
                              "walker errors %r" % (pairs, ver, [x.get("people") for x in got], want_id, target, w.errors[:2]), c2)


def check_v1_fields(ctx):
    """the ID3v1 block written alongside reflects title, artist, album, year, comment, track and genre within the fixed-width
    Latin-1 fields of ID3v1: 30 bytes each for title/artist/album, 4 for the year, 28 (v1.1, with track) for the comment"""
    from mutagen.id3 import ID3, TDRC, TIT2, TPE1, TALB, COMM, TRCK, TCON
    rng = ctx.rng
    alpha = "abcdefghijklmnopqrstuvwxyzäöüÆé ÿ"
    lens = [0, 1, 2, 27, 28, 29, 30, 31, 32, 59, 60, 61]
    def text(n):
        t = "".join(rng.choice(alpha) for _ in range(n))
        return t.strip() or ("x" * n)
    def lat(t, width):
        return t.encode("latin-1", "replace")[:width].split(b"\0")[0].decode("latin-1").rstrip()
    for _ in range(ctx.budget(60, 600)):
        n_t, n_a, n_l, n_c = (rng.choice(lens) for _ in range(4))
        title, artist, album, comment = text(n_t), text(n_a), text(n_l), text(n_c)
        if rng.random() < 0.15:
            title = "日本" + title          # not Latin-1: replaced character by character
        track = rng.choice([None, 1, 7, 99, 255, 256, 300, 65536, "300/400", "-3", "0"])
        year = rng.choice(["2001", "1999-12-31", "0987", "2020-05-06 12:00"])
        tag = ID3()
        if n_t:
            tag.add(TIT2(encoding=3, text=[title]))
        if n_a:
            tag.add(TPE1(encoding=3, text=[artist]))
        if n_l:
            tag.add(TALB(encoding=3, text=[album]))
        if n_c:
            tag.add(COMM(encoding=3, lang="eng", desc="", text=[comment]))
        if track is not None:
            tag.add(TRCK(encoding=0, text=[str(track)]))
        tag.add(TDRC(encoding=0, text=[year]))
        tag.add(TCON(encoding=0, text=["Rock"]))
        ver = rng.choice([3, 4])
        f = io.BytesIO()
        case = {"sub": "v1-fields", "title": title, "artist": artist, "album": album, "comment": comment, "track": track,
                "year": year, "version": ver}
        def save():
            if ver == 3:
                tag.update_to_v23()
            tag.save(f, v2_version=ver, v1=2)
        k, r = timed(save, 10)
        ctx.case(key=("v1", n_t, n_a, n_l, n_c, track, year, ver, title[:4]), nontrivial=True, modelled=False, sample=None)
        ctx.hist["v1-fields"] += 1
        if k != "ok":
            ctx.violation("v1:save-fails:%s" % (type(r).__name__ if k == "exc" else k), repr(r)[:100], case); continue
        b = id3spec.decode_id3v1(f.getvalue()[-128:])
        if b is None:
            ctx.violation("v1:missing", "v1=2 but no ID3v1 block written", case); continue
        exp = {"title": lat(title, 30) if n_t else "", "artist": lat(artist, 30) if n_a else "", "album": lat(album, 30) if n_l else "",
               "year": year[:4]}
        for key, e in exp.items():
            if b[key] != e:
                ctx.violation("v1:" + key, "ID3v1 %s is %r, expected %r (%d-byte field)" % (key, b[key], e, 4 if key == "year" else 30), case)
        if n_c:
            c28, c30 = lat(comment, 28), lat(comment, 30)
            if b["comment"] not in (c28, c30):
                ctx.violation("v1:comment", "ID3v1 comment is %r, expected %r" % (b["comment"], c28), case)
        # a track number that does not fit the one byte of ID3v1.1 cannot be represented: it is left out (0)
        fits = isinstance(track, int) and 1 <= track <= 255
        if fits and b["track"] != track:
            ctx.violation("v1:track", "ID3v1 track is %r, expected %r" % (b["track"], track), case)
        if track is not None and not fits and b["track"] not in (None, 0):
            ctx.violation("v1:track", "ID3v1 track is %r for the unrepresentable TRCK %r" % (b["track"], track), case)
        if b["genre"] != 17:
            ctx.violation("v1:genre", "ID3v1 genre is %r, expected 17 (Rock)" % (b["genre"],), case)

def search(ctx):
    old = ctx.tier; ctx.tier = "thorough"
    try:
        run(ctx)
    finally:
        ctx.tier = old
