"""C20 — Command-line tools finish the file they are writing when signalled."""
import os, sys, io, json, signal, shutil, tempfile, builtins, contextlib, importlib, traceback
from vcheck import parse_fields

RULE = ("each modifying sub-command of mid3v2 (delete-all, delete-v1, delete-v2, delete-frames, write, convert and their combinations), mid3cp (plain, --merge), mid3iconv and moggsplit run in a "
        "forked child on copies of sample files, with SIGINT/SIGTERM/SIGHUP delivered at every single event of the run: before each block, at "
        "each file-object operation inside it (open/read/seek/tell/write/truncate/flush/close), after each block. Compared with the Lean state "
        "machine's prediction for that schedule: operations executed per file, SystemExit, and with the undisturbed run: final bytes of every "
        "file. Non-trivial: the signal lands while at least one operation is still outstanding; distinct by (tool, sub-command, signal, position)")

SIGS = [signal.SIGINT, signal.SIGTERM, signal.SIGHUP]


def scenarios(workdir, repo):
    """(tool, sub-command, argv builder, units): `units` = the number of per-file modifications the command consists of -
    one per input file and pass (mid3v2 with --delete-frames and edits passes twice over the files: first the deletions,
    then the edits; mid3cp has a single destination).  A signal may end the run between two units, never inside one"""
    d = os.path.join(repo, "tests", "data")
    def cp(name, as_):
        p = os.path.join(workdir, as_)
        shutil.copy(os.path.join(d, name), p)
        return p
    return [
        ("mid3v2", "delete-all", lambda: ["mid3v2", "--delete-all", cp("silence-44-s.mp3", "a.mp3"), cp("id3v1v2-combined.mp3", "b.mp3")], 2),
        ("mid3v2", "delete-frames", lambda: ["mid3v2", "--delete-frames=TIT2,TALB", cp("silence-44-s.mp3", "a.mp3"), cp("vbri.mp3", "b.mp3")], 2),
        ("mid3v2", "write", lambda: ["mid3v2", "-t", "title", "-a", "x" * 3000, "-c", "d:comment:eng",
                                     cp("silence-44-s.mp3", "a.mp3"), cp("no-tags.mp3", "b.mp3")], 2),
        ("mid3cp", "plain", lambda: ["mid3cp", cp("silence-44-s.mp3", "src.mp3"), cp("no-tags.mp3", "dst.mp3")], 1),
        ("mid3cp", "merge", lambda: ["mid3cp", "--merge", "--write-v1", cp("silence-44-s.mp3", "src.mp3"), cp("vbri.mp3", "dst.mp3")], 1),
        ("mid3iconv", "convert", lambda: ["mid3iconv", "-e", "latin1", "-q", cp("silence-44-s.mp3", "a.mp3"), cp("id3v1v2-combined.mp3", "b.mp3")], 2),
        ("mid3iconv", "remove-v1", lambda: ["mid3iconv", "-e", "latin1", "-q", "--remove-v1", cp("id3v1v2-combined.mp3", "a.mp3"), cp("silence-44-s.mp3", "b.mp3")], 2),
        ("mid3iconv", "force-v1", lambda: ["mid3iconv", "-e", "latin1", "-q", "--force-v1", cp("id3v1v2-combined.mp3", "a.mp3"), cp("silence-44-s-v1.mp3", "b.mp3")], 2),
        ("mid3v2", "delete-v1", lambda: ["mid3v2", "--delete-v1", cp("id3v1v2-combined.mp3", "a.mp3"), cp("silence-44-s-v1.mp3", "b.mp3")], 2),
        ("mid3v2", "delete-v2", lambda: ["mid3v2", "--delete-v2", cp("id3v1v2-combined.mp3", "a.mp3"), cp("silence-44-s.mp3", "b.mp3")], 2),
        # -C/--convert: no edits, every file rewritten as v2.4 (an ID3v1-only file gets a new tag: the file has to grow)
        ("mid3v2", "convert", lambda: ["mid3v2", "--convert", cp("silence-44-s-v1.mp3", "a.mp3"), cp("id3v1v2-combined.mp3", "b.mp3")], 2),
        ("mid3v2", "convert+edit", lambda: ["mid3v2", "-C", "-t", "t" * 2000, cp("silence-44-s-v1.mp3", "a.mp3"), cp("silence-44-s.mp3", "b.mp3")], 2),
        ("mid3v2", "delete-frames+edit", lambda: ["mid3v2", "--delete-frames=TIT2", "-a", "y" * 2500, cp("silence-44-s.mp3", "a.mp3"), cp("vbri.mp3", "b.mp3")], 4),
        ("mid3cp", "exclude", lambda: ["mid3cp", "-x", "TIT2", "--exclude-tag=TALB", cp("silence-44-s.mp3", "src.mp3"), cp("no-tags.mp3", "dst.mp3")], 1),
        ("moggsplit", "split", lambda: ["moggsplit", "--m3u", cp("multiplexed.spx", "m.spx"), cp("empty.ogg", "e.ogg")], 2),
    ]


class Tracer(object):
    def __init__(self, workdir, deliver_at, sig, second=None):
        self.second = second      # (event index, signal) of a second signal, or None
        self.delivered2 = False
        self.workdir = os.path.realpath(workdir)
        self.events = []          # ("pre", i) ("op", i, name) ("post", i)
        self.deliver_at = deliver_at
        self.sig = sig
        self.block = -1
        self.inblock = False
        self.delivered = False

    def event(self, kind, name=""):
        idx = len(self.events)
        self.events.append((kind, self.block, name))
        if self.deliver_at is not None and idx == self.deliver_at and not self.delivered:
            self.delivered = True
            os.kill(os.getpid(), self.sig)
            # the handler runs at the next bytecode boundary of the main thread
            for _ in range(3):
                pass
        if self.second is not None and idx == self.second[0] and self.delivered and not self.delivered2:
            self.delivered2 = True
            os.kill(os.getpid(), self.second[1])
            for _ in range(3):
                pass


class FileProxy(object):
    def __init__(self, f, tr):
        object.__setattr__(self, "_f", f)
        object.__setattr__(self, "_tr", tr)

    def _op(self, name):
        self._tr.event("op" if self._tr.inblock else "unprotected-op", name)

    def read(self, *a):
        self._op("read"); return self._f.read(*a)

    def write(self, *a):
        self._op("write"); return self._f.write(*a)

    def seek(self, *a):
        self._op("seek"); return self._f.seek(*a)

    def tell(self):
        self._op("tell"); return self._f.tell()

    def truncate(self, *a):
        self._op("truncate"); return self._f.truncate(*a)

    def flush(self):
        self._op("flush"); return self._f.flush()

    def close(self):
        self._op("close"); return self._f.close()

    def __enter__(self):
        return self

    def __exit__(self, *a):
        self.close()
        return False

    def __getattr__(self, n):
        return getattr(self._f, n)


def child(tool, argv, workdir, deliver_at, signum, out_fd, second=None):
    """runs in the forked child: the tool's main() after _sig.init(), traced"""
    result = {"exit": None, "events": [], "error": None}
    try:
        os.chdir(workdir)
        mod = importlib.import_module("mutagen._tools." + tool)
        util = importlib.import_module("mutagen._tools._util")
        tr = Tracer(workdir, deliver_at, signum, second)
        real_open = builtins.open

        def traced_open(file, *a, **kw):
            f = real_open(file, *a, **kw)
            try:
                p = os.path.realpath(file if isinstance(file, str) else os.fsdecode(file))
            except Exception:
                return f
            if p.startswith(tr.workdir):
                tr.event("op" if tr.inblock else "unprotected-op", "open")
                return FileProxy(f, tr)
            return f
        builtins.open = traced_open
        orig_block = util.SignalHandler.block

        @contextlib.contextmanager
        def block(self):
            tr.block += 1
            tr.event("pre")
            with orig_block(self):
                tr.inblock = True
                try:
                    yield
                finally:
                    tr.inblock = False
            if deliver_at is None:
                # reference run: what the files look like once this block is complete
                import hashlib
                snap = {}
                for fn in sorted(os.listdir(workdir)):
                    with real_open(os.path.join(workdir, fn), "rb") as h:
                        snap[fn] = hashlib.sha1(h.read()).hexdigest()
                result.setdefault("snaps", []).append(snap)
            tr.event("post")
        util.SignalHandler.block = block
        sys.stdout = io.StringIO(); sys.stderr = io.StringIO()
        try:
            # through the console entry point, as the installed tool starts: whatever it does to set the handlers up
            sys.argv = list(argv)
            rc = mod.entry_point()
            result["exit"] = "return:%r" % (rc,)
        except SystemExit as e:
            result["exit"] = "SystemExit:%s" % (e.code,)
        except BaseException as e:
            result["exit"] = "raise:%s" % type(e).__name__
            result["error"] = traceback.format_exc()[-600:]
        result["events"] = tr.events
        result["delivered"] = tr.delivered
    except BaseException:
        result["error"] = traceback.format_exc()[-600:]
    os.write(out_fd, json.dumps(result).encode())
    os._exit(0)


def run_case(tool, argv_fn, base, deliver_at, signum, repo, second=None):
    workdir = tempfile.mkdtemp(prefix="c20-", dir=base)
    argv = argv_fn(workdir)
    before = snapshot(workdir)
    r, w = os.pipe()
    pid = os.fork()
    if pid == 0:
        os.close(r)
        child(tool, argv, workdir, deliver_at, signum, w, second)
    os.close(w)
    chunks = []
    while True:
        b = os.read(r, 1 << 16)
        if not b:
            break
        chunks.append(b)
    os.close(r)
    os.waitpid(pid, 0)
    try:
        res = json.loads(b"".join(chunks).decode() or "{}")
    except ValueError:
        res = {"error": "no result from child"}
    after = snapshot(workdir)
    shutil.rmtree(workdir, ignore_errors=True)
    return res, before, after, argv


def snapshot(workdir):
    out = {}
    for fn in sorted(os.listdir(workdir)):
        with open(os.path.join(workdir, fn), "rb") as f:
            out[fn] = f.read()
    return out


def state_mismatch(before, snaps, got_ns, after, ref_after=None):
    """the files after an interrupted run must be exactly what the undisturbed run leaves once the blocks that were
    entered are complete (a command may pass over the same file in several blocks: delete-frames, then the edits):
    -> name of a file that is in no such state, or None"""
    import hashlib
    if snaps is None:
        for fn, data in after.items():
            if data != ref_after.get(fn) and data != before.get(fn):
                return fn
        return None
    j = len([n for n in got_ns if n > 0])
    if j == 0:
        exp = {fn: hashlib.sha1(d).hexdigest() for fn, d in before.items()}
    elif j <= len(snaps):
        exp = snaps[j - 1]
    else:
        raise RuntimeError("C20: the reference run recorded %d block snapshots, the interrupted run entered %d blocks" % (len(snaps), j))
    for fn, data in after.items():
        if exp.get(fn) != hashlib.sha1(data).hexdigest():
            return fn
    for fn in exp:
        if fn not in after:
            return fn
    return None


def blocks_of(events):
    """ops per block from the event list"""
    n = {}
    for kind, b, name in events:
        if kind == "pre":
            n.setdefault(b, 0)
        elif kind == "op":
            n[b] = n.get(b, 0) + 1
    return [n[k] for k in sorted(n)]


def event_to_model_index(events, idx):
    """index in fileProg numbering: pre -> outside (before enter); op j -> its op; post -> trailing outside"""
    pos = 0
    for i, (kind, b, name) in enumerate(events):
        if i == idx:
            if kind == "pre":
                return pos
            if kind == "op":
                return pos
            return pos
        if kind == "pre":
            pos += 2      # outside, enter
        elif kind == "op":
            pos += 1
        elif kind == "post":
            pos += 2      # leave, outside
    return pos


def run(ctx):
    ctx.rule = RULE
    base = tempfile.mkdtemp(prefix="verif-c20-")
    try:
        _run(ctx, base)
    finally:
        shutil.rmtree(base, ignore_errors=True)


def _run(ctx, base):
    rng = ctx.rng
    lines = []; pending = []
    for tool, sub, mk, units in scenarios(base, ctx.repo):
        def argv_fn(workdir, mk=mk):
            # rebuild the scenario inside `workdir`
            for t, s, m, _u in scenarios(workdir, ctx.repo):
                if t == tool and s == sub:
                    return m()
        ref, before, ref_after, argv = run_case(tool, argv_fn, base, None, None, ctx.repo)
        if ref.get("error") or not ref.get("events"):
            raise RuntimeError("C20 reference run of %s %s failed: %s" % (tool, sub, ref))
        events = ref["events"]
        ns = blocks_of(events)
        # the blocks of the undisturbed run are the units of the command: then a run may stop after any whole block;
        # otherwise (the code protects something else than one per-file modification) every file must be untouched or final
        snaps = ref.get("snaps", []) if len(ns) == units else None
        if snaps is None:
            ctx.notes.append("%s %s: %d protected blocks for %d per-file modifications" % (tool, sub, len(ns), units))
        unprotected = [e for e in events if e[0] == "unprotected-op" and e[2] in ("write", "truncate")]
        if unprotected:
            ctx.notes.append("%s %s: %d file-modifying operations run outside `with _sig.block()`" % (tool, sub, len(unprotected)))
        ctx.hist["events:%s:%s" % (tool, sub)] = len(events)
        positions = list(range(len(events)))
        if ctx.quick and len(positions) > 40:
            keep = set(positions[:6] + positions[-6:])
            keep.update(i for i, e in enumerate(events) if e[0] in ("pre", "post"))
            keep.update(i for i, e in enumerate(events) if e[0] != "pre" and e[0] != "post" and e[2] in ("write", "truncate", "open"))
            rest = [p for p in positions if p not in keep]
            keep.update(rng.sample(rest, min(len(rest), 14)))
            positions = sorted(keep)
        for k in positions:
            sigs = SIGS if not ctx.quick else [SIGS[(k + len(tool)) % 3]]
            for sg in sigs:
                res, b4, after, _ = run_case(tool, argv_fn, base, k, sg, ctx.repo)
                case = {"tool": tool, "subcommand": sub, "signal": signal.Signals(sg).name, "event_index": k,
                        "event": events[k], "ops_per_file": ns}
                nontrivial = events[k][0] != "post" or k < len(events) - 1
                if events[k][0] == "unprotected-op" and not ctx.model_ok():
                    pass
                ctx.case(key=(tool, sub, int(sg), k), nontrivial=nontrivial,
                         sample=case if (k == 7 and sub in ("write", "split")) else None)
                ctx.hist["tool:" + tool] += 1
                ctx.hist["at:" + events[k][0]] += 1
                if res.get("error") and not res.get("events"):
                    ctx.violation("harness-child-error", "child failed: %s" % res.get("error"), case)
                    continue
                got_ns = blocks_of(res["events"])
                # property on the real run:
                # (1) reports the abort
                if not str(res.get("exit", "")).startswith("SystemExit:Aborted"):
                    ctx.violation("%s:%s:no-abort" % (tool, sub), "signal delivered but the tool ended with %s" % res.get("exit"), case)
                # (2) every file is as in the undisturbed run or untouched; no partial file
                bad = state_mismatch(before, snaps, got_ns, after, ref_after)
                if bad is not None:
                    ctx.violation("%s:%s:half-written" % (tool, sub), "file %s is not what the undisturbed run leaves after the %d block(s) "
                                  "that were entered (nor untouched)" % (bad, len([n for n in got_ns if n > 0])), case)
                # (3) files entered are a prefix; an entered block ran all its operations
                full = [a == b for a, b in zip(got_ns, ns)]
                if got_ns and (got_ns[:-1] != ns[:len(got_ns) - 1] or (got_ns[-1] not in (0, ns[len(got_ns) - 1]))):
                    # a started block must be complete; only pre-entry delivery gives 0
                    ctx.violation("%s:%s:block-cut-short" % (tool, sub), "operations per file %r vs undisturbed %r" % (got_ns, ns), case)
                # model prediction
                if any(e[0] == "unprotected-op" for e in events):
                    continue          # outside the modelled program shape: the search above decides
                mpos = event_to_model_index(events, k)
                lines.append("sig ns=%s pos=%d" % (",".join(map(str, ns)), mpos))
                done = got_ns + [0] * (len(ns) - len(got_ns))
                # a block whose `pre` event fired but which was aborted before entering has 0 ops
                pending.append((case, "ok exited=%d interrupted=1 done=%s" % (
                    1 if str(res.get("exit", "")).startswith("SystemExit") else 0, ",".join(map(str, done)) or "-")))
        # two signals during one file's update (Ctrl-C twice; SIGHUP then SIGTERM at session teardown): the second one
        # arrives at the same event, at the next one, or at the last operation of the same file
        inblock = [i for i, e in enumerate(events) if e[0] == "op"]
        if inblock:
            firsts = rng.sample(inblock, min(len(inblock), 4 if ctx.quick else 40))
            for k in sorted(firsts):
                blk = events[k][1]
                last_of_block = max(i for i in inblock if events[i][1] == blk)
                for k2 in sorted({k, min(k + 1, last_of_block), last_of_block}):
                    sg = SIGS[(k + k2) % 3]; sg2 = SIGS[(k + 2 * k2 + 1) % 3]
                    res, b4, after, _ = run_case(tool, argv_fn, base, k, sg, ctx.repo, second=(k2, sg2))
                    case = {"tool": tool, "subcommand": sub, "signal": signal.Signals(sg).name, "event_index": k, "event": events[k],
                            "second_signal": signal.Signals(sg2).name, "second_event_index": k2, "ops_per_file": ns}
                    ctx.case(key=(tool, sub, int(sg), k, int(sg2), k2), nontrivial=True, modelled=False, sample=case if k2 == k + 1 and sub == "write" else None)
                    ctx.hist["two-signals:%s" % ("same-event" if k2 == k else "next-op" if k2 == k + 1 else "last-op-of-file")] += 1
                    if res.get("error") and not res.get("events"):
                        ctx.violation("harness-child-error", "child failed: %s" % res.get("error"), case)
                        continue
                    if not str(res.get("exit", "")).startswith("SystemExit:Aborted"):
                        ctx.violation("%s:%s:two-signals:no-abort" % (tool, sub), "two signals delivered but the tool ended with %s" % res.get("exit"), case)
                    bad = state_mismatch(before, snaps, blocks_of(res["events"]), after, ref_after)
                    if bad is not None:
                        ctx.violation("%s:%s:two-signals:half-written" % (tool, sub), "file %s is not what the undisturbed run leaves after "
                                      "the blocks that were entered" % bad, case)
                    got_ns = blocks_of(res["events"])
                    if got_ns and (got_ns[:-1] != ns[:len(got_ns) - 1] or (got_ns[-1] not in (0, ns[len(got_ns) - 1]))):
                        ctx.violation("%s:%s:two-signals:block-cut-short" % (tool, sub), "operations per file %r vs undisturbed %r" % (got_ns, ns), case)
    if ctx.model_ok() and lines:
        for line, (case, real) in zip(ctx.driver.ask(lines), pending):
            ctx.traces_validated += 1
            if not line.startswith(real):
                ctx.disagree("signal-run", case, model=line, impl=real)


def search(ctx):
    old = ctx.tier; ctx.tier = "thorough"
    try:
        run(ctx)
    finally:
        ctx.tier = old
