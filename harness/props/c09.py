"""C09 — The padding callback is obeyed and existing padding is reused."""
import io
import containers
import formats as F
import walkers
from guards import timed
import id3file_tie
import dsf_tie
import asf_tie
import ogginject_tie
import iff_tie

RULE_EXTRA = (" Plus: FLAC files with a leading ID3v2 tag saved with deleteid3=True (the space of the removed tag counts as available); "
              "Ogg Vorbis streams whose comment packet was paged by another encoder (split at arbitrary 255-byte multiples, sharing its last "
              "page with a setup packet that continues on the next page): an edit that fits the existing padding, saved with a callback "
              "returning the offered padding or with the default policy, keeps the file size and every later byte in place.")

RULE = ("random edit histories (set tiny/huge/empty/unicode values, save with default/0/n/keep padding, save through a fresh object, "
        "delete by method and by module function, reload) over every sample of every taggable format; after each save/delete an independent "
        "container walker extracts everything the tagging type does not own (audio, other Ogg streams and packets, non-comment FLAC blocks, "
        "non-metadata MP4 atoms, other IFF chunks, unknown ASF objects, tags of another family) and compares it byte for byte and in order "
        "with the state before. FLAC is additionally modelled and proved in Lean. Non-trivial: a save or delete ran; distinct by "
        "(format, sample, history index, step)")


def flac_deleteid3(ctx):
    """FLAC behind an ID3v2 tag, saved with deleteid3=True: what the callback is offered includes the space of the tag that goes"""
    from mutagen.flac import FLAC
    rng = ctx.rng
    base = F.sample_bytes(ctx.repo, "silence-44-s.flac")
    for n in ([250, 3000] if ctx.quick else [0, 1, 250, 3000, 70000]):
        body = b"TIT2" + bytes([0, 0, 0, 2, 0, 0, 0, 0x61]) + b"\0" * n
        sz = len(body)
        id3 = b"ID3\x04\x00\x00" + bytes([(sz >> 21) & 0x7F, (sz >> 14) & 0x7F, (sz >> 7) & 0x7F, sz & 0x7F]) + body
        data = id3 + base
        for rule in (("keep",), ("const", 0), ("const", 77), ("default",)):
            f = F.NamedBytesIO(data, "x.flac")
            case = {"sub": "flac-deleteid3", "id3_size": len(id3), "rule": list(rule)}
            try:
                obj = FLAC(f)
            except Exception as e:
                ctx.notes.append("FLAC with ID3 prefix does not load: %s" % type(e).__name__); return
            w0 = walkers.walk("FLAC", data)
            rec = containers.PadRecorder(rule)
            f.seek(0)
            k, r = timed(lambda: obj.save(f, deleteid3=True, padding=rec), 20)
            ctx.case(key=("flac-deleteid3", n, rule), nontrivial=True, modelled=False, sample=case if n == 250 and rule == ("keep",) else None)
            ctx.hist["flac-deleteid3"] += 1
            if k != "ok":
                ctx.violation("FLAC:deleteid3:save-fails", repr(r)[:100], case); continue
            out = f.getvalue()
            w1 = walkers.walk("FLAC", out)
            if out[:3] == b"ID3":
                ctx.violation("FLAC:deleteid3:id3-kept", "the ID3v2 tag is still in front of the file", case); continue
            audio0 = dict(w0.foreign).get("audio"); audio1 = dict(w1.foreign).get("audio")
            if audio0 != audio1:
                ctx.violation("FLAC:deleteid3:audio-changed", "audio differs", case)
            if len(rec.seen) != 1:
                ctx.violation("FLAC:padding-callback-calls", "padding callback called %d times" % len(rec.seen), case); continue
            offered, size = rec.seen[0]
            ans = rule[1] if rule[0] == "const" else (max(offered, 0) if rule[0] == "keep" else None)
            if ans is not None and w1.padding != ans:
                ctx.violation("FLAC:padding-not-obeyed", "callback answered %d, file has %d bytes of padding" % (ans, w1.padding), case)
            # available = everything in front of the audio; needed = the blocks written apart from the padding payload
            available = len(data) - len(audio0)
            needed = len(out) - len(audio1) - (w1.padding or 0)
            if offered != available - needed:
                ctx.violation("FLAC:info.padding-wrong", "the callback was offered padding=%d; %d bytes precede the audio (ID3v2 tag "
                              "included, it is being removed) and the new metadata needs %d, so %d remain"
                              % (offered, available, needed, available - needed), case)
            if rule[0] == "keep" and offered >= 0 and len(out) != len(data):
                ctx.violation("FLAC:keep-not-inplace", "returning the offered padding resized the file (%d -> %d)" % (len(data), len(out)), case)


def ogg_foreign_paging(ctx):
    """Ogg Vorbis comment packets paged by 'another encoder'"""
    from mutagen.ogg import OggPage
    from mutagen.oggvorbis import OggVorbis
    rng = ctx.rng
    base = F.sample_bytes(ctx.repo, "empty.ogg")
    f0 = io.BytesIO(base)
    pages = []
    while True:
        try:
            pages.append(OggPage(f0))
        except EOFError:
            break
    serial = pages[0].serial
    hdr_pages = []
    for p in pages:
        hdr_pages.append(p)
        if p.serial == serial and len(OggPage.to_packets(hdr_pages, strict=False)) >= 3 and p.complete:
            break
    packets = OggPage.to_packets(hdr_pages)
    if len(packets) < 3:
        ctx.notes.append("ogg_foreign_paging: unexpected header layout"); return
    rest = pages[len(hdr_pages):]
    ident, comment, setup = packets[0], packets[1], packets[2]
    for trial in range(ctx.budget(6, 40)):
        pad = rng.choice([300, 800, 3000])
        cm = comment + b"\0" * pad
        cut1 = 255 * rng.randrange(1, max(2, len(cm) // 255))           # comment split over two pages at a lacing boundary
        cut2 = 255 * rng.randrange(1, max(2, len(setup) // 255))         # setup starts on the comment's last page, continues
        newp = []
        def page(pk, complete, continued, seq):
            q = OggPage(); q.serial = serial; q.sequence = seq; q.packets = pk; q.complete = complete; q.continued = continued
            q.position = 0 if complete else -1
            return q
        p0 = page([ident], True, False, 0); p0.first = True
        newp = [p0, page([cm[:cut1]], False, False, 1), page([cm[cut1:], setup[:cut2]], False, True, 2),
                page([setup[cut2:]], True, True, 3)]
        seq = 4
        tail = []
        for q in rest:
            if q.serial == serial:
                q2 = OggPage(); q2.serial = serial; q2.sequence = seq; q2.packets = list(q.packets); q2.complete = q.complete
                q2.continued = q.continued; q2.position = q.position; q2.last = q.last
                seq += 1
                tail.append(q2)
        try:
            data = b"".join(q.write() for q in newp + tail)
        except Exception as e:
            ctx.hist["ogg-foreign-paging:cannot-build"] += 1; continue
        w0 = walkers.walk("OggVorbis", data)
        if w0.errors:
            ctx.hist["ogg-foreign-paging:not-wellformed"] += 1; continue
        for rule in (("keep",), ("default",)):
            f = F.NamedBytesIO(data, "x.ogg")
            case = {"sub": "ogg-foreign-paging", "padding_in_packet": pad, "cut1": cut1, "cut2": cut2, "rule": list(rule)}
            k0, obj = timed(lambda: OggVorbis(f), 20)
            if k0 != "ok":
                ctx.hist["ogg-foreign-paging:load-fails"] += 1; continue
            obj["title"] = ["fits the padding"]
            rec = containers.PadRecorder(rule)
            f.seek(0)
            k, r = timed(lambda: obj.save(f, padding=(rec if rule[0] != "default" else None)), 20)
            ctx.case(key=("ogg-foreign-paging", trial, rule), nontrivial=True, modelled=False, sample=case if trial == 0 else None)
            ctx.hist["ogg-foreign-paging"] += 1
            if k != "ok":
                ctx.violation("OggVorbis:foreign-paging:save-fails", repr(r)[:100], case); continue
            out = f.getvalue()
            w1 = walkers.walk("OggVorbis", out)
            if w1.errors:
                ctx.violation("OggVorbis:foreign-paging:malformed", "; ".join(w1.errors[:2]), case)
            if rule[0] == "keep" and rec.seen and rec.seen[0][0] >= 0 and len(out) != len(data):
                ctx.violation("OggVorbis:keep-not-inplace", "returning the offered padding resized the file (%d -> %d bytes)" % (len(data), len(out)), case)
            if rule[0] == "default" and pad <= 1024 and len(out) != len(data):
                ctx.violation("OggVorbis:default-resizes-moderate-padding",
                              "an edit that fits %d bytes of padding resized the file under the default policy (%d -> %d bytes)" % (pad, len(data), len(out)), case)


def format_maximum(ctx):
    """a padding answer beyond what the format can express: "capped only by the format's maximum block size" — the save
    succeeds with the padding capped (or raises MutagenError); no other exception.  ID3: the 28-bit size field
    (256 MiB - 1); FLAC: 2^24 - 1."""
    from mutagen import MutagenError
    from mutagen.id3 import ID3, TIT2
    from mutagen.flac import FLAC
    audio = b"\xff\xfb\x90\x64" + b"\0" * 413
    for label, want in (("id3:2^28", 2 ** 28), ("id3:2^28+5", 2 ** 28 + 5), ("flac:2^24", 2 ** 24), ("flac:2^31", 2 ** 31)):
        case = {"format": label.split(":")[0], "requested_padding": want}
        ctx.case(key=("format-maximum", label), nontrivial=True, modelled=False, sample=case if label == "id3:2^28" else None)
        ctx.hist["format-maximum:" + label] += 1
        if label.startswith("id3"):
            t = ID3(); t.add(TIT2(encoding=3, text=["x"]))
            f = io.BytesIO(audio)
            go = lambda: t.save(f, padding=lambda info: want)
        else:
            f = io.BytesIO(F.sample_bytes(ctx.repo, "silence-44-s.flac"))
            t = FLAC(f); t["title"] = ["x"]; f.seek(0)
            go = lambda: t.save(f, padding=lambda info: want)
        k, r = timed(go, 120)
        if k == "hang":
            ctx.violation("format-maximum:hang:" + label, "did not finish", case); continue
        if k == "exc":
            if not isinstance(r, MutagenError):
                ctx.violation("format-maximum:escape:%s:%s" % (label.split(":")[0], type(r).__name__),
                              "a padding answer of %d made save raise %s: %s" % (want, type(r).__name__, r), case)
            continue
        out = f.getvalue()
        if label.startswith("id3"):
            size = (out[6] << 21) | (out[7] << 14) | (out[8] << 7) | out[9]
            body = out[10:10 + size]
            pad = len(body) - len(body.rstrip(b"\0"))
            if out[:3] != b"ID3" or any(b & 0x80 for b in out[6:10]) or out[10 + size:] != audio or size != 2 ** 28 - 1 or pad < 2 ** 28 - 1 - 64:
                ctx.violation("format-maximum:id3:not-capped", "size field %d, padding %d, %d bytes follow" % (size, pad, len(out) - 10 - size), case)
        else:
            w = walkers.walk("FLAC", out)
            if w.errors or w.padding != 2 ** 24 - 1:
                ctx.violation("format-maximum:flac:not-capped", "padding %r, walker errors %r" % (w.padding, w.errors[:2]), case)
        del out


def run(ctx):
    containers.run_histories(ctx, {"padding"}, RULE + RULE_EXTRA)
    format_maximum(ctx)
    # MP4: every layout of the C10 family under padding histories: keep what is there, zero, odd, large, in sequence
    from props import c10
    H = [[("save", "small", "keep", False), ("save", "5k", "keep", False), ("save", "empty", "keep", False)],
         [("save", "small", "zero", False), ("save", None, "keep", False), ("save", "5k", "odd", False), ("save", "small", "keep", False)],
         [("save", "5k", "large", False), ("save", "small", "keep", True), ("save", "cover", "keep", False)],
         [("save", None, "keep", False), ("save", None, "zero", False), ("save", "small", "odd", True)]]
    c10.run_shared(ctx, lambda i: [H[i % 4], H[(i + 1) % 4]] if ctx.quick else H, "c09")
    flac_deleteid3(ctx)
    ogg_foreign_paging(ctx)
    id3file_tie.run(ctx)
    dsf_tie.run(ctx)
    asf_tie.run(ctx)
    ogginject_tie.run(ctx)
    iff_tie.run(ctx)


def search(ctx):
    old = ctx.tier; ctx.tier = "thorough"
    try:
        run(ctx)
    finally:
        ctx.tier = old
