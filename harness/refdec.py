"""refdec.py — independent reference decoders for the tag formats mutagen writes (C01).

Written from the format specifications; nothing here imports mutagen.

  Vorbis comment      Xiph "Ogg Vorbis I format specification", section 5 (comment header);
                      RFC 7845 5.2 (OpusTags), Speex manual (comment packet), Theora spec 6.3,
                      FLAC format (METADATA_BLOCK_VORBIS_COMMENT, Ogg FLAC mapping)
  APEv2               "APE Tags Header / Footer", "APE Tag Item", "APE key"
  MP4 ilst            Apple "QuickTime File Format: Metadata" / iTunes metadata conventions
  ASF                 "Advanced Systems Format (ASF) Specification" rev. 01.20.03: 3.10 Content
                      Description, 3.11 Extended Content Description, 4.7 Metadata, 4.8 Metadata Library
  UTF-8               RFC 3629

Every decoder is strict: anything the specification does not allow raises RefError.
"""
import struct


class RefError(Exception):
    pass


def need(cond, msg):
    if not cond:
        raise RefError(msg)


# ------------------------------------------------------------------------------------------ UTF-8
def utf8_decode(b):
    """strict RFC 3629 decoder -> list of code points"""
    out = []
    i = 0; n = len(b)
    while i < n:
        a = b[i]
        if a < 0x80:
            out.append(a); i += 1; continue
        if a < 0xC2 or a > 0xF4:
            raise RefError("utf8: bad lead byte %02x at %d" % (a, i))
        k = 1 if a < 0xE0 else 2 if a < 0xF0 else 3
        if i + k >= n:
            raise RefError("utf8: truncated sequence at %d" % i)
        c = a & (0x1F if k == 1 else 0x0F if k == 2 else 0x07)
        for j in range(1, k + 1):
            x = b[i + j]
            if x & 0xC0 != 0x80:
                raise RefError("utf8: bad continuation at %d" % (i + j))
            c = (c << 6) | (x & 0x3F)
        if (k == 2 and c < 0x800) or (k == 3 and c < 0x10000):
            raise RefError("utf8: overlong form at %d" % i)
        if 0xD800 <= c < 0xE000:
            raise RefError("utf8: surrogate at %d" % i)
        if c > 0x10FFFF:
            raise RefError("utf8: beyond U+10FFFF at %d" % i)
        out.append(c); i += k + 1
    return out


def utf8_encode(cps):
    out = bytearray()
    for c in cps:
        if c < 0x80:
            out.append(c)
        elif c < 0x800:
            out += bytes([0xC0 | c >> 6, 0x80 | c & 0x3F])
        elif c < 0x10000:
            out += bytes([0xE0 | c >> 12, 0x80 | (c >> 6) & 0x3F, 0x80 | c & 0x3F])
        else:
            out += bytes([0xF0 | c >> 18, 0x80 | (c >> 12) & 0x3F, 0x80 | (c >> 6) & 0x3F, 0x80 | c & 0x3F])
    return bytes(out)


def utf8_text(b):
    if b.isascii():
        return bytes(b).decode("ascii")
    return "".join(map(chr, utf8_decode(b)))


def utf16le_text(b, what="utf16"):
    """strict UTF-16-LE -> str (unpaired surrogates rejected)"""
    need(len(b) % 2 == 0, "%s: odd number of bytes" % what)
    units = struct.unpack("<%dH" % (len(b) // 2), b)
    out = []
    i = 0
    while i < len(units):
        u = units[i]
        if 0xD800 <= u < 0xDC00:
            need(i + 1 < len(units) and 0xDC00 <= units[i + 1] < 0xE000, "%s: unpaired high surrogate" % what)
            out.append(chr(0x10000 + ((u - 0xD800) << 10) + (units[i + 1] - 0xDC00))); i += 2
        else:
            need(not (0xDC00 <= u < 0xE000), "%s: unpaired low surrogate" % what)
            out.append(chr(u)); i += 1
    return "".join(out)


# ------------------------------------------------------------------------------------------ Vorbis comment
def vorbis_comment(data, framing):
    """-> dict(vendor=str, comments=[(key str, value str)], raw=[(key bytes, value bytes)], vendor_raw, end)
    `end` is the offset after the comment structure (after the framing byte when framing)."""
    n = len(data)
    need(n >= 4, "vorbis: no vendor length")
    vl = struct.unpack("<I", data[:4])[0]
    need(4 + vl + 4 <= n, "vorbis: vendor string overruns")
    vendor = data[4:4 + vl]
    pos = 4 + vl
    count = struct.unpack("<I", data[pos:pos + 4])[0]
    pos += 4
    raw = []
    for i in range(count):
        need(pos + 4 <= n, "vorbis: comment %d: no length" % i)
        ln = struct.unpack("<I", data[pos:pos + 4])[0]
        pos += 4
        need(pos + ln <= n, "vorbis: comment %d overruns" % i)
        c = data[pos:pos + ln]
        pos += ln
        eq = c.find(b"=")
        need(eq >= 0, "vorbis: comment %d has no '='" % i)
        key = c[:eq]
        need(all(0x20 <= x <= 0x7D for x in key), "vorbis: comment %d: field name %r outside 0x20..0x7D" % (i, key))
        raw.append((key, c[eq + 1:]))
    if framing:
        need(pos < n, "vorbis: framing byte missing")
        need(data[pos] & 1, "vorbis: framing bit unset")
        pos += 1
    return {"vendor": utf8_text(vendor), "vendor_raw": vendor, "raw": raw,
            "comments": [(k.decode("ascii"), utf8_text(v)) for k, v in raw], "end": pos}


VORBIS_WRAP = {
    # kind: (prefix, framing, what may follow the structure)
    "FLAC": (b"", False, "nothing"),
    "OggVorbis": (b"\x03vorbis", True, "zeros"),
    "OggOpus": (b"OpusTags", False, "any"),
    "OggSpeex": (b"", False, "zeros"),
    "OggTheora": (b"\x81theora", False, "zeros"),
    "OggFLAC": (None, False, "nothing"),
}


def vorbis_region(kind, packet):
    """strip the codec's wrapping from the comment packet / block -> (comment bytes, framing, trailing rule)"""
    prefix, framing, rule = VORBIS_WRAP[kind]
    if kind == "OggFLAC":
        need(len(packet) >= 4, "oggflac: comment packet shorter than a block header")
        need(packet[0] & 0x7F == 4, "oggflac: second packet is block type %d, not VORBIS_COMMENT" % (packet[0] & 0x7F))
        ln = int.from_bytes(packet[1:4], "big")
        need(ln == len(packet) - 4, "oggflac: block length field %d != packet payload %d" % (ln, len(packet) - 4))
        return packet[4:], framing, rule
    need(packet.startswith(prefix), "%s: comment packet does not start with %r" % (kind, prefix))
    return packet[len(prefix):], framing, rule


def vorbis_decode(kind, packet):
    body, framing, rule = vorbis_region(kind, packet)
    d = vorbis_comment(body, framing)
    tail = body[d["end"]:]
    if rule == "nothing":
        need(not tail, "%s: %d bytes after the comment structure" % (kind, len(tail)))
    elif rule == "zeros":
        need(not tail.strip(b"\x00"), "%s: non-zero bytes after the comment structure" % kind)
    d["body"] = body[:d["end"]]
    d["framing"] = framing
    d["tail"] = len(tail)
    return d


def ogg_comment_packet(data, kind):
    """second packet of the first logical stream whose first packet carries the codec's mark
    (no CRC check: fast; the page structure is the subject of C15)"""
    marks = {"OggVorbis": b"\x01vorbis", "OggOpus": b"OpusHead", "OggSpeex": b"Speex   ", "OggTheora": b"\x80theora",
             "OggFLAC": b"\x7fFLAC"}
    mark = marks[kind]
    pos = 0
    serial = None
    packets = []
    cur = bytearray()
    n = len(data)
    while pos + 27 <= n:
        need(data[pos:pos + 4] == b"OggS", "ogg: lost sync at %d" % pos)
        flags = data[pos + 5]
        ser = struct.unpack("<I", data[pos + 14:pos + 18])[0]
        nseg = data[pos + 26]
        lac = data[pos + 27:pos + 27 + nseg]
        body = pos + 27 + nseg
        end = body + sum(lac)
        need(end <= n, "ogg: truncated page")
        if serial is None and data[body:end].startswith(mark):
            serial = ser
        if ser == serial:
            o = body
            for v in lac:
                cur += data[o:o + v]; o += v
                if v < 255:
                    packets.append(bytes(cur)); cur = bytearray()
                    if len(packets) == 2:
                        return packets[1]
        pos = end
    raise RefError("ogg: no comment packet found")


# ------------------------------------------------------------------------------------------ APEv2
APE_HAS_HEADER = 1 << 31
APE_NO_FOOTER = 1 << 30
APE_IS_HEADER = 1 << 29


def ape_locate(data):
    """-> (start, end) of the APEv2 tag at the end of the file (before an ID3v1 block if any), or None"""
    end = len(data)
    if end >= 128 and data[end - 128:end - 125] == b"TAG" and data[end - 160:end - 152] == b"APETAGEX":
        end -= 128
    if end < 32 or data[end - 32:end - 24] != b"APETAGEX":
        return None
    ver, size, count, flags = struct.unpack("<4I", data[end - 24:end - 8])
    start = end - size - (32 if flags & APE_HAS_HEADER else 0)
    need(start >= 0, "ape: tag size exceeds the file")
    return start, end


def ape_tag(tag):
    """strict decode of header + items + footer -> [(key str, kind, value bytes, flags)]"""
    need(len(tag) >= 64, "ape: tag shorter than header + footer")
    need(tag[:8] == b"APETAGEX" and tag[-32:-24] == b"APETAGEX", "ape: preamble missing")
    hver, hsize, hcount, hflags = struct.unpack("<4I", tag[8:24])
    fver, fsize, fcount, fflags = struct.unpack("<4I", tag[-24:-8])
    need(hver == 2000 and fver == 2000, "ape: version %d/%d" % (hver, fver))
    need((hsize, hcount) == (fsize, fcount), "ape: header and footer disagree")
    need(tag[24:32] == b"\0" * 8 and tag[-8:] == b"\0" * 8, "ape: reserved bytes not zero")
    need(hflags & APE_IS_HEADER and hflags & APE_HAS_HEADER and not hflags & APE_NO_FOOTER, "ape: header flags %08x" % hflags)
    need(fflags & APE_HAS_HEADER and not fflags & APE_IS_HEADER and not fflags & APE_NO_FOOTER, "ape: footer flags %08x" % fflags)
    need(hsize == len(tag) - 32, "ape: size field %d != items + footer %d" % (hsize, len(tag) - 32))
    body = tag[32:-32]
    pos = 0
    items = []
    seen = set()
    for i in range(hcount):
        need(pos + 8 <= len(body), "ape: item %d: truncated" % i)
        vlen, flags = struct.unpack("<2I", body[pos:pos + 8])
        kend = body.find(b"\0", pos + 8)
        need(kend >= 0, "ape: item %d: key not terminated" % i)
        key = body[pos + 8:kend]
        need(2 <= len(key) <= 255 and all(0x20 <= c <= 0x7E for c in key), "ape: item %d: invalid key %r" % (i, key))
        need(key.upper() not in (b"ID3", b"TAG", b"OGGS", b"MP+"), "ape: item %d: reserved key %r" % (i, key))
        need(key.lower() not in seen, "ape: duplicate key %r" % key)
        seen.add(key.lower())
        need(kend + 1 + vlen <= len(body), "ape: item %d: value overruns" % i)
        kind = (flags >> 1) & 3
        need(kind != 3, "ape: item %d: reserved value kind" % i)
        need(flags & ~7 == 0, "ape: item %d: undefined flag bits %08x" % (i, flags))
        value = body[kend + 1:kend + 1 + vlen]
        if kind in (0, 2):
            utf8_decode(value)
        items.append((key.decode("ascii"), kind, value, flags))
        pos = kend + 1 + vlen
    need(pos == len(body), "ape: %d bytes after the last item" % (len(body) - pos))
    return items


# ------------------------------------------------------------------------------------------ MP4 ilst
def mp4_children(buf, what):
    out = []
    pos = 0
    while pos < len(buf):
        need(pos + 8 <= len(buf), "mp4: %s: truncated atom header" % what)
        size, name = struct.unpack(">I4s", buf[pos:pos + 8])
        hl = 8
        if size == 1:
            need(pos + 16 <= len(buf), "mp4: %s: truncated 64-bit size" % what)
            size = struct.unpack(">Q", buf[pos + 8:pos + 16])[0]; hl = 16
        need(size >= hl and pos + size <= len(buf), "mp4: %s: atom %r size %d overruns" % (what, name, size))
        out.append((name, buf[pos + hl:pos + size]))
        pos += size
    return out


MP4_BOOL = {b"cpil", b"pgap", b"pcst"}
MP4_PAIR = {b"trkn": 8, b"disk": 6}
MP4_INT = {b"plID", b"cnID", b"geID", b"atID", b"sfID", b"cmID", b"akID", b"tvsn", b"tves", b"tmpo", b"\xa9mvi", b"\xa9mvc",
           b"shwm", b"stik", b"hdvd", b"rtng"}


def mp4_ilst(payload):
    """-> ordered list of (key str, kind, values):
    kind 'text' [str], 'int' [int], 'bool' bool, 'pair' [(a, b)], 'cover' [(type, bytes)],
    'free' [(type, version, bytes)], 'other' [(type, bytes)]"""
    out = []
    for name, body in mp4_children(payload, "ilst"):
        if name == b"free":
            continue
        kids = mp4_children(body, repr(name))
        datas = []
        mean = nm = None
        for cname, cbody in kids:
            if cname == b"data":
                need(len(cbody) >= 8, "mp4: %r: data atom shorter than its header" % name)
                ver = cbody[0]; typ = int.from_bytes(cbody[1:4], "big"); locale = struct.unpack(">I", cbody[4:8])[0]
                need(locale == 0, "mp4: %r: locale %d" % (name, locale))
                datas.append((ver, typ, cbody[8:]))
            elif cname == b"mean" and name == b"----":
                need(mean is None and not datas and nm is None, "mp4: ----: misplaced mean")
                need(cbody[:4] == b"\0\0\0\0", "mp4: ----: mean version/flags")
                mean = cbody[4:]
            elif cname == b"name" and name == b"----":
                need(nm is None and not datas and mean is not None, "mp4: ----: misplaced name")
                need(cbody[:4] == b"\0\0\0\0", "mp4: ----: name version/flags")
                nm = cbody[4:]
            else:
                raise RefError("mp4: unexpected atom %r inside %r" % (cname, name))
        if name == b"----":
            need(mean is not None and nm is not None, "mp4: ----: mean/name missing")
            key = "----:" + mean.decode("latin-1") + ":" + nm.decode("latin-1")
            out.append((key, "free", [(typ, ver, d) for ver, typ, d in datas]))
            continue
        key = name.decode("latin-1")
        for ver, typ, d in datas:
            need(ver == 0, "mp4: %r: data version %d" % (name, ver))
        if name in MP4_PAIR:
            vals = []
            for ver, typ, d in datas:
                need(typ == 0, "mp4: %r: type %d for a number pair" % (name, typ))
                need(len(d) == MP4_PAIR[name], "mp4: %r: pair payload of %d bytes" % (name, len(d)))
                need(d[:2] == b"\0\0" and d[6:] == b"\0" * (len(d) - 6), "mp4: %r: reserved bytes not zero" % name)
                vals.append(struct.unpack(">2H", d[2:6]))
            out.append((key, "pair", vals))
        elif name in MP4_BOOL:
            need(len(datas) == 1, "mp4: %r: %d data atoms for a flag" % (name, len(datas)))
            ver, typ, d = datas[0]
            need(typ in (21, 0) and len(d) == 1, "mp4: %r: flag of type %d, %d bytes" % (name, typ, len(d)))
            out.append((key, "bool", bool(d[0])))
        elif name in MP4_INT:
            vals = []
            for ver, typ, d in datas:
                need(typ in (21, 0), "mp4: %r: type %d for an integer" % (name, typ))
                need(len(d) in (1, 2, 3, 4, 8), "mp4: %r: integer of %d bytes" % (name, len(d)))
                vals.append(int.from_bytes(d, "big", signed=True))
            out.append((key, "int", vals))
        elif name == b"covr":
            vals = []
            for ver, typ, d in datas:
                need(typ in (13, 14), "mp4: covr: image type %d" % typ)
                vals.append((typ, d))
            out.append((key, "cover", vals))
        elif all(typ == 1 for ver, typ, d in datas):
            out.append((key, "text", [utf8_text(d) for ver, typ, d in datas]))
        else:
            out.append((key, "other", [(typ, d) for ver, typ, d in datas]))
    return out


# ------------------------------------------------------------------------------------------ ASF
def guid(s):
    """textual GUID -> 16 bytes as stored (first three fields little-endian)"""
    p = s.split("-")
    return (bytes.fromhex(p[0])[::-1] + bytes.fromhex(p[1])[::-1] + bytes.fromhex(p[2])[::-1] + bytes.fromhex(p[3]) + bytes.fromhex(p[4]))


ASF_HEADER = guid("75B22630-668E-11CF-A6D9-00AA0062CE6C")
ASF_CD = guid("75B22633-668E-11CF-A6D9-00AA0062CE6C")
ASF_ECD = guid("D2D0A440-E307-11D2-97F0-00A0C95EA850")
ASF_HEXT = guid("5FBF03B5-A92E-11CF-8EE3-00C00C205365")
ASF_META = guid("C5F8CBEA-5BAF-4877-8467-AA8C44FA4CCA")
ASF_METALIB = guid("44231C94-9498-49D1-A141-1D134E457054")
ASF_CD_NAMES = ["Title", "Author", "Copyright", "Description", "Rating"]
ASF_FIXED = {3: 4, 4: 8, 5: 2, 6: 16}


def asf_wstr(b, what):
    """NUL-terminated UTF-16-LE string field"""
    need(len(b) >= 2 and len(b) % 2 == 0 and b[-2:] == b"\0\0", "asf: %s: string not NUL-terminated" % what)
    return utf16le_text(b[:-2], "asf: " + what)


def asf_value(typ, b, boolsize, what):
    """-> the value in neutral form"""
    if typ == 0:
        return asf_wstr(b, what)
    if typ == 1:
        return bytes(b)
    if typ == 2:
        need(len(b) == boolsize, "asf: %s: BOOL of %d bytes (must be %d)" % (what, len(b), boolsize))
        v = int.from_bytes(b, "little")
        need(v in (0, 1), "asf: %s: BOOL value %d" % (what, v))
        return bool(v)
    if typ in (3, 4, 5):
        need(len(b) == ASF_FIXED[typ], "asf: %s: type %d of %d bytes" % (what, typ, len(b)))
        return int.from_bytes(b, "little")
    if typ == 6:
        need(len(b) == 16, "asf: %s: GUID of %d bytes" % (what, len(b)))
        return bytes(b)
    raise RefError("asf: %s: unknown data type %d" % (what, typ))


def asf_objects(buf, start, end, what):
    pos = start
    out = []
    while pos < end:
        need(pos + 24 <= end, "asf: %s: truncated object header" % what)
        g = buf[pos:pos + 16]
        size = struct.unpack("<Q", buf[pos + 16:pos + 24])[0]
        need(size >= 24 and pos + size <= end, "asf: %s: object size %d overruns" % (what, size))
        out.append((g, buf[pos + 24:pos + size]))
        pos += size
    return out


def asf_tags(data):
    """-> dict CD=[(name, value)], ECD=[(name, type, value)], M=[(stream, name, type, value)],
    ML=[(language, stream, name, type, value)]; each in file order"""
    need(data[:16] == ASF_HEADER and len(data) >= 30, "asf: no header object")
    hsize, count = struct.unpack("<QI", data[16:28])
    need(hsize <= len(data), "asf: header beyond the file")
    objs = asf_objects(data, 30, hsize, "header")
    need(len(objs) == count, "asf: header object count %d != %d" % (count, len(objs)))
    out = {"CD": [], "ECD": [], "M": [], "ML": [], "payload": {}, "records": {"ECD": [], "M": [], "ML": []}}
    seen = set()

    def once(name):
        need(name not in seen, "asf: more than one %s object" % name)
        seen.add(name)

    def meta(p, lib):
        tag = "ML" if lib else "M"
        once(tag)
        out["payload"][tag] = bytes(p)
        need(len(p) >= 2, "asf: %s: no count" % tag)
        n = struct.unpack("<H", p[:2])[0]
        pos = 2
        for i in range(n):
            need(pos + 12 <= len(p), "asf: %s: record %d truncated" % (tag, i))
            lang, stream, nlen, typ, vlen = struct.unpack("<HHHHI", p[pos:pos + 12])
            pos += 12
            need(pos + nlen + vlen <= len(p), "asf: %s: record %d overruns" % (tag, i))
            name = asf_wstr(p[pos:pos + nlen], "%s name %d" % (tag, i))
            out["records"][tag].append((lang, stream, bytes(p[pos:pos + nlen - 2]), typ, bytes(p[pos + nlen:pos + nlen + vlen])))
            pos += nlen
            val = asf_value(typ, p[pos:pos + vlen], 2, "%s %r" % (tag, name)); pos += vlen
            need(stream < 128, "asf: %s %r: stream number %d" % (tag, name, stream))
            if lib:
                out["ML"].append((lang, stream, name, typ, val))
            else:
                need(lang == 0, "asf: M %r: reserved field %d" % (name, lang))
                need(typ != 6 and vlen <= 0xFFFF, "asf: M %r: type %d / %d bytes not allowed in the Metadata object" % (name, typ, vlen))
                out["M"].append((stream, name, typ, val))
        need(pos == len(p), "asf: %s: %d stray bytes" % (tag, len(p) - pos))

    for g, p in objs:
        if g == ASF_CD:
            once("CD")
            need(len(p) >= 10, "asf: CD: short")
            lens = struct.unpack("<5H", p[:10])
            need(10 + sum(lens) == len(p), "asf: CD: lengths %r do not fill the object" % (lens,))
            pos = 10
            for name, ln in zip(ASF_CD_NAMES, lens):
                if ln:
                    out["CD"].append((name, asf_wstr(p[pos:pos + ln], "CD " + name)))
                pos += ln
        elif g == ASF_ECD:
            once("ECD")
            out["payload"]["ECD"] = bytes(p)
            need(len(p) >= 2, "asf: ECD: no count")
            n = struct.unpack("<H", p[:2])[0]
            pos = 2
            for i in range(n):
                need(pos + 2 <= len(p), "asf: ECD: descriptor %d truncated" % i)
                nlen = struct.unpack("<H", p[pos:pos + 2])[0]; pos += 2
                need(pos + nlen + 4 <= len(p), "asf: ECD: descriptor %d name overruns" % i)
                name = asf_wstr(p[pos:pos + nlen], "ECD name %d" % i)
                rawname = bytes(p[pos:pos + nlen - 2]); pos += nlen
                typ, vlen = struct.unpack("<HH", p[pos:pos + 4]); pos += 4
                out["records"]["ECD"].append((0, 0, rawname, typ, bytes(p[pos:pos + vlen])))
                need(pos + vlen <= len(p), "asf: ECD: descriptor %r value overruns" % name)
                need(typ != 6, "asf: ECD %r: GUID type not defined for this object" % name)
                out["ECD"].append((name, typ, asf_value(typ, p[pos:pos + vlen], 4, "ECD %r" % name))); pos += vlen
            need(pos == len(p), "asf: ECD: %d stray bytes" % (len(p) - pos))
        elif g == ASF_HEXT:
            once("HEXT")
            need(len(p) >= 22, "asf: header extension short")
            dsz = struct.unpack("<I", p[18:22])[0]
            need(dsz == len(p) - 22, "asf: header extension data size %d != %d" % (dsz, len(p) - 22))
            for g2, p2 in asf_objects(p, 22, len(p), "header extension"):
                if g2 == ASF_META:
                    meta(p2, False)
                elif g2 == ASF_METALIB:
                    meta(p2, True)
    return out


# ------------------------------------------------------------------------------------------ ID3 extras
def rva2(body):
    """RVA2 frame body (ID3v2.4 frames 4.11) -> (identification, [(channel, gain, peak)])"""
    i = body.find(b"\0")
    need(i >= 0, "rva2: identification not terminated")
    ident = body[:i].decode("latin-1")
    pos = i + 1
    out = []
    while pos < len(body):
        need(pos + 4 <= len(body), "rva2: truncated channel")
        ch = body[pos]
        gain = struct.unpack(">h", body[pos + 1:pos + 3])[0] / 512.0
        bits = body[pos + 3]
        nb = (bits + 7) // 8
        need(pos + 4 + nb <= len(body), "rva2: truncated peak")
        peak = int.from_bytes(body[pos + 4:pos + 4 + nb], "big")
        out.append((ch, gain, (peak / float(1 << (bits - 1))) if bits else 0.0))
        pos += 4 + nb
    return ident, out
