"""guards.py — per-call time limits that a `convert_error(IOError, ...)` cannot swallow."""
import signal


class Hang(BaseException):
    pass


def _handler(signum, frame):
    raise Hang()


def timed(fn, seconds=2.0):
    """run fn(); returns ('ok', value) / ('exc', exception) / ('hang', None)"""
    old = signal.signal(signal.SIGALRM, _handler)
    signal.setitimer(signal.ITIMER_REAL, seconds)
    try:
        try:
            v = fn()
            return "ok", v
        finally:
            signal.setitimer(signal.ITIMER_REAL, 0)
    except Hang:
        return "hang", None
    except Exception as e:
        return "exc", e
    finally:
        signal.setitimer(signal.ITIMER_REAL, 0)
        signal.signal(signal.SIGALRM, old)
