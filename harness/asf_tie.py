"""asf_tie.py — correspondence of the Lean model of ASF files (lean/MutagenModel/Model/Container/Asf.lean)
with ASF.load / ASF.save / ASF.delete, and the statements of the container properties (C02, C03, C07,
C08, C09) on the real output for synthesised well-formed layouts
[Header Object: children incl. Content Description, Extended Content Description, Header Extension
(Metadata, Metadata Library, …), Padding, foreign objects][Data Object …].

The model is asked through the compiled driver (`asf op=save|delete|save2|walk|dist|read …`); when the
environment variable VERIF_ASF_DRIVER holds a command line, that command is run instead (one request per
line on stdin, one answer per line on stdout)."""
import io, os, shlex, struct, subprocess
from vcheck import hx, REPO
from guards import timed
import refdec

G = dict(
    header=refdec.guid("75B22630-668E-11CF-A6D9-00AA0062CE6C"),
    cd=refdec.guid("75B22633-668E-11CF-A6D9-00AA0062CE6C"),
    ecd=refdec.guid("D2D0A440-E307-11D2-97F0-00A0C95EA850"),
    fileprops=refdec.guid("8CABDCA1-A947-11CF-8EE4-00C00C205365"),
    streamprops=refdec.guid("B7DC0791-A9B7-11CF-8EE6-00C00C205365"),
    audio=refdec.guid("F8699E40-5B4D-11CF-A8FD-00805F5C442B"),
    video=refdec.guid("BC19EFC0-5B4D-11CF-A8FD-00805F5C442B"),
    codeclist=refdec.guid("86D15240-311D-11D0-A3A4-00A0C90348F6"),
    padding=refdec.guid("1806D474-CADF-4509-A4BA-9AABCB96AAE8"),
    bitrate=refdec.guid("7BF875CE-468D-11D1-8D82-006097C9A2B2"),
    encryption=refdec.guid("2211B3FB-BD23-11D2-B4B7-00A0C955FC6E"),
    ext=refdec.guid("5FBF03B5-A92E-11CF-8EE3-00C00C205365"),
    meta=refdec.guid("C5F8CBEA-5BAF-4877-8467-AA8C44FA4CCA"),
    metalib=refdec.guid("44231C94-9498-49D1-A141-1D134E457054"),
    data=refdec.guid("75B22636-668E-11CF-A6D9-00AA0062CE6C"),
    index=refdec.guid("33000890-E5B1-11CF-89F4-00A0C90349CB"),
    langlist=refdec.guid("7C4346A9-EFE0-4BFC-B229-393EDE415C85"),
)
SPECIAL = {G[k] for k in ("header", "cd", "ecd", "ext", "meta", "metalib", "padding")}
EXT_RESERVED = bytes.fromhex("11d2d3abbaa9cf118ee600c00c205365") + b"\x06\x00"
CD_NAMES = ["Title", "Author", "Copyright", "Description", "Rating"]
SAMPLES = ["silence-1.wma", "silence-2.wma", "silence-3.wma"]


def rbytes(rng, n):
    return bytes(rng.randrange(256) for _ in range(n))


def obj(g, payload, size=None):
    return g + struct.pack("<Q", 24 + len(payload) if size is None else size) + payload


def wstr(s):
    return s.encode("utf-16-le") + b"\0\0"


# ---------------------------------------------------------------- payloads
def cd_payload(texts):
    enc = [wstr(t) if t is not None else b"" for t in texts]
    return struct.pack("<5H", *map(len, enc)) + b"".join(enc)


def value_bytes(typ, v, boolsize):
    if typ == 0:
        return wstr(v)
    if typ in (1, 6):
        return v
    if typ == 2:
        return int(v).to_bytes(boolsize, "little")
    return int(v).to_bytes({3: 4, 4: 8, 5: 2}[typ], "little")


def ecd_payload(recs):
    out = struct.pack("<H", len(recs))
    for name, typ, v in recs:
        n, d = wstr(name), value_bytes(typ, v, 4)
        out += struct.pack("<H", len(n)) + n + struct.pack("<HH", typ, len(d)) + d
    return out


def ml_payload(recs):
    out = struct.pack("<H", len(recs))
    for lang, stream, name, typ, v in recs:
        n, d = wstr(name), value_bytes(typ, v, 2)
        out += struct.pack("<HHHHI", lang, stream, len(n), typ, len(d)) + n + d
    return out


def gen_value(rng, small=True):
    typ = rng.choice([0, 0, 0, 1, 2, 3, 4, 5])
    if typ == 0:
        return typ, rng.choice(["", "x", "Ünï ✓", "a\U0001F600b", "2001", "w" * 70])
    if typ == 1:
        return typ, rbytes(rng, rng.choice([0, 1, 7, 40]))
    if typ == 2:
        return typ, rng.random() < 0.5
    return typ, rng.randrange(1 << {3: 32, 4: 64, 5: 16}[typ])


NAMES = ["WM/AlbumTitle", "WM/Year", "WM/Genre", "foo", "Ünï", "a\U0001F600", "IsVBR", "WM/Picture", ""]


def gen_cd(rng):
    return cd_payload([rng.choice([None, "", "x", "Some Title ✓", "q" * 40]) for _ in range(5)])


def gen_ecd(rng):
    return ecd_payload([(rng.choice(NAMES),) + gen_value(rng) for _ in range(rng.choice([0, 1, 2, 4]))])


def gen_ml(rng, lib):
    recs = []
    for _ in range(rng.choice([0, 1, 2, 3])):
        typ, v = gen_value(rng)
        if lib and rng.random() < 0.2:
            typ, v = 6, rbytes(rng, 16)
        recs.append((rng.choice([0, 1, 3]) if lib else 0, rng.choice([0, 1, 2]), rng.choice(NAMES + CD_NAMES[:2]), typ, v))
    return ml_payload(recs)


def fileprops(rng):
    # File ID, File Size (patched by the caller), creation date, packets, durations, preroll, flags, sizes, bitrate
    return rbytes(rng, 16) + b"\0" * 8 + rbytes(rng, 8) + struct.pack("<QQQQ", 17, 30000000, 20000000, 1000) + \
        struct.pack("<IIII", 2, 3200, 3200, 128000)


def streamprops(rng, audio=True):
    head = (G["audio"] if audio else G["video"]) + rbytes(rng, 16) + struct.pack("<QIIHI", 0, 18, 0, 1, 0)
    return head + struct.pack("<HHIIHHH", 0x161, 2, 44100, 16000, 4, 16, 0) + rbytes(rng, rng.choice([0, 10]))


def codeclist(rng, entries=None):
    entries = entries if entries is not None else [(rng.choice([1, 2, 2, 3]), "Windows Media Audio 9", "64 kbps", rng.choice([b"\x61\x01", b"", b"abcd"]))
                                                   for _ in range(rng.choice([0, 1, 2]))]
    out = rbytes(rng, 16) + struct.pack("<I", len(entries))
    for t, name, desc, info in entries:
        n, d = wstr(name), wstr(desc)
        out += struct.pack("<HH", t, len(n) // 2) + n + struct.pack("<H", len(d) // 2) + d + struct.pack("<H", len(info)) + info
    return out


def gen_foreign(rng, sub=False):
    kind = rng.choice(["unknown", "unknown", "fileprops", "streamprops", "streamprops-video", "codeclist", "bitrate", "encryption", "langlist"])
    if sub and kind in ("fileprops", "codeclist"):
        kind = "unknown"
    if kind == "unknown":
        g = rbytes(rng, 16)
        while g in SPECIAL or g in G.values():
            g = rbytes(rng, 16)
        return ("f", g, rbytes(rng, rng.choice([0, 1, 2, 22, 64, 300])))
    if kind == "fileprops":
        return ("f", G["fileprops"], fileprops(rng))
    if kind == "streamprops":
        return ("f", G["streamprops"], streamprops(rng, True))
    if kind == "streamprops-video":
        return ("f", G["streamprops"], streamprops(rng, False)[:rng.choice([16, 40, 54, 70])])
    if kind == "codeclist":
        return ("f", G["codeclist"], codeclist(rng))
    return ("f", G[kind], rbytes(rng, rng.choice([0, 8, 30])))


# ---------------------------------------------------------------- layouts
def sub_object(it):
    k = it[0]
    if k == "f":
        return obj(it[1], it[2])
    return obj({"m": G["meta"], "ml": G["metalib"], "pad": G["padding"]}[k], it[1])


def ext_payload(subs):
    body = b"".join(sub_object(s) for s in subs)
    return EXT_RESERVED + struct.pack("<I", len(body)) + body


def item_object(it):
    k = it[0]
    if k == "f":
        return obj(it[1], it[2])
    if k == "ext":
        return obj(G["ext"], ext_payload(it[1]))
    return obj({"cd": G["cd"], "ecd": G["ecd"], "pad": G["padding"]}[k], it[1])


def header_bytes(objects, count=None, size=None):
    body = b"".join(objects)
    return G["header"] + struct.pack("<QI", len(body) + 30 if size is None else size, len(objects) if count is None else count) + b"\x01\x02" + body


def render_layout(top, rest):
    return header_bytes([item_object(i) for i in top]) + rest


def patch_file_size(top, rest):
    """File Properties: File Size = length of the file"""
    total = len(render_layout(top, rest))
    return [("f", it[1], it[2][:16] + struct.pack("<Q", total) + it[2][24:]) if it[0] == "f" and it[1] == G["fileprops"] and len(it[2]) >= 24 else it
            for it in top]


def with_file_size(top, total):
    """what a save makes of the foreign children: the first File Properties Object among the children of the Header Object
    gets File Size (payload bytes 16..24) = length of the saved file; nothing else changes"""
    out, done = [], False
    for it in top:
        if not done and it[0] == "f" and it[1] == G["fileprops"]:
            it = ("f", it[1], it[2][:16] + struct.pack("<Q", total) + it[2][24:])
            done = True
        out.append(it)
    return out


def gen_rest(rng):
    n = rng.choice([0, 50, 400, 3000])
    data = obj(G["data"], rbytes(rng, 26 + n))
    if rng.random() < 0.3:
        data += obj(G["index"], rbytes(rng, rng.choice([32, 100])))
    return data if rng.random() < 0.9 else rbytes(rng, rng.choice([0, 1, 23, 100]))


def gen_plain(rng):
    """a well-formed layout: at most one of each owned object, in the places the specification gives them"""
    top = [gen_foreign(rng) for _ in range(rng.choice([0, 1, 2, 3, 4]))]
    if rng.random() < 0.7 and not any(i[1] == G["fileprops"] for i in top):
        top.insert(rng.randrange(len(top) + 1), ("f", G["fileprops"], fileprops(rng)))
    if rng.random() < 0.75:
        top.insert(rng.randrange(len(top) + 1), ("cd", gen_cd(rng)))
    if rng.random() < 0.75:
        top.insert(rng.randrange(len(top) + 1), ("ecd", gen_ecd(rng)))
    if rng.random() < 0.8:
        subs = [gen_foreign(rng, sub=True) for _ in range(rng.choice([0, 1, 2, 3]))]
        if rng.random() < 0.7:
            subs.insert(rng.randrange(len(subs) + 1), ("m", gen_ml(rng, False)))
        if rng.random() < 0.7:
            subs.insert(rng.randrange(len(subs) + 1), ("ml", gen_ml(rng, True)))
        if rng.random() < 0.4:
            subs.insert(rng.randrange(len(subs) + 1), ("pad", b"\0" * rng.choice([0, 1, 100, 3000])))
        top.insert(rng.randrange(len(top) + 1), ("ext", subs))
    for _ in range(rng.choice([0, 0, 1, 1, 2])):
        top.insert(rng.randrange(len(top) + 1), ("pad", b"\0" * rng.choice([0, 1, 10, 500, 2000, 12000])))
    rest = gen_rest(rng)
    top = patch_file_size(top, rest)
    return dict(top=top, rest=rest)


def damaged(kind, top, rest):
    """a mildly damaged file (a count or size field too small / too big): the objects that are really there"""
    objs = []
    for it in top:
        if it[0] == "f":
            objs.append(item_object(it))
        elif it[0] == "ext":
            objs += [sub_object(x) for x in it[1] if x[0] == "f"]
    return dict(damaged=kind, objects=objs, rest=rest)


def mutate_inside(rng, data, lo, hi, how):
    b = bytearray(data)
    if hi > lo:
        p = rng.randrange(lo, hi)
        b[p] = rng.randrange(256)
    return bytes(b)


ASF_KINDS = ["plain"] * 10 + ["sample", "sample-cut", "truncated", "hdr-size-small", "hdr-size-big", "count-small", "count-big",
                                        "obj-size-small", "obj-size-big", "ext-datasize-small", "ext-datasize-big", "sub-size-bad",
                                        "ext-junk", "ext-reserved", "ext-in-ext", "header-in-header", "misplaced", "duplicates",
                                        "two-ext", "bad-cd", "bad-ecd", "bad-ml", "bad-fileprops", "bad-codeclist", "bad-streamprops",
                                        "tiny", "not-asf", "no-rest", "junk-after", "flip"]


def gen_file(rng, kind=None):
    """-> (bytes, kind, layout or None); layout only for the well-formed kinds; `kind` forces what is otherwise drawn"""
    kind = kind or rng.choice(ASF_KINDS)
    lay = gen_plain(rng)
    top, rest = lay["top"], lay["rest"]
    data = render_layout(top, rest)
    if kind == "plain":
        return data, kind, lay
    if kind == "no-rest":
        lay = dict(top=patch_file_size(top, b""), rest=b"")
        return render_layout(lay["top"], b""), "plain", lay
    if kind == "junk-after":
        rest = rest + rbytes(rng, rng.choice([1, 30, 200]))
        lay = dict(top=patch_file_size(top, rest), rest=rest)
        return render_layout(lay["top"], rest), "plain", lay
    if kind == "sample":
        with open(os.path.join(REPO, "tests", "data", rng.choice(SAMPLES)), "rb") as h:
            return h.read(), kind, None
    if kind == "sample-cut":
        with open(os.path.join(REPO, "tests", "data", rng.choice(SAMPLES)), "rb") as h:
            d = h.read()
        return d[:rng.choice([4983, 4984, 5038, 5044, 5100, 7000, 3000, 1000])], kind, None
    objects = [item_object(i) for i in top]
    hlen = 30 + sum(map(len, objects))
    if kind == "truncated":
        return data[:rng.randrange(0, len(data))] if rng.random() < 0.7 else data[:rng.choice([hlen - 1, hlen, max(hlen - 30, 0)])], kind, None
    if kind == "hdr-size-small":
        return header_bytes(objects, size=max(0, hlen - rng.choice([1, 2, 23, 24, 25, 60, hlen - 30, hlen - 29, hlen]))) + rest, kind, None
    if kind == "hdr-size-big":
        return header_bytes(objects, size=hlen + rng.choice([1, 24, 50, len(rest), len(rest) + 1, 1 << 20, 1 << 62, (1 << 64) - 1 - hlen])) + rest, kind, \
            damaged(kind, top, rest)
    if kind == "count-small":
        return header_bytes(objects, count=max(0, len(objects) - rng.choice([1, 2, 5]))) + rest, kind, damaged(kind, top, rest)
    if kind == "count-big":
        return header_bytes(objects, count=len(objects) + rng.choice([1, 2, 1000, (1 << 32) - 1 - len(objects)])) + rest, kind, None
    if kind in ("obj-size-small", "obj-size-big"):
        if not objects:
            objects = [obj(rbytes(rng, 16), rbytes(rng, 30))]
        i = rng.randrange(len(objects))
        o = objects[i]
        n = len(o)
        new = max(0, n - rng.choice([1, 2, 24, n - 24, n - 23, n])) if kind == "obj-size-small" else n + rng.choice([1, 24, 100, 1 << 40, (1 << 64) - 1 - n])
        objects[i] = o[:16] + struct.pack("<Q", new) + o[24:]
        keep = rng.random() < 0.5     # the header size follows the claim, or not
        return header_bytes(objects, size=None if keep else max(30, hlen + new - n) % (1 << 64)) + rest, kind, None
    if kind in ("ext-datasize-small", "ext-datasize-big", "sub-size-bad", "ext-junk", "ext-reserved", "ext-in-ext"):
        subs = [gen_foreign(rng, sub=True) for _ in range(rng.choice([1, 2, 3]))] + [("m", gen_ml(rng, False))]
        rng.shuffle(subs)
        body = [sub_object(s) for s in subs]
        blen = sum(map(len, body))
        res = EXT_RESERVED
        ds = blen
        tail = b""
        if kind == "ext-datasize-small":
            ds = max(0, blen - rng.choice([1, 2, 24, 30, blen]))
        elif kind == "ext-datasize-big":
            ds = blen + rng.choice([1, 23, 24, 100, 1 << 31])
        elif kind == "sub-size-bad":
            i = rng.randrange(len(body))
            o = body[i]
            new = rng.choice([0, 1, 5, 23, 24, 25, len(o) - 1, len(o) + 1, len(o) + 30, 1 << 33, (1 << 64) - 1])
            body[i] = o[:16] + struct.pack("<Q", new) + o[24:]
        elif kind == "ext-junk":
            tail = rbytes(rng, rng.choice([1, 10, 24, 60]))
        elif kind == "ext-reserved":
            res = rng.choice([rbytes(rng, 18), EXT_RESERVED[:16] + b"\x07\x00", b"\0" * 18])
        else:
            inner = rng.choice([obj(G["ext"], EXT_RESERVED + struct.pack("<I", 0)), obj(G["ext"], ext_payload([("ml", gen_ml(rng, True))])),
                                obj(G["ext"], b"short")])
            body.insert(rng.randrange(len(body) + 1), inner)
            ds = sum(map(len, body))
        payload = res + struct.pack("<I", ds) + b"".join(body) + tail
        cut = rng.random() < 0.1
        if cut:
            payload = payload[:rng.choice([0, 10, 18, 21, 22, 30])]
        others = [o for i, o in zip(top, objects) if i[0] != "ext"]
        others.insert(rng.randrange(len(others) + 1), obj(G["ext"], payload))
        lay2 = None
        if kind == "ext-datasize-small" and not cut:
            lay2 = damaged(kind, [i for i in top if i[0] != "ext"] + [("ext", subs)], rest)
        return header_bytes(others) + rest, kind, lay2
    if kind == "header-in-header":
        inner = obj(G["header"], rbytes(rng, rng.choice([0, 6, 40])))
        if rng.random() < 0.5 or not any(i[0] == "ext" for i in top):
            objects.insert(rng.randrange(len(objects) + 1), inner)
            return header_bytes(objects) + rest, kind, None
        new = [obj(G["ext"], EXT_RESERVED + struct.pack("<I", len(ext_payload(i[1])) - 22 + len(inner)) + ext_payload(i[1])[22:] + inner) if i[0] == "ext" else o
               for i, o in zip(top, objects)]
        return header_bytes(new) + rest, kind, None
    if kind == "misplaced":
        # metadata objects at the wrong level
        extra_top = [obj(G["meta"], gen_ml(rng, False)), obj(G["metalib"], gen_ml(rng, True))][:rng.choice([1, 2])]
        subs = [("f", G["cd"], gen_cd(rng)), ("f", G["ecd"], gen_ecd(rng))][rng.choice([0, 1]):]
        objs2 = [o for i, o in zip(top, objects) if i[0] != "ext"] + extra_top
        objs2.insert(rng.randrange(len(objs2) + 1), obj(G["ext"], ext_payload(subs)))
        rng.shuffle(objs2)
        return header_bytes(objs2) + rest, kind, None
    if kind == "duplicates":
        objects += [obj(G["cd"], gen_cd(rng)), obj(G["ecd"], gen_ecd(rng)), obj(G["ext"], ext_payload([("m", gen_ml(rng, False)), ("m", gen_ml(rng, False)), ("ml", gen_ml(rng, True))]))][rng.choice([0, 1, 2]):]
        rng.shuffle(objects)
        return header_bytes(objects) + rest, kind, None
    if kind == "two-ext":
        objects = [o for i, o in zip(top, objects) if i[0] != "ext"]
        objects.insert(rng.randrange(len(objects) + 1), obj(G["ext"], ext_payload([gen_foreign(rng, sub=True)])))
        objects.insert(rng.randrange(len(objects) + 1), obj(G["ext"], ext_payload([("ml", gen_ml(rng, True))])))
        return header_bytes(objects) + rest, kind, None
    if kind in ("bad-cd", "bad-ecd", "bad-ml", "bad-fileprops", "bad-codeclist", "bad-streamprops"):
        if kind == "bad-cd":
            bad = obj(G["cd"], rng.choice([b"", b"\1\0", rbytes(rng, 9), struct.pack("<5H", 3, 0, 0, 0, 0) + b"a\0b", struct.pack("<5H", 2, 0, 0, 0, 0) + b"\0\xd8",
                                           struct.pack("<5H", 4, 0, 0, 0, 0) + b"\0\xdc\0\xd8", struct.pack("<5H", 40, 2, 0, 0, 9) + b"a\0", struct.pack("<5H", 2, 2, 0, 0, 0) + b"a\0b\0c\0d\0"]))
        elif kind == "bad-ecd":
            good = ecd_payload([("foo", 0, "bar"), ("n", 3, 7)])
            bad = obj(G["ecd"], rng.choice([b"", b"\1", b"\1\0", struct.pack("<H", 3) + good[2:], good[:-1], good[:rng.randrange(2, len(good))],
                                            struct.pack("<H", 1) + struct.pack("<H", 4) + b"a\0\0\0" + struct.pack("<HH", 9, 0),
                                            struct.pack("<H", 1) + struct.pack("<H", 4) + b"a\0\0\0" + struct.pack("<HH", 3, 3) + b"abc",
                                            struct.pack("<H", 1) + struct.pack("<H", 4) + b"a\0\0\0" + struct.pack("<HH", 2, 2) + b"\1\0",
                                            struct.pack("<H", 1) + struct.pack("<H", 3) + b"a\0\0" + struct.pack("<HH", 1, 0),
                                            struct.pack("<H", 1) + struct.pack("<H", 4) + b"a\0\0\0" + struct.pack("<HH", 0, 3) + b"a\0b",
                                            struct.pack("<H", 0) + b"trailing", good + b"xx"]))
        elif kind == "bad-ml":
            lib = rng.random() < 0.5
            good = ml_payload([(1 if lib else 0, 1, "foo", 0, "bar"), (0, 2, "n", 2, True)])
            badp = rng.choice([b"", b"\2", good[:rng.randrange(2, len(good))], struct.pack("<H", 5) + good[2:],
                               struct.pack("<H", 1) + struct.pack("<HHHHI", 0, 0, 4, 7, 0) + b"a\0\0\0",
                               struct.pack("<H", 1) + struct.pack("<HHHHI", 0, 0, 4, 2, 4) + b"a\0\0\0" + b"\1\0\0\0",
                               struct.pack("<H", 1) + struct.pack("<HHHHI", 0, 0, 4, 4, 4) + b"a\0\0\0" + b"\1\0\0\0",
                               struct.pack("<H", 1) + struct.pack("<HHHHI", 9, 300, 4, 1, 1 << 31) + b"a\0\0\0" + b"xyz",
                               struct.pack("<H", 1) + struct.pack("<HHHHI", 0, 0, 5, 1, 0) + b"a\0\0\0\0", good + b"tail"])
            sub = obj(G["metalib"] if lib else G["meta"], badp)
            bad = obj(G["ext"], EXT_RESERVED + struct.pack("<I", len(sub)) + sub)
            objects = [o for i, o in zip(top, objects) if i[0] != "ext"]
        elif kind == "bad-fileprops":
            bad = obj(G["fileprops"], rbytes(rng, rng.choice([0, 40, 63, 64])))
        elif kind == "bad-codeclist":
            good = codeclist(rng, [(1, "n", "d", b"ab"), (2, "audio", "dd", b"\x61\x01"), (3, "x", "y", b"")])
            bad = obj(G["codeclist"], rng.choice([good[:rng.randrange(0, len(good))], good[:16] + struct.pack("<I", 9) + good[20:],
                                                 good[:16] + struct.pack("<I", 0xFFFFFFFF) + good[20:], good,
                                                 codeclist(rng, [(1, "n", "d", b"ab")])[:-2] + b"", rbytes(rng, 16) + struct.pack("<I", 1) + struct.pack("<HH", 1, 60000)]))
        else:
            bad = obj(G["streamprops"], streamprops(rng, True)[:rng.choice([16, 17, 56, 65, 66, 67])])
        objects.insert(rng.randrange(len(objects) + 1), bad)
        return header_bytes(objects) + rest, kind, None
    if kind == "tiny":
        return data[:rng.choice([0, 1, 15, 16, 24, 29, 30, 31, 53, 54])], kind, None
    if kind == "not-asf":
        return rng.choice([b"\0" * 40, rbytes(rng, 16) + data[16:], G["cd"] + data[16:], b"RIFF" + data[4:]]), kind, None
    if kind == "flip":
        return mutate_inside(rng, data, 16, min(len(data), hlen), "byte"), kind, None
    raise AssertionError(kind)


# ---------------------------------------------------------------- tags
def cps_hex(s):
    return hx(s.encode("utf-32-le", "surrogatepass"))


def enc_attr(name, a):
    """(name, attribute object) as the driver reads it: typ:lang:stream:name:value"""
    t = a.TYPE
    if t == 0:
        v = cps_hex(a.value)
    elif t in (1, 6):
        v = hx(a.value)
    elif t == 2:
        v = "1" if a.value else "0"
    else:
        v = str(int(a.value))
    opt = lambda x: "-" if x is None else str(x)
    return "%d:%s:%s:%s:%s" % (t, opt(a.language), opt(a.stream), cps_hex(name), v)


def enc_tags(pairs):
    return ",".join(enc_attr(n, a) for n, a in pairs) or "-"


def gen_tags(rng, valid_only):
    """a list of (name, attribute) for ASFTags"""
    from mutagen import asf as A
    out = []
    for _ in range(rng.choice([0, 1, 2, 3, 5, 8])):
        name = rng.choice(CD_NAMES + CD_NAMES[:2] + NAMES + ["WM/AlbumTitle", "foo"])
        kw = {}
        if rng.random() < 0.25:
            kw["language"] = rng.choice([0, 1, 5])
        if rng.random() < 0.3:
            kw["stream"] = rng.choice([0, 1, 2, 127])
        r = rng.random()
        if r < 0.45:
            a = A.ASFUnicodeAttribute(rng.choice(["", "x", "Ünï ✓", "a\U0001F600b", "nul\0inside", "w" * 300, "2001"]), **kw)
        elif r < 0.55:
            a = A.ASFByteArrayAttribute(rbytes(rng, rng.choice([0, 1, 9, 200])), **kw)
        elif r < 0.63:
            a = A.ASFBoolAttribute(rng.random() < 0.5, **kw)
        elif r < 0.71:
            a = A.ASFDWordAttribute(rng.choice([0, 1, 2 ** 32 - 1, rng.randrange(2 ** 32)]), **kw)
        elif r < 0.78:
            a = A.ASFQWordAttribute(rng.choice([0, 2 ** 64 - 1, rng.randrange(2 ** 64)]), **kw)
        elif r < 0.85:
            a = A.ASFWordAttribute(rng.choice([0, 65535, rng.randrange(65536)]), **kw)
        elif r < 0.91:
            a = A.ASFGUIDAttribute(rbytes(rng, 16), **kw)
        elif r < 0.95:
            # too large for the 16-bit length fields: Metadata Library only
            a = rng.choice([lambda: A.ASFUnicodeAttribute("L" * rng.choice([32767, 32768, 40000]), **kw),
                            lambda: A.ASFByteArrayAttribute(b"B" * rng.choice([65535, 65536, 70000]), **kw)])()
        elif valid_only:
            a = A.ASFUnicodeAttribute("plain", **kw)
        else:
            which = rng.choice(["dword-range", "word-range", "qword-range", "surrogate-value", "surrogate-name", "long-name", "stream-range", "lang-range", "guid-short"])
            if which == "dword-range":
                a = A.ASFDWordAttribute(1, **kw); a.value = 2 ** 32
            elif which == "word-range":
                a = A.ASFWordAttribute(1, **kw); a.value = 65536
            elif which == "qword-range":
                a = A.ASFQWordAttribute(1, **kw); a.value = 2 ** 64
            elif which == "surrogate-value":
                a = A.ASFUnicodeAttribute("bad\ud800", **kw)
            elif which == "surrogate-name":
                a = A.ASFUnicodeAttribute("v", **kw); name = "n\udc00"
            elif which == "long-name":
                a = A.ASFUnicodeAttribute("v", **kw); name = "N" * rng.choice([32766, 32767, 40000])
            elif which == "stream-range":
                a = A.ASFUnicodeAttribute("v", stream=rng.choice([65535, 65536]), language=kw.get("language"))
            elif which == "lang-range":
                a = A.ASFUnicodeAttribute("v", language=rng.choice([65535, 65536]), stream=kw.get("stream"))
            else:
                a = A.ASFGUIDAttribute(rbytes(rng, rng.choice([0, 5, 17])), **kw)
        out.append((name, a))
    return out


def neutral(a):
    return a.value


def expected_placement(pairs):
    """the placement rule as the task states it (independent of mutagen and of the Lean model):
    -> CD [(name, text)], ECD [(name, typ, value)], M [(stream, name, typ, value)], ML [(lang, stream, name, typ, value)]"""
    cd, ecd, m, ml = {}, {}, {}, []
    for name, a in pairs:
        t = a.TYPE
        size = {0: lambda: len(wstr(a.value)), 1: lambda: len(a.value), 2: lambda: 4, 3: lambda: 4, 4: lambda: 8, 5: lambda: 2, 6: lambda: len(a.value)}[t]()
        rec = ((a.language or 0), (a.stream or 0), name, t, neutral(a))
        if size > 0xFFFF or t == 6 or a.language is not None:
            ml.append(rec)
        elif a.stream is not None:
            if name in m:
                ml.append(rec)
            else:
                m[name] = (a.stream, name, t, neutral(a))
        elif name in CD_NAMES:
            if name in cd or t != 0:
                ml.append(rec)
            else:
                cd[name] = (name, a.value)
        else:
            if name in ecd:
                ml.append(rec)
            else:
                ecd[name] = (name, t, neutral(a))
    return [cd[n] for n in CD_NAMES if n in cd], list(ecd.values()), list(m.values()), ml


# ---------------------------------------------------------------- independent strict reader
def strict_objects(buf):
    pos, out = 0, []
    while pos < len(buf):
        if len(buf) - pos < 24:
            return None
        size = struct.unpack("<Q", buf[pos + 16:pos + 24])[0]
        if size < 24 or pos + size > len(buf):
            return None
        out.append((buf[pos:pos + 16], buf[pos + 24:pos + size]))
        pos += size
    return out


def strict_layout(f):
    """the format's rules and nothing else: -> (top items, rest) or None"""
    if len(f) < 30 or f[:16] != G["header"]:
        return None
    size, count = struct.unpack("<QI", f[16:28])
    if size < 30 or size > len(f) or f[28:30] != b"\x01\x02":
        return None
    objs = strict_objects(f[30:size])
    if objs is None or len(objs) != count:
        return None
    top = []
    for g, p in objs:
        if g == G["cd"]:
            top.append(("cd", p))
        elif g == G["ecd"]:
            top.append(("ecd", p))
        elif g == G["padding"]:
            top.append(("pad", p))
        elif g == G["ext"]:
            if len(p) < 22 or p[:18] != EXT_RESERVED or struct.unpack("<I", p[18:22])[0] != len(p) - 22:
                return None
            subs = strict_objects(p[22:])
            if subs is None:
                return None
            top.append(("ext", [("m", q) if h == G["meta"] else ("ml", q) if h == G["metalib"] else ("pad", q) if h == G["padding"] else ("f", h, q)
                                for h, q in subs]))
        else:
            top.append(("f", g, p))
    return top, f[size:]


def desc_items(items):
    def one(it):
        k = it[0]
        if k == "f":
            return "f%s.%d" % (it[1].hex(), len(it[2]))
        if k == "ext":
            return "x(" + ";".join(one(s) for s in it[1]) + ")"
        return "%s.%d" % ({"pad": "p"}.get(k, k), len(it[1]))
    return ",".join(one(i) for i in items) or "-"


def read_answer(data):
    parsed = strict_layout(data)
    if parsed is None:
        return "ok wellformed=0"
    return "ok wellformed=1 top=%s rest=%d" % (desc_items(parsed[0]), len(parsed[1]))


# ---------------------------------------------------------------- the real code
def classify(exc):
    from mutagen import MutagenError
    if isinstance(exc, MutagenError):
        return "err mutagen"
    return "err " + {"ValueError": "value", "IndexError": "index", "error": "struct", "KeyError": "key", "AssertionError": "assertion",
                     "OverflowError": "overflow", "TypeError": "type", "MemoryError": "memory", "UnicodeEncodeError": "unicode",
                     "UnicodeDecodeError": "unicode", "NotImplementedError": "notimplemented"}.get(type(exc).__name__, type(exc).__name__)


def real_walk(a):
    def leaf(o):
        n = type(o).__name__
        short = {"ContentDescriptionObject": "cd", "ExtendedContentDescriptionObject": "ecd", "MetadataObject": "m", "MetadataLibraryObject": "ml"}.get(n)
        return "%s.%d" % (short, len(o.data)) if short else "r%s.%d" % (o.GUID.hex(), len(o.data))

    def one(o):
        if type(o).__name__ == "HeaderExtensionObject":
            return "x(" + ";".join(leaf(c) for c in o.objects) + ")"
        return leaf(o)
    return "ok objs=%s tags=%s" % (",".join(one(o) for o in a._header.objects) or "-", enc_tags(list(a.tags)))


def ask_model(ctx, lines):
    cmd = os.environ.get("VERIF_ASF_DRIVER")
    if cmd:
        out = []
        for i in range(0, len(lines), 300):
            p = subprocess.run(shlex.split(cmd), input=("\n".join(lines[i:i + 300]) + "\n").encode(), stdout=subprocess.PIPE,
                               stderr=subprocess.PIPE, timeout=7200)
            got = p.stdout.decode().split("\n")
            if got and got[-1] == "":
                got.pop()
            if p.returncode != 0 or len(got) != len(lines[i:i + 300]):
                raise RuntimeError("VERIF_ASF_DRIVER protocol error: rc=%s, %d answers for %d requests; stderr=%s" % (
                    p.returncode, len(got), len(lines[i:i + 300]), p.stderr.decode()[-400:]))
            out.extend(got)
        return out
    if not ctx.model_ok():
        return None
    return ctx.driver.ask(lines)


PADS = ["default", "default", "keep", "0", "1", "777", "20000", "-1"]


def make_cb(pad, offered):
    if pad == "default":
        return None

    def cb(info):
        offered.append((info.padding, info.size))
        return max(info.padding, 0) if pad == "keep" else int(pad)
    return cb


# ---------------------------------------------------------------- the statements on the real output
def kinds(items):
    return [i[0] for i in items]


def check_save(ctx, lay, out, pairs, pad, offered, case, op="save"):
    """the container statements on the output of a save over a well-formed layout"""
    key = "asf:%s:" % op
    parsed = strict_layout(out)
    if parsed is None:
        ctx.violation(key + "malformed", "the saved file is not a well-formed ASF header (header size / object count / object sizes / "
                      "header extension data size do not match the extents)", case)
        return
    top, rest = parsed
    old = lay["top"]
    # C02: everything behind the header and every foreign object, byte for byte and in order
    if rest != lay["rest"]:
        ctx.violation(key + "rest-changed", "the bytes behind the Header Object changed", case)
        return
    # C03: File Properties Object: File Size (the first one is the file's; further ones, not allowed by the format, stay as they are)
    for i in top:
        if i[0] == "f" and i[1] == G["fileprops"] and len(i[2]) >= 24:
            fs = struct.unpack("<Q", i[2][16:24])[0]
            if fs != len(out):
                ctx.violation("asf:%s:file-size-stale" % op, "File Properties Object: File Size says %d, the file has %d bytes" % (fs, len(out)), case)
            break
    if [i for i in with_file_size(top, 0) if i[0] == "f"] != [i for i in with_file_size(old, 0) if i[0] == "f"]:
        ctx.violation(key + "foreign-object-changed", "the foreign children of the Header Object are not byte-identical (but for the File Size field "
                      "of the first File Properties Object) and in order", case)
        return
    old_ext = [i for i in old if i[0] == "ext"]
    new_ext = [i for i in top if i[0] == "ext"]
    if len(new_ext) != 1:
        ctx.violation(key + "owned-objects", "%d Header Extension Objects after save" % len(new_ext), case)
        return
    if old_ext and [s for s in new_ext[0][1] if s[0] == "f"] != [s for s in old_ext[0][1] if s[0] == "f"]:
        ctx.violation(key + "foreign-object-changed", "the foreign children of the Header Extension Object are not byte-identical and in order", case)
        return
    # structure: the objects stay where they were, missing ones are appended, one Padding Object at the end
    want_top = [k for k in kinds(old) if k != "pad"]
    for k in ("cd", "ecd", "ext"):
        if k not in want_top:
            want_top.append(k)
    want_top.append("pad")
    if kinds(top) != want_top:
        ctx.violation(key + "object-order", "children of the Header Object: %r, expected %r" % (kinds(top), want_top), case)
        return
    want_sub = [k for k in (kinds(old_ext[0][1]) if old_ext else []) if k != "pad"]
    for k in ("m", "ml"):
        if k not in want_sub:
            want_sub.append(k)
    if kinds(new_ext[0][1]) != want_sub:
        ctx.violation(key + "object-order", "children of the Header Extension Object: %r, expected %r" % (kinds(new_ext[0][1]), want_sub), case)
        return
    padp = top[-1][1]
    if padp.strip(b"\0"):
        ctx.violation(key + "padding-not-zero", "the Padding Object does not hold zero bytes", case)
    got_pad = len(padp)
    # C09
    new_hlen = len(out) - len(rest)
    old_hlen = case["_hlen"]
    needed = new_hlen - got_pad
    if offered:
        if offered[0] != (old_hlen - needed, len(rest)):
            ctx.violation(key + "callback-offer", "the padding callback was offered (padding=%d, size=%d), expected (%d, %d)" % (
                offered[0][0], offered[0][1], old_hlen - needed, len(rest)), case)
        if len(offered) != 1:
            ctx.violation(key + "callback-count", "the padding callback was called %d times" % len(offered), case)
        want = max(offered[0][0], 0) if pad == "keep" else max(int(pad), 0)
        if got_pad != want:
            ctx.violation(key + "padding-not-obeyed", "callback answered %s, the Padding Object holds %d bytes" % (pad, got_pad), case)
        if pad == "keep" and offered[0][0] >= 0 and len(out) != case["_len"]:
            ctx.violation(key + "keep-moves-file", "answering with the offered padding changed the file size %d -> %d" % (case["_len"], len(out)), case)
    else:
        avail = old_hlen - needed
        if 0 <= avail <= 1024 and got_pad != avail:
            ctx.violation(key + "default-does-not-reuse", "default padding: %d bytes were available (<= 1 KiB), the file has %d" % (avail, got_pad), case)
    # the tags: every value in an object that can hold it, nothing dropped or duplicated, order kept
    try:
        dec = refdec.asf_tags(out)
    except refdec.RefError as e:
        ctx.violation(key + "tags-undecodable", "the specification decoder rejects the metadata objects: %s" % e, case)
        return
    cd, ecd, m, ml = expected_placement(pairs)
    got = (dec["CD"], dec["ECD"], dec["M"], dec["ML"])
    if got != (cd, ecd, m, ml):
        ctx.violation(key + "tag-placement", "the four metadata objects do not hold the tags as the placement rule says", case)


def check_damaged(ctx, lay, op, out, case):
    """files with a count / size field that does not match what is there, which the code accepts all the same:
    what a save or delete must not do to them.  Independent of the model."""
    key = "asf:%s:damaged:" % op
    pos = 0
    for blob in lay["objects"]:
        if blob[:16] == G["fileprops"] and len(blob) >= 48:
            # the File Size field (bytes 40..48 of the object) may have been brought up to date
            at = out.find(blob[:40], pos)
            while at >= 0 and out[at + 48:at + len(blob)] != blob[48:]:
                at = out.find(blob[:40], at + 1)
        else:
            at = out.find(blob, pos)
        if at < 0:
            ctx.violation(key + "object-lost", "a foreign object (%d bytes, GUID %s) that is in the file is no longer there after %s (input: %s)" % (
                len(blob), blob[:16].hex(), op, lay["damaged"]), case)
            return
        pos = at + len(blob)
    if not out.endswith(lay["rest"]):
        ctx.violation(key + "data-lost", "the data behind the header objects is no longer at the end of the file in one piece (input: %s)" % lay["damaged"], case)


def empty_payloads():
    return dict(cd=b"\0" * 10, ecd=b"\0\0", m=b"\0\0", ml=b"\0\0")


def expected_after_delete(lay):
    e = empty_payloads()
    top = []
    for i in lay["top"]:
        if i[0] == "pad":
            continue
        if i[0] in ("cd", "ecd"):
            top.append((i[0], e[i[0]]))
        elif i[0] == "ext":
            subs = [(s[0], e[s[0]]) if s[0] in ("m", "ml") else s for s in i[1] if s[0] != "pad"]
            for k in ("m", "ml"):
                if k not in kinds(subs):
                    subs.append((k, e[k]))
            top.append(("ext", subs))
        else:
            top.append(i)
    for k in ("cd", "ecd"):
        if k not in kinds(top):
            top.append((k, e[k]))
    if "ext" not in kinds(top):
        top.append(("ext", [("m", e["m"]), ("ml", e["ml"])]))
    top.append(("pad", b""))
    top = with_file_size(top, len(render_layout(top, lay["rest"])))
    return render_layout(top, lay["rest"]), top


def plain_tags_ok(pairs):
    """tags the specification decoder of refdec can judge: encodable, stream < 128, GUID of 16 bytes, everything in range"""
    for n, a in pairs:
        try:
            n.encode("utf-16-le")
            if a.TYPE == 0:
                a.value.encode("utf-16-le")
                if a.value.endswith("\0") or "\0" in a.value:
                    return False
        except UnicodeEncodeError:
            return False
        if "\0" in n or len(n) > 1000:
            return False
        if (a.stream or 0) >= 128 or (a.language or 0) > 65535:
            return False
        if a.TYPE == 6 and len(a.value) != 16:
            return False
        if a.TYPE in (3, 4, 5) and not 0 <= a.value < (1 << {3: 32, 4: 64, 5: 16}[a.TYPE]):
            return False
    return True


def run(ctx):
    """model tie + the container statements on the real output; returns the number of cases"""
    from mutagen.asf import ASF, ASFUnicodeAttribute
    rng = ctx.rng
    n = int(os.environ.get("VERIF_ASF_CASES", "0")) or ctx.budget(150, 2500)
    reqs = []
    ncases = 0
    # the three sample files first, with every operation
    forced = []
    for name in SAMPLES:
        with open(os.path.join(REPO, "tests", "data", name), "rb") as h:
            d0 = h.read()
        forced += [(d0, "sample", op0) for op0 in ("save", "delete", "save2")]
        reqs.append(("asf op=walk data=%s" % hx(d0), real_walk(ASF(io.BytesIO(d0))), dict(kind="sample", op="walk", name=name)))
    # a Header Object nested in the header / in the Header Extension: a MutagenError at load (model: `.mutagen`)
    from mutagen import MutagenError
    inner = obj(G["header"], b"\0" * 6)
    for where, d0 in (("header", header_bytes([obj(G["bitrate"], b"\0" * 8), inner]) + obj(G["data"], b"\0" * 26)),
                      ("extension", header_bytes([obj(G["ext"], EXT_RESERVED + struct.pack("<I", len(inner)) + inner)]) + obj(G["data"], b"\0" * 26))):
        k0, r0 = timed(lambda: ASF(io.BytesIO(d0)), 20)
        desc0 = dict(kind="header-in-header", op="walk", where=where, data=hx(d0))
        if k0 != "exc" or not isinstance(r0, MutagenError):
            ctx.violation("asf:load:nested-header-escapes", "a Header Object inside the %s: %s instead of a MutagenError" % (
                where, "loads" if k0 == "ok" else classify(r0) if k0 == "exc" else k0), desc0)
        reqs.append(("asf op=walk data=%s" % hx(d0), "err mutagen" if k0 == "exc" and isinstance(r0, MutagenError) else "ok" if k0 == "ok" else classify(r0), desc0))
    # a Header Extension Object inside a Header Extension Object (one level; 1200 levels: RecursionError before the repair):
    # a MutagenError at load (model: `.mutagen`)
    def nested_ext(depth):
        b = b""
        for _ in range(depth):
            b = obj(G["ext"], EXT_RESERVED + struct.pack("<I", len(b)) + b)
        return header_bytes([b]) + obj(G["data"], b"\0" * 26)
    for depth in (2, 1200):
        d0 = nested_ext(depth)
        k0, r0 = timed(lambda: ASF(io.BytesIO(d0)), 20)
        desc0 = dict(kind="ext-in-ext", op="walk", depth=depth, data=hx(d0) if len(d0) < 1500 else "len=%d" % len(d0))
        if k0 != "exc" or not isinstance(r0, MutagenError):
            ctx.violation("asf:load:nested-extension-escapes", "Header Extension Objects nested %d deep: %s instead of a MutagenError" % (
                depth, "loads" if k0 == "ok" else classify(r0) if k0 == "exc" else k0), desc0)
        reqs.append(("asf op=walk data=%s" % hx(d0), "err mutagen" if k0 == "exc" and isinstance(r0, MutagenError) else "ok" if k0 == "ok" else classify(r0), desc0))
    # a file that loads with a name of 65534 bytes without terminator: saving it unchanged must be a MutagenError
    # (struct.error before the repair); model: `.mutagen`
    nm = ("a" * 32767).encode("utf-16-le")
    d0 = header_bytes([obj(G["ecd"], struct.pack("<HH", 1, len(nm)) + nm + struct.pack("<HH", 3, 4) + b"\1\0\0\0")])
    f0 = io.BytesIO(d0)
    a0 = ASF(f0)
    f0.seek(0)
    k0, r0 = timed(lambda: a0.save(f0), 20)
    desc0 = dict(kind="long-name", op="save", data="len=%d" % len(d0))
    if k0 != "exc" or not isinstance(r0, MutagenError):
        ctx.violation("asf:save:escape", "unchanged save of a file with a 65534-byte unterminated name: %s instead of a MutagenError" % (
            "succeeds" if k0 == "ok" else classify(r0) if k0 == "exc" else k0), desc0)
    reqs.append(("asf op=save data=%s tags=%s pad=default" % (hx(d0), enc_tags(list(a0.tags))),
                 "err mutagen" if k0 == "exc" and isinstance(r0, MutagenError) else "ok" if k0 == "ok" else classify(r0), desc0))
    strat = [(kd, fop) for kd in sorted(set(ASF_KINDS)) if kd not in ("sample", "sample-cut") for fop in ("save", "delete")]
    for i in range(n + len(strat)):
        if i < len(forced):
            data, kind, op = forced[i]
            lay = None
        elif i < len(forced) + len(strat):
            # every kind of the generator once per operation (a stratified pass) before the random draws
            data, kind, lay = gen_file(rng, kind=strat[i - len(forced)][0])
            op = strat[i - len(forced)][1]
        else:
            data, kind, lay = gen_file(rng)
            op = rng.choice(["save", "save", "save", "save", "delete", "save2"])
        desc = dict(kind=kind, op=op, data=hx(data) if len(data) < 1500 else "len=%d" % len(data))
        f = io.BytesIO(data)
        k, a = timed(lambda: ASF(f), 20)
        if k == "hang":
            ctx.violation("asf:load:hang", "did not finish", desc)
            continue
        ncases += 1
        ctx.hist["asf:kind:" + kind] += 1
        if k != "ok":
            # the file does not load: the model must fail the same way for every operation
            impl = classify(a)
            ctx.hist["asf:load:" + impl] += 1
            ctx.case(key=("asf", "load", kind, i), nontrivial=False, modelled=True)
            line = {"save": "asf op=save data=%s tags=- pad=default", "delete": "asf op=delete data=%s", "save2": "asf op=walk data=%s"}[op] % hx(data)
            reqs.append((line, impl, dict(desc, step="load")))
            if lay is not None and "damaged" not in lay:
                ctx.violation("asf:load:raises", "%s on a well-formed file" % impl, desc)
            if kind == "header-in-header" and impl != "err mutagen":
                ctx.violation("asf:load:nested-header-escapes", "a Header Object inside the header: %s instead of a MutagenError" % impl, desc)
            if impl != "err mutagen":
                ctx.violation("asf:load:escape", "ASF(file) raised %s, not a MutagenError" % impl, desc)
            continue
        if kind == "header-in-header":
            ctx.violation("asf:load:nested-header-accepted", "a file with a Header Object inside the header loads", desc)
        if kind == "ext-in-ext" and lay is None:
            ctx.violation("asf:load:nested-extension-accepted", "a file with a Header Extension Object inside a Header Extension Object loads", desc)
        if rng.random() < 0.35:
            reqs.append(("asf op=walk data=%s" % hx(data), real_walk(a), dict(desc, op="walk")))
        loaded = list(a.tags)
        offered = []
        pairs = None
        if op in ("save", "save2"):
            how = rng.choice(["unchanged", "new", "new", "new-valid", "append"])
            if how == "unchanged":
                pairs = loaded
            elif how == "append":
                pairs = loaded + gen_tags(rng, True)
            else:
                pairs = gen_tags(rng, how == "new-valid" or lay is not None and rng.random() < 0.7)
            a.tags[:] = pairs
            pad = rng.choice(PADS)
            desc.update(pad=pad, tags=how, ntags=len(pairs))
            cb = make_cb(pad, offered)
            f.seek(0)
            k, r = timed(lambda: a.save(f, padding=cb), 30)
            tagstr = enc_tags(pairs)
            if len(tagstr) < 400:
                desc["tagstr"] = tagstr
            if op == "save":
                line = "asf op=save data=%s tags=%s pad=%s" % (hx(data), tagstr, pad)
        else:
            f.seek(0)
            k, r = timed(lambda: a.delete(f), 30)
            line = "asf op=delete data=%s" % hx(data)
        if k == "hang":
            ctx.violation("asf:%s:hang" % op, "did not finish", desc)
            continue
        out = f.getvalue()
        impl = "ok v=%s" % hx(out) if k == "ok" else classify(r)
        if k != "ok" and impl not in ("err mutagen", "err unicode"):
            # UnicodeEncodeError: lone surrogates in caller-supplied names / text (the caller's error); everything else must be a MutagenError
            ctx.violation("asf:%s:escape" % op, "%s raised %s, not a MutagenError" % (op, impl), desc)
        ctx.case(key=("asf", op, kind, i), nontrivial=(k == "ok" and out != data), modelled=True, sample=desc if i in (3, 40) else None)
        ctx.hist["asf:%s:%s" % (op, "ok" if k == "ok" else impl)] += 1
        if k == "ok" and op in ("save", "save2") and rng.random() < 0.5:
            # the decision logic alone: what ASF.save left in to_content_description & co
            got = "ok cd=%s ecd=%s m=%s ml=%s" % (enc_tags(list(a.to_content_description.items())), enc_tags(list(a.to_extended_content_description.items())),
                                                  enc_tags(list(a.to_metadata.items())), enc_tags(list(a.to_metadata_library)))
            reqs.append(("asf op=dist tags=%s" % enc_tags(pairs), got, dict(desc, op="dist")))
        if op == "save2":
            # a second save through the same object
            out1 = out
            offered2 = []
            pad2 = "default"
            tags2 = pairs
            if k == "ok":
                if rng.random() < 0.4:
                    pad2 = rng.choice(PADS)
                    tags2 = gen_tags(rng, False) if rng.random() < 0.5 else pairs
                    a.tags[:] = tags2
                f.seek(0)
                k2, r2 = timed(lambda: a.save(f, padding=make_cb(pad2, offered2)), 30)
                if k2 == "hang":
                    ctx.violation("asf:save2:hang", "did not finish", desc)
                    continue
                out2 = f.getvalue()
                impl = "ok v1=%s v2=%s" % (hx(out1), hx(out2)) if k2 == "ok" else classify(r2)
                desc.update(pad2=pad2, same_tags=tags2 is pairs)
                if k2 == "ok" and pad == "default" and pad2 == "default" and tags2 is pairs and out1 != out2 and lay is not None:
                    ctx.violation("asf:save:not-idempotent", "a second save of the same tags (default padding, same ASF object) changed the file", desc)
            line = "asf op=save2 data=%s tags=%s pad=%s tags2=%s pad2=%s" % (hx(data), enc_tags(pairs), pad, enc_tags(tags2), pad2)
        reqs.append((line, impl, desc))
        if k == "ok" and op in ("save", "delete") and rng.random() < 0.5:
            # C01: what the saved file loads with — the model's `loadedTags (parseFull out)` against the real reload, attribute by
            # attribute (name, type, value, language, stream, order), and the object tree
            kr, ar = timed(lambda: ASF(io.BytesIO(out)), 20)
            reqs.append(("asf op=walk data=%s" % hx(out), real_walk(ar) if kr == "ok" else classify(ar) if kr == "exc" else kr,
                         dict(desc, op="reload-walk")))
            ctx.hist["asf:reload-walk"] += 1
        if rng.random() < 0.3:
            which = out if k == "ok" else data
            reqs.append(("asf op=read data=%s" % hx(which), read_answer(which), dict(desc, op="read", of="output" if k == "ok" else "input")))
        # ---- the statements on the real output, for the layouts that are what they seem
        if lay is None:
            continue
        if "damaged" in lay:
            if k == "ok":
                check_damaged(ctx, lay, "save" if op == "save2" else op, out1 if op == "save2" else out, dict(desc))
            continue
        case = dict(desc, _len=len(data), _hlen=len(data) - len(lay["rest"]))
        if op == "delete":
            if k != "ok":
                ctx.violation("asf:delete:raises", "%s on a well-formed file" % impl, case)
                continue
            exp, exp_top = expected_after_delete(lay)
            if out != exp:
                parsed = strict_layout(out)
                if parsed is None:
                    ctx.violation("asf:delete:malformed", "after delete the header is not well-formed", case)
                elif [x for x in parsed[0] if x[0] == "f"] != [x for x in with_file_size(lay["top"], len(out)) if x[0] == "f"] or parsed[1] != lay["rest"]:
                    ctx.violation("asf:delete:foreign-object-changed", "delete changed a foreign object or the data behind the header", case)
                else:
                    ctx.violation("asf:delete:wrong-result", "delete did not leave exactly: the foreign objects, the four metadata objects empty, "
                                  "an empty Padding Object", case)
                continue
            for it in strict_layout(out)[0]:
                if it[0] == "f" and it[1] == G["fileprops"] and len(it[2]) >= 24:
                    fs = struct.unpack("<Q", it[2][16:24])[0]
                    if fs != len(out):
                        ctx.violation("asf:delete:file-size-stale", "File Properties Object: File Size says %d, the file has %d bytes" % (fs, len(out)), case)
                    break
            # deleting again (freshly loaded) changes nothing; new tags can be saved
            f2 = io.BytesIO(out)
            k2, a2 = timed(lambda: ASF(f2), 20)
            if k2 != "ok" or list(a2.tags):
                ctx.violation("asf:delete:tags-remain", "after delete the file does not load or still has tags", case)
                continue
            f2.seek(0)
            k3, r3 = timed(lambda: a2.delete(f2), 20)
            if k3 != "ok" or f2.getvalue() != out:
                ctx.violation("asf:delete:not-idempotent", "a second delete changed the file or raised", case)
            new = [("Title", ASFUnicodeAttribute("again")), ("WM/Year", ASFUnicodeAttribute("2001")), ("foo", ASFUnicodeAttribute("x", stream=1))]
            a2.tags[:] = new
            off2 = []
            f2.seek(0)
            k4, r4 = timed(lambda: a2.save(f2, padding=make_cb("3", off2)), 20)
            if k4 != "ok":
                ctx.violation("asf:delete:retag-raises", "saving new tags after delete raised", case)
            else:
                check_save(ctx, dict(top=exp_top, rest=lay["rest"]), f2.getvalue(), new, "3", off2,
                           dict(case, _len=len(out), _hlen=len(out) - len(lay["rest"]), step="retag"), op="delete")
            continue
        if not plain_tags_ok(pairs):
            continue
        if op == "save2":
            if k != "ok":
                ctx.violation("asf:save:raises", "%s on a well-formed file with representable tags" % classify(r), case)
            else:
                check_save(ctx, lay, out1, pairs, pad, offered, case)
            continue
        if k != "ok":
            ctx.violation("asf:save:raises", "%s on a well-formed file with representable tags" % impl, case)
            continue
        check_save(ctx, lay, out, pairs, pad, offered, case)
        if pad == "default":
            # C07 through a reload: load the saved file, save again
            f3 = io.BytesIO(out)
            k5, a3 = timed(lambda: ASF(f3), 20)
            if k5 != "ok":
                ctx.violation("asf:save:reload-raises", "the saved file does not load", case)
            else:
                f3.seek(0)
                k6, r6 = timed(lambda: a3.save(f3), 20)
                if k6 != "ok" or f3.getvalue() != out:
                    ctx.violation("asf:save:not-idempotent-reload", "loading the saved file and saving it again (default padding) changed the file or raised", case)
    answers = ask_model(ctx, [r[0] for r in reqs]) if reqs else None
    if answers is None:
        ctx.notes.append("asf_tie: model driver unavailable, tie skipped")
        return ncases
    if any(x == "bad-op" for x in answers):
        ctx.notes.append("asf_tie: the driver does not know the `asf` command yet (not hooked into Driver/Main.lean); tie skipped")
        return ncases
    for (line, impl, desc), ans in zip(reqs, answers):
        if ans.startswith("err notimplemented"):
            ctx.hist["asf:outside-model"] += 1
            continue
        ctx.traces_validated += 1
        if ans != impl:
            ctx.disagree("asf container", desc, model=ans[:300], impl=impl[:300])
    return ncases


# ---------------------------------------------------------------- C19 / C06: the file operations of save and delete
def run_faults(ctx):
    """ASF.save / ASF.delete on a file object with a finite capacity (every remaining-capacity value for small growths), with
    an IOError injected at every call index and with short reads: the real code on fobj.FaultFile against the programs
    `saveM` / `deleteM` of lean/MutagenModel/Model/Container/AsfM.lean (`asf op=savem|deletem … cap= leak= fail= short= B=`):
    same outcome class, same bytes left, same file position, same sequence of file-object calls; and the statements of C19 / C06
    on the real outcome.  Returns the number of cases."""
    import errno
    import fobj
    from mutagen import MutagenError, _util
    from mutagen.asf import ASF, ASFUnicodeAttribute, ASFByteArrayAttribute
    rng = ctx.rng
    BUF_FUNCS = [getattr(_util, n) for n in ("resize_file", "move_bytes", "insert_bytes", "delete_bytes", "resize_bytes")]
    saved_defaults = [f.__defaults__ for f in BUF_FUNCS]

    def set_buffers(B):
        for f, d in zip(BUF_FUNCS, saved_defaults):
            f.__defaults__ = tuple(B if (B and x == _util._DEFAULT_BUFFER_SIZE) else x for x in d) if d else d

    def attempt(data, op, pairs, pad, **faults):
        """a fresh load of the clean bytes, then save / delete on a FaultFile -> (class, bytes left, position, call log)"""
        a = ASF(io.BytesIO(data))
        if op == "save":
            a.tags[:] = pairs
        f = fobj.FaultFile(data, **faults)
        k, r = timed((lambda: a.save(f, padding=make_cb(pad, []))) if op == "save" else (lambda: a.delete(f)), 30)
        cls = "ok" if k == "ok" else "hang" if k == "hang" else classify(r)
        return cls, f.getvalue(), f.pos(), ",".join(f.log) or "-", f

    n = int(os.environ.get("VERIF_ASF_FAULT_CASES", "0")) or ctx.budget(6, 60)
    reqs = []
    ncases = 0
    try:
        for i in range(n):
            if i == 0:
                with open(os.path.join(REPO, "tests", "data", SAMPLES[0]), "rb") as h:
                    data, kind = h.read(), "sample"
            else:
                lay = gen_plain(rng)
                data, kind = render_layout(lay["top"], lay["rest"]), "plain"
            B = rng.choice([0, 0, 64, 257]) if len(data) < 8000 else rng.choice([0, 4096])
            set_buffers(B)
            op = rng.choice(["save", "save", "save", "delete"])
            how = rng.choice(["grow-small", "grow-small", "grow-small", "grow", "grow", "same", "shrink"])
            pad = {"grow-small": "0", "grow": rng.choice(["0", "default", "777"]), "same": "keep", "shrink": "0"}[how]
            pairs = []
            if op == "save":
                pairs = gen_tags(rng, True)
                if how == "grow-small":
                    pairs = list(ASF(io.BytesIO(data)).tags) + [("zz", ASFUnicodeAttribute("g" * rng.choice([0, 1, 5])))]
                elif how == "grow":
                    pairs.append(("WM/Picture", ASFByteArrayAttribute(rbytes(rng, rng.choice([300, 1500])))))
                elif how == "same":
                    pairs = list(ASF(io.BytesIO(data)).tags)
                elif how == "shrink":
                    pairs = pairs[:1]
            tagstr = enc_tags(pairs)
            base = "asf op=%s data=%s%s B=%d" % ("savem" if op == "save" else "deletem", hx(data),
                                                 " tags=%s pad=%s" % (tagstr, pad) if op == "save" else "", B or 1048576)
            desc = dict(kind=kind, op=op, how=how, pad=pad, B=B, data=hx(data) if len(data) < 1200 else "len=%d" % len(data),
                        tags=tagstr if len(tagstr) < 300 else "len=%d" % len(tagstr))
            # ---- the reference run: no fault, no limit
            cls0, out0, pos0, log0, f0 = attempt(data, op, pairs, pad)
            reqs.append((base, "%s data=%s pos=%d log=%s" % ("ok" if cls0 == "ok" else cls0, hx(out0), pos0, log0), dict(desc, faults="none")))
            ncases += 1
            ctx.case(key=("asf-faults", op, how, i), nontrivial=(out0 != data), modelled=True, sample=desc if i == 1 else None)
            if cls0 != "ok":
                ctx.hist["asf:faults:reference:" + cls0] += 1
                continue
            growth = len(out0) - len(data)
            ncalls = len(f0.log)
            ctx.hist["asf:faults:%s:%s" % (op, "grows" if growth > 0 else "shrinks" if growth < 0 else "same-size")] += 1
            # ---- C19: every remaining-capacity value (sampled for large growths), two leak values
            if growth > 0:
                rs = list(range(growth + 1)) if growth <= 40 else sorted(set([0, 1, 2, growth // 2, growth - 1, growth, growth + 1] +
                                                                          [rng.randrange(growth) for _ in range(6)]))
                for r in rs:
                    for leak in (0, 3):
                        cls, after, pos, log, _ = attempt(data, op, pairs, pad, cap=len(data) + r, leak=leak)
                        case = dict(desc, cap=len(data) + r, room=r, growth=growth, leak=leak)
                        ncases += 1
                        ctx.hist["asf:faults:cap:" + cls] += 1
                        reqs.append(("%s cap=%d leak=%d" % (base, len(data) + r, leak), "%s data=%s pos=%d log=%s" % (cls, hx(after), pos, log), case))
                        if r >= growth:
                            if cls != "ok" or after != out0:
                                ctx.violation("asf:%s:enospc:fails-with-enough-space" % op, "the growth fits, but the call %s" % (
                                    "raised " + cls if cls != "ok" else "left a different file"), case)
                        elif cls == "ok":
                            ctx.violation("asf:%s:enospc:returns-normally-on-full-device" % op, "returned normally although the device is full", case)
                        else:
                            if cls != "err mutagen":
                                ctx.violation("asf:%s:enospc:raises" % op, "ENOSPC surfaced as %s" % cls, case)
                            if after != data:
                                ctx.violation("asf:%s:enospc:file-modified" % op, "the file changed although the call failed (%d -> %d bytes)" % (
                                    len(data), len(after)), case)
            # ---- C06: an IOError at every call (sampled when there are many), short reads at the reads
            idx = list(range(ncalls)) if ncalls <= 45 else sorted(set(list(range(12)) + [ncalls - 1, ncalls - 2] + [rng.randrange(ncalls) for _ in range(20)]))
            for j in idx:
                cls, after, pos, log, _ = attempt(data, op, pairs, pad, fail_at=j, errno_=errno.EIO)
                case = dict(desc, fail_at=j, call=f0.log[j])
                ncases += 1
                ctx.hist["asf:faults:fail:" + cls] += 1
                reqs.append(("%s fail=%d:io" % (base, j), "%s data=%s pos=%d log=%s" % (cls, hx(after), pos, log), case))
                if cls == "ok":
                    ctx.violation("asf:%s:fault:swallowed" % op, "an IOError at call %d (%s) was swallowed" % (j, f0.log[j]), case)
                elif cls not in ("err mutagen", "err value"):
                    ctx.violation("asf:%s:fault:escape" % op, "an IOError at call %d (%s) surfaced as %s" % (j, f0.log[j], cls), case)
            reads = [j for j, c in enumerate(f0.log) if c.startswith("r") and c != "r0"]
            for j in (reads if len(reads) <= 12 else reads[:4] + rng.sample(reads[4:], 8)):
                for kshort in (0, 7):
                    cls, after, pos, log, _ = attempt(data, op, pairs, pad, short=(j, kshort))
                    case = dict(desc, short_at=j, short_to=kshort, call=f0.log[j])
                    ncases += 1
                    ctx.hist["asf:faults:short:" + cls] += 1
                    reqs.append(("%s short=%d:%d" % (base, j, kshort), "%s data=%s pos=%d log=%s" % (cls, hx(after), pos, log), case))
                    if cls == "ok" and after != out0:
                        ctx.violation("asf:%s:short-read:incomplete" % op, "returned normally after a short read with a file that is not the complete new state", case)
                    elif cls not in ("ok", "err mutagen", "err value"):
                        ctx.violation("asf:%s:short-read:escape" % op, "a short read at call %d surfaced as %s" % (j, cls), case)
    finally:
        set_buffers(0)
    answers = ask_model(ctx, [r[0] for r in reqs]) if reqs else None
    if answers is None:
        ctx.notes.append("asf_tie.run_faults: model driver unavailable, tie skipped")
        return ncases
    if any(x == "bad-op" for x in answers):
        ctx.notes.append("asf_tie.run_faults: the driver does not know `asf op=savem`; tie skipped")
        return ncases
    for (line, impl, desc), ans in zip(reqs, answers):
        ctx.traces_validated += 1
        if ans != impl:
            ctx.disagree("asf save/delete on the file object", desc, model=ans[:300] + " … " + ans[-120:], impl=impl[:300] + " … " + impl[-120:])
    return ncases


# ---------------------------------------------------------------- C06: the file operations of the load
def run_load_faults(ctx):
    """ASF(fileobj) on fobj.FaultFile: an IOError injected at every call index, a short read (budget 0, 1, n/2) at every read,
    against the program `loadM` of lean/MutagenModel/Model/Container/AsfM.lean (`asf op=loadm data=… fail=<i>:io | short=<i>:<k>`):
    same outcome class (and, on success, the same object tree and tags), same bytes, same position, same sequence of file-object
    calls; and the statements of C06 on the real outcome: only MutagenError (ValueError from verify_fileobj's read(0)) leaves, the
    file is untouched, the caller's file object is not closed, a short read is never taken for the end of the file.
    Returns the number of cases."""
    import errno, re
    import fobj
    from mutagen import MutagenError
    from mutagen.asf import ASF
    rng = ctx.rng

    def attempt(data, **faults):
        f = fobj.FaultFile(data, **faults)
        k, r = timed(lambda: ASF(f), 30)
        head = real_walk(r) if k == "ok" else "hang" if k == "hang" else classify(r)
        log = ",".join(re.sub(r"^r-\d+$", "r0", c) for c in f.log) or "-"
        return head, f, log

    def line_of(head, f, log):
        huge = any(c.startswith("r") and len(c) > 19 for c in f.log)      # read(n) with n >= 2**63: OverflowError, position not moved
        return "%s data=%s pos=%s log=%s" % (head, hx(f.getvalue()), "*" if huge else f.pos(), log), huge

    n = int(os.environ.get("VERIF_ASF_LOAD_CASES", "0")) or ctx.budget(25, 250)
    reqs = []
    ncases = 0
    for i in range(n):
        if i < len(SAMPLES):
            with open(os.path.join(REPO, "tests", "data", SAMPLES[i]), "rb") as h:
                data, kind = h.read(), "sample"
        else:
            data, kind, _lay = gen_file(rng)
            if len(data) > 20000:
                data = data[:rng.choice([3000, 20000])]
        desc = dict(kind=kind, op="load", data=hx(data) if len(data) < 1200 else "len=%d" % len(data))
        head0, f0, log0 = attempt(data)
        ncases += 1
        ctx.case(key=("asf-load-faults", kind, i), nontrivial=head0.startswith("ok"), modelled=True, sample=desc if i == 4 else None)
        ctx.hist["asf:loadfaults:clean:" + head0.split(" ")[0] + ("" if head0.startswith("ok") else " " + head0.split(" ")[-1])] += 1
        l0, huge0 = line_of(head0, f0, log0)
        reqs.append(("asf op=loadm data=%s" % hx(data), l0, dict(desc, faults="none"), huge0))
        if not head0.startswith("ok") and head0 != "err mutagen":
            ctx.violation("asf:load:escape", "ASF(file) raised %s, not a MutagenError" % head0, desc)
        calls = list(f0.log)
        idx = list(range(len(calls))) if len(calls) <= 40 else sorted(set(list(range(10)) + [len(calls) - 1] + [rng.randrange(len(calls)) for _ in range(20)]))
        for j in idx:
            head, f, log = attempt(data, fail_at=j, errno_=errno.EIO)
            case = dict(desc, fail_at=j, call=calls[j])
            ncases += 1
            ctx.hist["asf:loadfaults:fail:" + head.split(" objs=")[0]] += 1
            l, huge = line_of(head, f, log)
            reqs.append(("asf op=loadm data=%s fail=%d:io" % (hx(data), j), l, case, huge))
            if head.startswith("ok"):
                ctx.violation("asf:load:fault:swallowed", "an IOError at call %d (%s) was swallowed" % (j, calls[j]), case)
            elif head != "err mutagen" and not (head == "err value" and j == 0):
                ctx.violation("asf:load:fault:escape", "an IOError at call %d (%s) surfaced as %s" % (j, calls[j], head), case)
            if f.getvalue() != data:
                ctx.violation("asf:load:file-modified", "the load changed the file", case)
            if f.closed_called:
                ctx.violation("asf:load:closed", "the load closed the caller's file object", case)
        reads = [j for j, c in enumerate(calls) if c.startswith("r") and not c.startswith("r-") and c != "r0"]
        for j in (reads if len(reads) <= 14 else reads[:6] + rng.sample(reads[6:], 8)):
            want = int(calls[j][1:])
            for kshort in sorted(set([0, 1, want // 2])):
                if kshort >= want:
                    continue
                head, f, log = attempt(data, short=(j, kshort))
                case = dict(desc, short_at=j, short_to=kshort, call=calls[j])
                ncases += 1
                ctx.hist["asf:loadfaults:short:" + head.split(" objs=")[0]] += 1
                l, huge = line_of(head, f, log)
                reqs.append(("asf op=loadm data=%s short=%d:%d" % (hx(data), j, kshort), l, case, huge))
                if head.startswith("ok") and head != head0:
                    ctx.violation("asf:load:short-read:taken-for-eof", "a short read at call %d (%s -> %d bytes) gave a different, normal load" % (
                        j, calls[j], kshort), case)
                elif not head.startswith("ok") and head != "err mutagen":
                    ctx.violation("asf:load:short-read:escape", "a short read at call %d surfaced as %s" % (j, head), case)
                if f.getvalue() != data or f.closed_called:
                    ctx.violation("asf:load:file-modified", "the load changed or closed the file", case)
    answers = ask_model(ctx, [r[0] for r in reqs]) if reqs else None
    if answers is None:
        ctx.notes.append("asf_tie.run_load_faults: model driver unavailable, tie skipped")
        return ncases
    if any(x == "bad-op" for x in answers):
        ctx.notes.append("asf_tie.run_load_faults: the driver does not know `asf op=loadm`; tie skipped")
        return ncases
    for (line, impl, desc, huge), ans in zip(reqs, answers):
        ctx.traces_validated += 1
        if huge:
            ans = re.sub(r" pos=\d+ ", " pos=* ", ans)
        if ans != impl:
            ctx.disagree("asf load on the file object", desc, model=ans[:260] + " … " + ans[-100:], impl=impl[:260] + " … " + impl[-100:])
    return ncases
