"""formats.py — the format zoo: every taggable (and untaggable) mutagen type with its
sample files and family-specific ways of setting / reading tags, all in memory."""
import io, os, importlib


class NamedBytesIO(io.BytesIO):
    """in-memory file with a .name (what File() and score() see as the file name)"""
    def __init__(self, data=b"", name=None):
        io.BytesIO.__init__(self, data)
        if name is not None:
            self.name = name


class Fmt(object):
    def __init__(self, kind, path, samples, family, exts=(), padding=False, easy=None):
        self.kind = kind; self.path = path; self.samples = samples; self.family = family
        self.exts = exts; self.padding = padding; self.easy = easy

    @property
    def cls(self):
        mod, name = self.path.rsplit(".", 1)
        return getattr(importlib.import_module(mod), name)

    def __repr__(self):
        return "Fmt(%s)" % self.kind


FORMATS = [
    Fmt("MP3", "mutagen.mp3.MP3", ["silence-44-s.mp3", "xing.mp3", "lame.mp3", "no-tags.mp3", "vbri.mp3",
                                    "silence-44-s-mpeg2.mp3", "silence-44-s-mpeg25.mp3", "silence-44-s-v1.mp3",
                                    "id3v1v2-combined.mp3", "apev2-lyricsv2.mp3", "id3v22-test.mp3"], "id3",
        (".mp3", ".mp2", ".mpg", ".mpeg"), padding=True, easy="mutagen.mp3.EasyMP3"),
    Fmt("TrueAudio", "mutagen.trueaudio.TrueAudio", ["empty.tta"], "id3", (".tta",), padding=True,
        easy="mutagen.trueaudio.EasyTrueAudio"),
    Fmt("FLAC", "mutagen.flac.FLAC", ["silence-44-s.flac", "no-tags.flac", "flac_application.flac", "variable-block.flac",
                                       "52-overwritten-metadata.flac"], "vorbis", (".flac",), padding=True),
    Fmt("OggVorbis", "mutagen.oggvorbis.OggVorbis", ["empty.ogg", "multipagecomment.ogg", "multipage-setup.ogg"], "vorbis",
        (".ogg",), padding=True),
    Fmt("OggOpus", "mutagen.oggopus.OggOpus", ["example.opus"], "vorbis", (".opus",), padding=True),
    Fmt("OggSpeex", "mutagen.oggspeex.OggSpeex", ["empty.spx", "multiplexed.spx"], "vorbis", (".spx",), padding=True),
    Fmt("OggTheora", "mutagen.oggtheora.OggTheora", ["sample.oggtheora", "sample_length.oggtheora", "sample_bitrate.oggtheora"],
        "vorbis", (".ogv",), padding=True),
    Fmt("OggFLAC", "mutagen.oggflac.OggFLAC", ["empty.oggflac"], "vorbis", (".oga",)),
    Fmt("MP4", "mutagen.mp4.MP4", ["has-tags.m4a", "no-tags.m4a", "alac.m4a", "covr-with-name.m4a", "ep7.m4b", "ep9.m4b",
                                    "nero-chapters.m4b", "no-tags.3g2"], "mp4", (".m4a", ".mp4"), padding=True,
        easy="mutagen.easymp4.EasyMP4"),
    Fmt("ASF", "mutagen.asf.ASF", ["silence-1.wma", "silence-2.wma", "silence-3.wma"], "asf", (".wma",), padding=True),
    Fmt("WavPack", "mutagen.wavpack.WavPack", ["silence-44-s.wv", "no_length.wv", "dsd.wv"], "ape", (".wv",)),
    Fmt("Musepack", "mutagen.musepack.Musepack", ["click.mpc", "sv4_header.mpc", "sv5_header.mpc", "sv8_header.mpc"], "ape",
        (".mpc",)),
    Fmt("MonkeysAudio", "mutagen.monkeysaudio.MonkeysAudio", ["mac-399.ape", "mac-396.ape", "mac-390-hdr.ape"], "ape", (".ape",)),
    Fmt("OptimFROG", "mutagen.optimfrog.OptimFROG", ["empty.ofr", "empty.ofs", "silence-2s-44100-16.ofr",
                                                      "silence-2s-44100-16.ofs"], "ape", (".ofr", ".ofs")),
    Fmt("TAK", "mutagen.tak.TAK", ["silence-44-s.tak", "has-tags.tak"], "ape", (".tak",)),
    Fmt("AIFF", "mutagen.aiff.AIFF", ["with-id3.aif", "11k-1ch-2s-silence.aif", "8k-1ch-1s-silence.aif", "48k-2ch-s16-silence.aif",
                                       "8k-4ch-1s-silence.aif", "8k-1ch-3.5s-silence.aif"], "id3", (".aif", ".aiff", ".aifc"),
        padding=True),
    Fmt("WAVE", "mutagen.wave.WAVE", ["silence-2s-PCM-16000-08-ID3v23.wav", "silence-2s-PCM-16000-08-notags.wav",
                                       "silence-2s-PCM-44100-16-ID3v23.wav"], "id3", (".wav", ".wave"), padding=True),
    Fmt("DSF", "mutagen.dsf.DSF", ["with-id3.dsf", "without-id3.dsf", "2822400-1ch-0s-silence.dsf", "5644800-2ch-s01-silence.dsf"],
        "id3", (".dsf",), padding=True),
    Fmt("DSDIFF", "mutagen.dsdiff.DSDIFF", ["2822400-1ch-0s-silence.dff", "5644800-2ch-s01-silence.dff",
                                             "5644800-2ch-s01-silence-dst.dff"], "id3", (".dff",), padding=True),
    Fmt("AAC", "mutagen.aac.AAC", ["empty.aac", "adif.aac"], "none", (".aac", ".adts", ".adif")),
    Fmt("AC3", "mutagen.ac3.AC3", ["silence-44-s.ac3", "silence-44-s.eac3"], "none", (".ac3", ".eac3")),
    Fmt("SMF", "mutagen.smf.SMF", ["sample.mid"], "none", (".mid", ".midi")),
]
BY_KIND = {f.kind: f for f in FORMATS}
TAGGABLE = [f for f in FORMATS if f.family != "none"]

_cache = {}


def sample_bytes(repo, name):
    key = (repo, name)
    if key not in _cache:
        with open(os.path.join(repo, "tests", "data", name), "rb") as f:
            _cache[key] = f.read()
    return _cache[key]


def load(fmt, data, name=None):
    """-> (object, fileobj)"""
    fobj = NamedBytesIO(data, name)
    obj = fmt.cls(fobj)
    return obj, fobj


def ensure_tags(obj):
    if obj.tags is None:
        obj.add_tags()


KEYS = {
    "vorbis": ["title", "artist", "album", "comment", "x-verif"],
    "ape": ["Title", "Artist", "Album", "Comment", "X-Verif"],
    "mp4": ["\xa9nam", "\xa9ART", "\xa9alb", "\xa9cmt", "----:com.verif:x"],
    "asf": ["Title", "Author", "WM/AlbumTitle", "Description", "X-Verif"],
    "id3": ["TIT2", "TPE1", "TALB", "COMM", "TXXX"],
}


def put(fmt, obj, n, text):
    """set the n-th standard text key of the family to `text` (a str)"""
    ensure_tags(obj)
    fam = fmt.family
    key = KEYS[fam][n % 5]
    if fam == "id3":
        from mutagen import id3
        if key == "COMM":
            obj.tags.add(id3.COMM(encoding=3, lang="eng", desc="", text=[text]))
        elif key == "TXXX":
            obj.tags.add(id3.TXXX(encoding=3, desc="verif", text=[text]))
        else:
            obj.tags.add(getattr(id3, key)(encoding=3, text=[text]))
    elif fam == "mp4":
        if key.startswith("----"):
            obj.tags[key] = [text.encode("utf-8")]
        else:
            obj.tags[key] = [text]
    elif fam == "asf":
        obj.tags[key] = [text]
    elif fam == "ape":
        obj.tags[key] = text
    else:
        obj.tags[key] = [text]


def snapshot(fmt, obj):
    """canonical, comparable view of the tags"""
    if obj.tags is None or len(obj.tags.keys()) == 0:
        return None           # "an empty tag reads as no tag"
    fam = fmt.family
    out = {}
    if fam == "id3":
        for k, fr in obj.tags.items():
            out[k] = repr(fr)
        return out
    for k in obj.tags.keys():
        v = obj.tags[k]
        if fam == "ape":
            out[k.lower()] = (v.kind, bytes(v.value) if isinstance(v.value, (bytes, bytearray)) else v.value)
        elif fam == "asf":
            out[k] = [(type(x).__name__, x.value if not isinstance(x.value, (bytes, bytearray)) else bytes(x.value),
                       x.language or 0, x.stream or 0) for x in v]
        elif fam == "mp4":
            out[k] = [bytes(x) if isinstance(x, (bytes, bytearray)) else x for x in v] if isinstance(v, list) else v
        else:
            out[k] = list(v)
    return out


def is_empty_tags(fmt, obj):
    return obj.tags is None or len(obj.tags.keys()) == 0


def save(obj, fobj, **kw):
    fobj.seek(0)
    obj.save(fobj, **kw)


def delete(obj, fobj):
    fobj.seek(0)
    obj.delete(fobj)


def info_snapshot(obj):
    """header-derived stream information (floats compared as produced: same expression, same integers)"""
    out = {}
    for attr in ("sample_rate", "channels", "bits_per_sample", "length", "bitrate", "version", "layer", "mode",
                 "total_samples", "codec", "sample_size", "fps", "serial", "total_frames", "bitrate_mode"):
        if hasattr(obj.info, attr):
            v = getattr(obj.info, attr)
            out[attr] = repr(v)
    return out
