"""id3file_tie.py — correspondence of the Lean model of free-standing ID3 files
(lean/MutagenModel/Model/Container/Id3File.lean) with ID3.save / mutagen.id3.delete, and the
statements of the container properties on the real output for synthesised layouts
[ID3v2 tag?][audio][APEv2?][ID3v1 (128 or legacy 124-127 bytes)?]."""
import io, struct
from vcheck import hx, parse_fields
from guards import timed


def syncsafe(n):
    return bytes([(n >> 21) & 0x7F, (n >> 14) & 0x7F, (n >> 7) & 0x7F, n & 0x7F])


def v1_block(rng, n=128):
    b = b"TAG" + b"t".ljust(30, b"\0") + b"a".ljust(30, b"\0") + b"l".ljust(30, b"\0") + b"2001" + b"c".ljust(29, b"\0") + b"\x01\x0c"
    if n < 128:
        b = b[:93] + b[93:97][:n - 124] + b[97:]
    return b


def gen_file(rng):
    """-> (bytes, description)"""
    kind = rng.choice(["none", "v24", "v23", "v22", "v24pad", "bad-version", "bad-size", "bad-flags", "short", "huge-size", "ext"])
    body = bytes(rng.randrange(256) for _ in range(rng.choice([0, 1, 11, 40, 300])))
    if kind == "none":
        tag = b""
    elif kind == "short":
        tag = b"ID3\x04\x00"[:rng.randrange(1, 6)]
    else:
        vmaj = {"v24": 4, "v24pad": 4, "v23": 3, "v22": 2, "bad-version": rng.choice([0, 1, 5, 255]), "bad-size": 4,
                "bad-flags": rng.choice([3, 4]), "huge-size": 4, "ext": rng.choice([3, 4])}[kind]
        flags = 0
        if kind == "bad-flags":
            flags = rng.choice([0x01, 0x08, 0x10 if vmaj == 3 else 0x0f])
        if kind == "ext":
            flags = 0x40
        if kind == "ext":
            # what follows an extended-header flag: a frame id (the tagger's mistake mutagen tolerates), a plausible extended
            # header, or sizes that are not syncsafe / below 4 / beyond the data
            ext = rng.choice([b"TIT2", b"TXXX", b"\0\0\0\x06" + b"\x01\0", b"\0\0\0\x0a" + b"\0" * 6, b"\0\0\0\x03", b"\0\0\0\x04",
                              b"\0\0\x80\x06ab", b"\0\0\x7f\x7f", b"\xff\xff\xff\xff", b"\0\0", b"", b"\0\0\0\x00", b"TIT\xe9"])
            body = ext + (body if rng.random() < 0.7 else b"")
        if kind == "v24pad":
            body += b"\0" * rng.choice([1, 10, 1000])
        size = syncsafe(len(body))
        if kind == "bad-size":
            size = bytes([0x80, 0, 0, len(body) & 0x7F])
        if kind == "huge-size":
            size = syncsafe(len(body) + rng.choice([1, 5000]))
        tag = b"ID3" + bytes([vmaj, 0, flags]) + size + body
    tails = [b"", b"TAG", b"xTAG", b"TA", b"APETAGEX", b"zzAPETAGEXyy", b"TAGTAG"]
    audio = bytes(rng.randrange(256) for _ in range(rng.choice([0, 3, 50, 130, 131, 132, 400]))) + rng.choice(tails)
    v1kind = rng.choice(["none", "none", "128", "128", "127", "126", "125", "124", "ape131", "ape130", "ape128"])
    if v1kind == "none":
        v1 = b""
    elif v1kind.startswith("ape"):
        n = int(v1kind[3:])
        room = n - 64 - 8 - 3 - 1
        item = struct.pack("<2L", room, 0) + b"Key" + b"\0" + b"v" * room
        v1 = b"APETAGEX" + struct.pack("<4L", 2000, len(item) + 32, 1, 0xA0000000) + b"\0" * 8 + item + \
            b"APETAGEX" + struct.pack("<4L", 2000, len(item) + 32, 1, 0x80000000) + b"\0" * 8
    else:
        v1 = v1_block(rng, int(v1kind))
    return tag + audio + v1, {"tag": kind, "audio_len": len(audio), "tail": v1kind, "tag_len": len(tag)}


def pad_arg(choice):
    if choice == "default":
        return None
    if choice == "keep":
        return lambda info: max(info.padding, 0)
    return lambda info: int(choice)


ERR = {"MutagenError": "mutagen", "ValueError": "value", "IndexError": "index", "error": "struct"}


def classify(exc):
    from mutagen import MutagenError
    if isinstance(exc, MutagenError):
        return "err:mutagen"
    return "err:" + ERR.get(type(exc).__name__, type(exc).__name__)


def run(ctx):
    """model tie + the container statements on the real output; returns the number of cases"""
    from mutagen import id3 as I
    from mutagen.id3._tags import ID3SaveConfig
    from mutagen.id3._id3v1 import MakeID3v1
    rng = ctx.rng
    reqs = []
    n = ctx.budget(150, 1500)
    texts = ["x", "", "Ünï ✓", "a" * 300, "b" * 5000]
    for i in range(n):
        data, desc = gen_file(rng)
        op = rng.choice(["save", "save", "save", "delete"])
        if op == "save":
            tags = I.ID3()
            for _ in range(rng.randrange(0, 4)):
                tags.add(rng.choice([I.TIT2, I.TPE1, I.TALB])(encoding=3, text=[rng.choice(texts)]))
            if rng.random() < 0.5:
                tags.add(I.COMM(encoding=3, lang="eng", desc="", text=[rng.choice(texts)]))
            vmaj = rng.choice([3, 4])
            v1opt = rng.choice([0, 1, 2])
            pad = rng.choice(["default", "default", "keep", "0", "1", "777", "-1", "20000"])
            cfg = ID3SaveConfig(vmaj, "/")
            f = io.BytesIO(data)
            # the frames ID3.save renders (v2.3: after the conversion save does not do itself - the caller's frames are written as they are)
            frames = bytes(tags._write(cfg))
            v1blk = MakeID3v1(tags)
            k, r = timed(lambda: tags.save(f, v1=v1opt, v2_version=vmaj, padding=pad_arg(pad)), 20)
            line = "id3f op=save data=%s vmaj=%d frames=%s pad=%s v1opt=%d v1blk=%s" % (hx(data), vmaj, hx(frames), pad, v1opt, hx(v1blk))
            case = dict(desc, op="save", vmaj=vmaj, v1opt=v1opt, pad=pad, frames_len=len(frames), data=hx(data) if len(data) < 1500 else "len=%d" % len(data))
        else:
            dv1, dv2 = rng.random() < 0.7, rng.random() < 0.8
            f = io.BytesIO(data)
            k, r = timed(lambda: I.delete(f, dv1, dv2), 20)
            line = "id3f op=delete data=%s v1=%d v2=%d" % (hx(data), int(dv1), int(dv2))
            case = dict(desc, op="delete", delete_v1=dv1, delete_v2=dv2, data=hx(data) if len(data) < 1500 else "len=%d" % len(data))
        if k == "hang":
            ctx.violation("id3file:%s:hang" % op, "did not finish", case); continue
        out = f.getvalue()
        impl = "ok v=%s" % hx(out) if k == "ok" else classify(r).replace(":", " ")
        ctx.case(key=("id3file", op, i, len(data)), nontrivial=(k == "ok" and out != data), modelled=True,
                 sample=case if i in (3, 40) else None)
        ctx.hist["id3file:%s:%s" % (op, "ok" if k == "ok" else impl)] += 1
        ctx.hist["id3file:tag:" + desc["tag"]] += 1
        ctx.hist["id3file:tail:" + desc["tail"]] += 1
        reqs.append((line, impl, case))
        # the property-level statements on the real output, for layouts that are what they seem
        if k == "ok" and desc["tag"] in ("none", "v24", "v23", "v22", "v24pad") and desc["tail"] in ("none", "128"):
            tag_len = desc["tag_len"]
            audio = data[tag_len:len(data) - (128 if desc["tail"] == "128" else 0)]
            if audio[-3:] == b"TAG" or b"TAG" in audio[-131:] or b"APETAGEX" in audio[-131:]:
                continue        # look-alike bytes: decided by the model tie only
            if op == "delete":
                exp = (data[:tag_len] if not dv2 else b"") + audio + (data[len(data) - 128:] if (desc["tail"] == "128" and not dv1) else b"")
                if out != exp:
                    ctx.violation("id3file:delete:wrong-result", "delete(v1=%s, v2=%s) did not leave exactly the untouched parts" % (dv1, dv2), case)
            else:
                if len(out) < 10 or out[:3] != b"ID3" or out[3] != vmaj:
                    ctx.violation("id3file:save:no-header", "no ID3v2.%d header at the start" % vmaj, case); continue
                size = (out[6] << 21) | (out[7] << 14) | (out[8] << 7) | out[9]
                if any(b & 0x80 for b in out[6:10]):
                    ctx.violation("id3file:save:size-not-syncsafe", "size bytes %s" % out[6:10].hex(), case)
                if out[10:10 + len(frames)] != frames or out[10 + len(frames):10 + size].strip(b"\0"):
                    ctx.violation("id3file:save:tag-body", "the tag body is not the frames followed by zero padding", case)
                rest = out[10 + size:]
                had_v1 = desc["tail"] == "128"
                want_v1 = (v1opt == 2) or (v1opt == 1 and had_v1)
                exp_rest = audio + (v1blk if want_v1 else b"")
                if rest != exp_rest:
                    ctx.violation("id3file:save:audio-or-v1", "what follows the tag is not the audio followed by the expected ID3v1 block "
                                  "(%d bytes vs %d expected)" % (len(rest), len(exp_rest)), case)
    if ctx.model_ok() and reqs:
        answers = ctx.driver.ask([r[0] for r in reqs])
        for (line, impl, case), ans in zip(reqs, answers):
            if ans.startswith("err notimplemented"):
                ctx.hist["id3file:outside-model"] += 1
                continue
            ctx.traces_validated += 1
            if ans != impl:
                ctx.disagree("id3 file container", case, model=ans[:200], impl=impl[:200])
    return len(reqs)


# ---------------------------------------------------------------------------------------------------------------------
# C19 / C06 at the file-operation level: the FileM programs `saveM` / `deleteM` (Model/Container/Id3FileM.lean, driver
# `id3f op=savem|deletem`) against ID3.save / mutagen.id3.delete on a fault-injecting, capacity-limited file object.

def gen_layout(rng):
    """a well-formed [ID3v2 tag?][audio >= 131 bytes][ID3v1 128 / legacy 124..127 / none] -> (bytes, description)"""
    kind = rng.choice(["none", "none", "v24", "v24", "v23", "v22", "v24pad"])
    if kind == "none":
        tag = b""
    else:
        body = bytes(rng.randrange(256) for _ in range(rng.choice([0, 1, 11, 40])))
        if kind == "v24pad":
            body += b"\0" * rng.choice([10, 300, 1500])
        tag = b"ID3" + bytes([{"v24": 4, "v24pad": 4, "v23": 3, "v22": 2}[kind], 0, 0]) + syncsafe(len(body)) + body
    # audio without look-alike bytes near its end
    audio = b"\xff\xfb\x90\x00" + bytes(rng.choice(b"\x55\xaa\x11\x22") for _ in range(rng.choice([127, 130, 200, 700])))
    v1kind = rng.choice(["none", "none", "128", "128", "124", "126"])
    v1 = b"" if v1kind == "none" else v1_block(rng, int(v1kind))
    return tag + audio + v1, {"tag": kind, "tag_len": len(tag), "audio_len": len(audio), "tail": v1kind}


def _classify(k, r):
    if k == "ok":
        return "ok"
    if k == "hang":
        return "hang"
    return classify(r).replace(":", " ").replace("err ", "err:")


def _set_buffers(mode):
    """a small copy buffer substituted for the 1 MiB default of the _util functions (as harness/props/c19.py does)"""
    from mutagen import _util
    funcs = [getattr(_util, n) for n in ("resize_file", "move_bytes", "insert_bytes", "delete_bytes", "resize_bytes")]
    if not hasattr(_set_buffers, "saved"):
        _set_buffers.saved = [f.__defaults__ for f in funcs]
    for f, d in zip(funcs, _set_buffers.saved):
        if mode == "small" and d:
            f.__defaults__ = tuple(257 if x == _util._DEFAULT_BUFFER_SIZE else x for x in d)
        else:
            f.__defaults__ = d


def _same_log(model_log, impl_log):
    # the model writes the relative seek(-4, 1) of the extended-header branch with its absolute target
    return len(model_log) == len(impl_log) and all(a == b or (b.startswith("s-") and a.startswith("s")) for a, b in zip(model_log, impl_log))


def repro_v1_append():
    """the C19 defect of ID3.save, on the real code: the ID3v1 block is written AFTER the new ID3v2 tag is in place; when that
    write has to lengthen the file and the device is full, save() raises MutagenError and the file is not what it was.
    -> list of (description, raised, file_changed)"""
    from fobj import FaultFile
    from mutagen import id3 as I, MutagenError
    out = []
    audio = b"\xff\xfb\x90\x00" + b"\x55" * 200
    tag = b"ID3\x04\x00\x00" + syncsafe(13) + b"\0" * 13
    for desc, data, cap, kw in [
            ("v1=2 (CREATE), no ID3v1 block: room for the tag, not for the block", audio, len(audio) + 23 + 127, {"v1": 2}),
            ("default options, legacy 124-byte ID3v1 block: the rewritten block is 4 bytes longer", tag + audio + v1_block(None, 124),
             len(tag + audio) + 124 + 3, {})]:
        tags = I.ID3(); tags.add(I.TIT2(encoding=3, text=["x"]))
        f = FaultFile(data, cap=cap, leak=5)
        try:
            tags.save(f, padding=lambda i: 0, **kw); raised = None
        except MutagenError as e:
            raised = "MutagenError"
        out.append((desc, raised, f.getvalue() != data))
    return out


def run_faults(ctx, want=("cap", "io", "short")):
    """generated layouts x (every remaining capacity 0..growth for small growths, a lattice otherwise; leak 0/5/all) x (an IOError
    at every call index) x (short reads at every read index): the real ID3.save / delete on FaultFile vs the Lean programs under the
    same environment — same outcome class, same bytes left, same sequence of file-object calls; and the C19/C06 statements
    evaluated on the real outcome.  Returns the number of compared runs."""
    import errno
    from fobj import FaultFile
    from mutagen import id3 as I, MutagenError
    from mutagen.id3._tags import ID3SaveConfig
    from mutagen.id3._id3v1 import MakeID3v1
    rng = ctx.rng
    jobs = []          # (driver line, impl status, impl bytes, impl log, case)
    seen = set()

    def violation(key, what, case, li):
        # one report per (finding, layout): the capacities / call indices of one layout repeat the same finding
        if (key, li) not in seen:
            seen.add((key, li))
            ctx.violation(key, what, case)
    n_layouts = ctx.budget(60, 500)
    texts = ["x", "Ünï ✓", "a" * 40, "b" * 300, "c" * 1200]
    try:
        for li in range(n_layouts):
            wellformed = rng.random() < 0.75
            if wellformed:
                data, desc = gen_layout(rng)
            else:
                # any file: look-alike bytes, damaged / extended headers, APEv2 tails (the programs are total)
                data, desc = gen_file(rng)
                if desc["tag"] == "huge-size":
                    continue        # header announcing more than the file holds: outside the model (`notImplemented`)
            op = rng.choice(["save", "save", "save", "delete"])
            bufmode = rng.choice(["default", "small", "small"])
            B = 257 if bufmode == "small" else 1048576
            _set_buffers(bufmode)
            if op == "save":
                vmaj = rng.choice([3, 4]); v1opt = rng.choice([0, 1, 1, 2])
                pad = rng.choice(["0", "0", "keep", "default", "33"])
                text = rng.choice(texts)
                def mk():
                    t = I.ID3()
                    t.add(I.TIT2(encoding=3, text=[text]))
                    return t
                tags = mk()
                frames = bytes(tags._write(ID3SaveConfig(vmaj, "/")))
                v1blk = MakeID3v1(tags)
                base = "id3f op=savem data=%s vmaj=%d frames=%s pad=%s v1opt=%d v1blk=%s B=%d" % (
                    hx(data), vmaj, hx(frames), pad, v1opt, hx(v1blk), B)
                def go(f):
                    mk().save(f, v1=v1opt, v2_version=vmaj, padding=pad_arg(pad))
                cdesc = dict(desc, op="save", vmaj=vmaj, v1opt=v1opt, pad=pad, frames_len=len(frames), buffers=bufmode)
            else:
                dv1, dv2 = rng.random() < 0.7, rng.random() < 0.8
                base = "id3f op=deletem data=%s v1=%d v2=%d B=%d" % (hx(data), int(dv1), int(dv2), B)
                def go(f):
                    I.delete(f, dv1, dv2)
                cdesc = dict(desc, op="delete", delete_v1=dv1, delete_v2=dv2, buffers=bufmode)
            cdesc["data"] = hx(data) if len(data) < 1200 else "len=%d" % len(data)
            ref = FaultFile(data)
            k0, r0 = timed(lambda: go(ref), 20)
            if k0 != "ok":
                if wellformed:
                    ctx.notes.append("id3file faults: reference %s failed: %r" % (op, r0))
                continue
            ncalls = ref.calls; ref_log = list(ref.log); ref_bytes = ref.getvalue()
            peak = max(len(data), len(ref_bytes))
            # peak size: the tag is enlarged first, an ID3v1 block removed at the very end
            if op == "save" and len(ref_bytes) >= 10:
                new_tag = (ref_bytes[6] << 21 | ref_bytes[7] << 14 | ref_bytes[8] << 7 | ref_bytes[9]) + 10
                after_tag = new_tag + len(data) - desc["tag_len"]
                peak = max(len(data), after_tag, len(ref_bytes))
            growth = peak - len(data)
            tail_len = int(desc["tail"]) if desc["tail"].isdigit() else 0
            v1_grows = op == "save" and (v1opt == 2 or (v1opt == 1 and tail_len)) and tail_len < 128
            plans = []
            if "cap" in want and growth > 0:
                vals = list(range(growth + 1)) if growth <= (160 if ctx.quick else 1500) else \
                    sorted(set([0, 1, 2, growth // 2, growth - 129, growth - 128, growth - 127, growth - 4, growth - 3, growth - 1, growth]
                               + [rng.randrange(growth) for _ in range(12 if ctx.quick else 100)]))
                for r in vals:
                    if r < 0:
                        continue
                    for leak in ((0,) if (r % 4 and ctx.quick) else (0, 5, 100000)):
                        plans.append(("cap", r, leak))
            if "io" in want:
                idx = list(range(ncalls)) if ncalls <= (70 if ctx.quick else 400) else sorted(rng.sample(range(ncalls), 70 if ctx.quick else 400))
                for i in idx:
                    plans.append(("io", i, "enospc" if rng.random() < 0.15 else "io"))
            if "short" in want:
                for i, l in enumerate(ref_log):
                    if l.startswith("r") and int(l[1:]) > 0:
                        for k in sorted({0, 1, int(l[1:]) // 2, int(l[1:]) - 1}):
                            if k < int(l[1:]):
                                plans.append(("short", i, k))
            for kind, a, b in plans:
                if kind == "cap":
                    f = FaultFile(data, cap=len(data) + a, leak=b); env = "cap=%d leak=%d" % (len(data) + a, b)
                elif kind == "io":
                    f = FaultFile(data, fail_at=a, errno_=(errno.ENOSPC if b == "enospc" else errno.EIO)); env = "fail=%d:%s" % (a, b)
                else:
                    f = FaultFile(data, short=(a, b)); env = "short=%d:%d" % (a, b)
                k, r = timed(lambda: go(f), 20)
                after = f.getvalue()
                st = _classify(k, r)
                case = dict(cdesc, fault=kind, at=a, arg=b, growth=growth, calls_in_clean_run=ncalls)
                ctx.case(key=("id3file-faults", op, li, kind, a, b), nontrivial=(k != "ok" or after != ref_bytes or kind != "cap" or a < growth),
                         modelled=True, sample=case if (li == 0 and kind == "cap" and a == 1 and b == 0) else None)
                ctx.hist["id3file-faults:%s:%s:%s" % (op, kind, st)] += 1
                jobs.append(("%s %s" % (base, env), st, after, list(f.log), case))
                # ---- the properties on the real outcome
                if k == "hang":
                    violation("id3file:%s:hang" % op, "did not finish", case, li); continue
                if k == "exc" and not isinstance(r, MutagenError):
                    if isinstance(r, ValueError) and str(r).startswith("Can't "):
                        key = "escape:ValueError:_util.py:verify_fileobj"
                    else:
                        key = "escape:%s:id3file:%s" % (type(r).__name__, op)
                    if ctx.prop == "C06":
                        violation(key, "%s escaped from ID3 %s (%s at %s): %s" % (type(r).__name__, op, kind, a, str(r)[:80]), case, li)
                if kind == "cap":
                    if k == "ok" and after != ref_bytes:
                        violation("id3file:%s:differs-from-unlimited" % op, "returned normally on a limited device with a different file", case, li)
                    if a >= growth and k != "ok" and wellformed:
                        violation("id3file:%s:fails-with-enough-space" % op, "failed although the peak size fits", case, li)
                    if k == "exc" and ctx.prop != "C06" and wellformed:
                        if after != data:
                            audio = data[desc["tag_len"]:len(data) - tail_len]
                            if v1_grows and after[:new_tag] == ref_bytes[:new_tag] and after[new_tag:new_tag + len(audio)] == audio:
                                # the ID3v1 block is written after the tag has been replaced (Props/C19_Id3File.lean, outcome 3)
                                # the property's "remaining cases": a block appended at the end of the file - the audio payload is
                                # intact (checked in the condition above); not a violation, counted
                                ctx.hist["id3file:enospc:id3v1-appended-after-tag:payload-intact"] += 1
                            else:
                                violation("MP3:file-modified-on-enospc", "file changed although save failed", case, li)
                elif k == "ok" and kind == "io":
                    if after != ref_bytes:
                        violation("undetected:io:id3file:%s" % op, "returned normally after an injected IOError with a different file", case, li)
    finally:
        _set_buffers("default")
    if ctx.model_ok() and jobs:
        answers = ctx.driver.ask([j[0] for j in jobs])
        for (line, st, after, log, case), ans in zip(jobs, answers):
            ctx.traces_validated += 1
            mst, mf = parse_fields(ans)
            mlog = [] if mf.get("log", "-") == "-" else mf["log"].split(",")
            if mst != st or mf.get("data") != hx(after):
                ctx.disagree("id3 file programs under faults", case, model=ans[:200], impl="%s data=%s" % (st, hx(after)[:160]))
            elif not _same_log(mlog, log):
                ctx.disagree("id3 file programs: sequence of file-object calls", case, model=",".join(mlog)[:300], impl=",".join(log)[:300])
    return len(jobs)


def repro_determine_bpi():
    """the open finding `determine-bpi` (Props/C01_Id3Tag.lean `determine_bpi_misfire`, same tag) on the real code: two PRIV frames
    saved by mutagen as ID3v2.4; the second one's data spells three frame headers "TIT2 00000002 0000" with an undecodable body at
    the tag offset (266) where the plain-integer reading of the first frame's syncsafe size (00 00 01 00 = 128, read as 256) lands;
    determine_bpi counts 4 frames under the plain reading against 2 and chooses it: on reload the two frames are not there.
    -> (frames region length, determine_bpi answer, number of frames after reload, second PRIV intact?)"""
    import io
    from mutagen import id3 as I
    from mutagen.id3._tags import determine_bpi
    from mutagen.id3._frames import Frames
    a = I.PRIV(owner="a", data=b"\x55" * 126)
    fake = b"TIT2\x00\x00\x00\x02\x00\x00\x09A"
    b = I.PRIV(owner="b", data=b"\x11" * 116 + fake * 3)
    tags = I.ID3(); tags.add(a); tags.add(b)
    f = io.BytesIO(b"\xff\xfb\x90\x00" + b"\x55" * 300)
    tags.save(f, padding=lambda info: 0)
    data = f.getvalue()
    size = (data[6] << 21) | (data[7] << 14) | (data[8] << 7) | data[9]
    area = data[10:10 + size]
    answer = determine_bpi(area, Frames).__name__
    back = I.ID3(io.BytesIO(data))
    keys = sorted(back.keys())
    intact = any(getattr(fr, "owner", None) == "b" and fr.data == b.data for fr in back.values())
    return len(area), answer, len(keys), intact


# ---------------------------------------------------------------------------------------------------------------------
# C06, load: `ID3(fileobj)` and the bare `ID3FileType(fileobj)` as the programs `loadM` / `fileTypeLoadM`
# (Model/Container/Id3FileLoadM.lean, driver `id3f op=loadm`) under faults and short reads

def run_load_faults(ctx):
    """generated files (well-formed layouts, damaged / extended headers, look-alike tails) x {ID3, ID3FileType, ID3(load_v1=False)} x (an
    IOError at every call index) x (short reads 0 / 1 / n//2 / n-1 at every read): the real constructor on FaultFile vs the Lean program —
    outcome class, the sequence of file-object calls, file untouched, object not closed.  Returns the number of compared runs."""
    import errno
    from fobj import FaultFile
    from mutagen import id3 as I, MutagenError
    rng = ctx.rng
    jobs = []
    seen = set()

    def violation(key, what, case, li):
        if (key, li) not in seen:
            seen.add((key, li)); ctx.violation(key, what, case)

    for li in range(ctx.budget(80, 700)):
        data, desc = gen_layout(rng) if rng.random() < 0.5 else gen_file(rng)
        cls = rng.choice(["id3", "id3", "filetype", "id3-nov1"])
        def go(f):
            if cls == "filetype":
                return I.ID3FileType(f)
            return I.ID3(f, load_v1=(cls != "id3-nov1"))
        base = "id3f op=loadm data=%s cls=%s v1=%d" % (hx(data), "filetype" if cls == "filetype" else "id3", 0 if cls == "id3-nov1" else 1)
        ref = FaultFile(data)
        k0, r0 = timed(lambda: go(ref), 20)
        ncalls = ref.calls; ref_log = list(ref.log)
        plans = [("none", None, None)] + [("io", i, "io") for i in range(ncalls)]
        for i, l in enumerate(ref_log):
            if l.startswith("r") and l[1:].isdigit() and int(l[1:]) > 0:
                for kk in sorted({0, 1, int(l[1:]) // 2, int(l[1:]) - 1}):
                    if kk < int(l[1:]):
                        plans.append(("short", i, kk))
        for fk, a, b in plans:
            if fk == "io":
                f = FaultFile(data, fail_at=a); env = " fail=%d:io" % a
            elif fk == "short":
                f = FaultFile(data, short=(a, b)); env = " short=%d:%d" % (a, b)
            else:
                f = FaultFile(data); env = ""
            k, r = timed(lambda: go(f), 20)
            case = dict(desc, op="load", cls=cls, fault=fk, at=a, arg=b, data=hx(data) if len(data) < 1200 else "len=%d" % len(data))
            if k == "hang":
                violation("id3file:load:hang", "did not finish", case, li); continue
            if k == "ok":
                tags = r.tags if cls == "filetype" else r
                st = "ok:notags" if tags is None else ("ok:v1" if tags.version == (1, 1) else "ok:v2")
            elif isinstance(r, I.ID3NoHeaderError):
                st = "noheader"
            elif isinstance(r, I.ID3UnsupportedVersionError):
                st = "unsupported"
            elif isinstance(r, MutagenError):
                st = "err:mutagen"
            elif isinstance(r, NotImplementedError):
                st = "err:frames"       # raised by the frame parser on the bytes read (compressed frames): not a file-object matter
            else:
                st = "err:" + ERR.get(type(r).__name__, type(r).__name__)
            ctx.case(key=("id3file-load", cls, li, fk, a, b), nontrivial=(fk != "none"), modelled=True)
            ctx.hist["id3file-load:%s:%s:%s" % (cls, fk, st)] += 1
            jobs.append((base + env, st, list(f.log), case))
            # ---- C06 on the real outcome
            if f.getvalue() != data:
                violation("id3file:load:file-modified", "load changed the file", case, li)
            if f.closed_called:
                violation("id3file:load:closes-caller-file", "close() was called on the caller's file object", case, li)
            if st.startswith("err:") and st not in ("err:mutagen", "err:frames"):
                key = "escape:ValueError:_util.py:verify_fileobj" if (st == "err:value" and str(r).startswith("Can't ")) else \
                    "escape:%s:id3file:load" % type(r).__name__
                violation(key, "%s escaped from %s (%s at %s): %s" % (type(r).__name__, cls, fk, a, str(r)[:80]), case, li)
            if fk != "none" and k == "ok" and k0 == "ok":
                # the call returned normally although a read was short / failed: did it see the same tag as the clean run?
                t0 = ref_result = None
                clean = go(FaultFile(data)); t0 = clean.tags if cls == "filetype" else clean
                t1 = r.tags if cls == "filetype" else r
                same = (t0 is None) == (t1 is None) and (t0 is None or (sorted(t0.keys()) == sorted(t1.keys()) and t0.version == t1.version))
                if not same:
                    violation("undetected:%s:%s" % (fk, f.fault_site), "load returned normally after the fault with other tags than the clean run", case, li)
    if ctx.model_ok() and jobs:
        answers = ctx.driver.ask([j[0] for j in jobs])
        for (line, st, log, case), ans in zip(jobs, answers):
            ctx.traces_validated += 1
            mst, mf = parse_fields(ans)
            r = mf.get("r", "")
            if mst == "ok":
                cls = case["cls"]
                m = {"noheader": "ok:notags" if cls == "filetype" else "noheader", "unsupported": "unsupported"}.get(r)
                if m is None:
                    m = "ok:v1" if r.startswith("v1:") else "ok:v2"
            else:
                m = mst
            mlog = [] if mf.get("log", "-") == "-" else mf["log"].split(",")
            if st == "err:frames":
                ctx.hist["id3file-load:frame-parser-raised"] += 1
                if not _same_log(mlog, log):
                    ctx.disagree("id3 load: sequence of file-object calls", case, model=",".join(mlog)[:300], impl=",".join(log)[:300])
                continue
            if m != st:
                ctx.disagree("id3 load under faults", case, model=ans[:200], impl=st)
            elif not _same_log(mlog, log):
                ctx.disagree("id3 load: sequence of file-object calls", case, model=",".join(mlog)[:300], impl=",".join(log)[:300])
    return len(jobs)
