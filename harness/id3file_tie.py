"""id3file_tie.py — correspondence of the Lean model of free-standing ID3 files
(lean/MutagenModel/Model/Container/Id3File.lean) with ID3.save / mutagen.id3.delete, and the
statements of the container properties on the real output for synthesised layouts
[ID3v2 tag?][audio][APEv2?][ID3v1 (128 or legacy 124-127 bytes)?]."""
import io, struct
from vcheck import hx, parse_fields
from guards import timed


def syncsafe(n):
    return bytes([(n >> 21) & 0x7F, (n >> 14) & 0x7F, (n >> 7) & 0x7F, n & 0x7F])


def v1_block(rng, n=128):
    b = b"TAG" + b"t".ljust(30, b"\0") + b"a".ljust(30, b"\0") + b"l".ljust(30, b"\0") + b"2001" + b"c".ljust(29, b"\0") + b"\x01\x0c"
    if n < 128:
        b = b[:93] + b[93:97][:n - 124] + b[97:]
    return b


def gen_file(rng):
    """-> (bytes, description)"""
    kind = rng.choice(["none", "v24", "v23", "v22", "v24pad", "bad-version", "bad-size", "bad-flags", "short", "huge-size", "ext"])
    body = bytes(rng.randrange(256) for _ in range(rng.choice([0, 1, 11, 40, 300])))
    if kind == "none":
        tag = b""
    elif kind == "short":
        tag = b"ID3\x04\x00"[:rng.randrange(1, 6)]
    else:
        vmaj = {"v24": 4, "v24pad": 4, "v23": 3, "v22": 2, "bad-version": rng.choice([0, 1, 5, 255]), "bad-size": 4,
                "bad-flags": rng.choice([3, 4]), "huge-size": 4, "ext": rng.choice([3, 4])}[kind]
        flags = 0
        if kind == "bad-flags":
            flags = rng.choice([0x01, 0x08, 0x10 if vmaj == 3 else 0x0f])
        if kind == "ext":
            flags = 0x40
        if kind == "ext":
            # what follows an extended-header flag: a frame id (the tagger's mistake mutagen tolerates), a plausible extended
            # header, or sizes that are not syncsafe / below 4 / beyond the data
            ext = rng.choice([b"TIT2", b"TXXX", b"\0\0\0\x06" + b"\x01\0", b"\0\0\0\x0a" + b"\0" * 6, b"\0\0\0\x03", b"\0\0\0\x04",
                              b"\0\0\x80\x06ab", b"\0\0\x7f\x7f", b"\xff\xff\xff\xff", b"\0\0", b"", b"\0\0\0\x00", b"TIT\xe9"])
            body = ext + (body if rng.random() < 0.7 else b"")
        if kind == "v24pad":
            body += b"\0" * rng.choice([1, 10, 1000])
        size = syncsafe(len(body))
        if kind == "bad-size":
            size = bytes([0x80, 0, 0, len(body) & 0x7F])
        if kind == "huge-size":
            size = syncsafe(len(body) + rng.choice([1, 5000]))
        tag = b"ID3" + bytes([vmaj, 0, flags]) + size + body
    tails = [b"", b"TAG", b"xTAG", b"TA", b"APETAGEX", b"zzAPETAGEXyy", b"TAGTAG"]
    audio = bytes(rng.randrange(256) for _ in range(rng.choice([0, 3, 50, 130, 131, 132, 400]))) + rng.choice(tails)
    v1kind = rng.choice(["none", "none", "128", "128", "127", "126", "125", "124", "ape131", "ape130", "ape128"])
    if v1kind == "none":
        v1 = b""
    elif v1kind.startswith("ape"):
        n = int(v1kind[3:])
        room = n - 64 - 8 - 3 - 1
        item = struct.pack("<2L", room, 0) + b"Key" + b"\0" + b"v" * room
        v1 = b"APETAGEX" + struct.pack("<4L", 2000, len(item) + 32, 1, 0xA0000000) + b"\0" * 8 + item + \
            b"APETAGEX" + struct.pack("<4L", 2000, len(item) + 32, 1, 0x80000000) + b"\0" * 8
    else:
        v1 = v1_block(rng, int(v1kind))
    return tag + audio + v1, {"tag": kind, "audio_len": len(audio), "tail": v1kind, "tag_len": len(tag)}


def pad_arg(choice):
    if choice == "default":
        return None
    if choice == "keep":
        return lambda info: max(info.padding, 0)
    return lambda info: int(choice)


ERR = {"MutagenError": "mutagen", "ValueError": "value", "IndexError": "index", "error": "struct"}


def classify(exc):
    from mutagen import MutagenError
    if isinstance(exc, MutagenError):
        return "err:mutagen"
    return "err:" + ERR.get(type(exc).__name__, type(exc).__name__)


def run(ctx):
    """model tie + the container statements on the real output; returns the number of cases"""
    from mutagen import id3 as I
    from mutagen.id3._tags import ID3SaveConfig
    from mutagen.id3._id3v1 import MakeID3v1
    rng = ctx.rng
    reqs = []
    n = ctx.budget(150, 1500)
    texts = ["x", "", "Ünï ✓", "a" * 300, "b" * 5000]
    for i in range(n):
        data, desc = gen_file(rng)
        op = rng.choice(["save", "save", "save", "delete"])
        if op == "save":
            tags = I.ID3()
            for _ in range(rng.randrange(0, 4)):
                tags.add(rng.choice([I.TIT2, I.TPE1, I.TALB])(encoding=3, text=[rng.choice(texts)]))
            if rng.random() < 0.5:
                tags.add(I.COMM(encoding=3, lang="eng", desc="", text=[rng.choice(texts)]))
            vmaj = rng.choice([3, 4])
            v1opt = rng.choice([0, 1, 2])
            pad = rng.choice(["default", "default", "keep", "0", "1", "777", "-1", "20000"])
            cfg = ID3SaveConfig(vmaj, "/")
            f = io.BytesIO(data)
            # the frames ID3.save renders (v2.3: after the conversion save does not do itself - the caller's frames are written as they are)
            frames = bytes(tags._write(cfg))
            v1blk = MakeID3v1(tags)
            k, r = timed(lambda: tags.save(f, v1=v1opt, v2_version=vmaj, padding=pad_arg(pad)), 20)
            line = "id3f op=save data=%s vmaj=%d frames=%s pad=%s v1opt=%d v1blk=%s" % (hx(data), vmaj, hx(frames), pad, v1opt, hx(v1blk))
            case = dict(desc, op="save", vmaj=vmaj, v1opt=v1opt, pad=pad, frames_len=len(frames), data=hx(data) if len(data) < 1500 else "len=%d" % len(data))
        else:
            dv1, dv2 = rng.random() < 0.7, rng.random() < 0.8
            f = io.BytesIO(data)
            k, r = timed(lambda: I.delete(f, dv1, dv2), 20)
            line = "id3f op=delete data=%s v1=%d v2=%d" % (hx(data), int(dv1), int(dv2))
            case = dict(desc, op="delete", delete_v1=dv1, delete_v2=dv2, data=hx(data) if len(data) < 1500 else "len=%d" % len(data))
        if k == "hang":
            ctx.violation("id3file:%s:hang" % op, "did not finish", case); continue
        out = f.getvalue()
        impl = "ok v=%s" % hx(out) if k == "ok" else classify(r).replace(":", " ")
        ctx.case(key=("id3file", op, i, len(data)), nontrivial=(k == "ok" and out != data), modelled=True,
                 sample=case if i in (3, 40) else None)
        ctx.hist["id3file:%s:%s" % (op, "ok" if k == "ok" else impl)] += 1
        ctx.hist["id3file:tag:" + desc["tag"]] += 1
        ctx.hist["id3file:tail:" + desc["tail"]] += 1
        reqs.append((line, impl, case))
        # the property-level statements on the real output, for layouts that are what they seem
        if k == "ok" and desc["tag"] in ("none", "v24", "v23", "v22", "v24pad") and desc["tail"] in ("none", "128"):
            tag_len = desc["tag_len"]
            audio = data[tag_len:len(data) - (128 if desc["tail"] == "128" else 0)]
            if audio[-3:] == b"TAG" or b"TAG" in audio[-131:] or b"APETAGEX" in audio[-131:]:
                continue        # look-alike bytes: decided by the model tie only
            if op == "delete":
                exp = (data[:tag_len] if not dv2 else b"") + audio + (data[len(data) - 128:] if (desc["tail"] == "128" and not dv1) else b"")
                if out != exp:
                    ctx.violation("id3file:delete:wrong-result", "delete(v1=%s, v2=%s) did not leave exactly the untouched parts" % (dv1, dv2), case)
            else:
                if len(out) < 10 or out[:3] != b"ID3" or out[3] != vmaj:
                    ctx.violation("id3file:save:no-header", "no ID3v2.%d header at the start" % vmaj, case); continue
                size = (out[6] << 21) | (out[7] << 14) | (out[8] << 7) | out[9]
                if any(b & 0x80 for b in out[6:10]):
                    ctx.violation("id3file:save:size-not-syncsafe", "size bytes %s" % out[6:10].hex(), case)
                if out[10:10 + len(frames)] != frames or out[10 + len(frames):10 + size].strip(b"\0"):
                    ctx.violation("id3file:save:tag-body", "the tag body is not the frames followed by zero padding", case)
                rest = out[10 + size:]
                had_v1 = desc["tail"] == "128"
                want_v1 = (v1opt == 2) or (v1opt == 1 and had_v1)
                exp_rest = audio + (v1blk if want_v1 else b"")
                if rest != exp_rest:
                    ctx.violation("id3file:save:audio-or-v1", "what follows the tag is not the audio followed by the expected ID3v1 block "
                                  "(%d bytes vs %d expected)" % (len(rest), len(exp_rest)), case)
    if ctx.model_ok() and reqs:
        answers = ctx.driver.ask([r[0] for r in reqs])
        for (line, impl, case), ans in zip(reqs, answers):
            if ans.startswith("err notimplemented"):
                ctx.hist["id3file:outside-model"] += 1
                continue
            ctx.traces_validated += 1
            if ans != impl:
                ctx.disagree("id3 file container", case, model=ans[:200], impl=impl[:200])
    return len(reqs)
