"""filetypes_tie.py — the FILE-TYPE level of C04: the real `Type(io.BytesIO(data))` against the composed model
(lean/MutagenModel/Model/FileTypes.lean, driver `ftype kind=<class> data=<hex>`), and `mutagen.File(fileobj)`
against `fload name=<hex> data=<hex>` (score model, then the class's load).

Inputs: every sample of harness/formats.py, the generated files of harness/gen/headers_more.py, the same with
tags put in by the real library (ID3 / APEv2), hand-made ID3v2 headers, ID3v1 blocks and APEv2 tags (well-formed
and damaged: bad keys, reserved kind, invalid UTF-8, wrong counts and sizes) in front of / behind them, and
damaged variants (truncations, byte flips in the header region and in the tag region, zeroed ranges).  Every input
goes to its own class and to other classes (cross-type).

Compared: the outcome class (ok / MutagenError / any other exception class) and, where the model says so,
whether the object has tags (`tags is None`).  An exception of the real code that is not a MutagenError is a
violation of the property (kept as `ftype:<Class>:<Exception>`), not a disagreement.
"""
import importlib
import io
import os
import struct

from guards import timed
from vcheck import hx, parse_fields
import formats as F

MAXLEN = 160 * 1024

CLASSES = {
    "MP3": "mutagen.mp3.MP3", "TrueAudio": "mutagen.trueaudio.TrueAudio", "ID3FileType": "mutagen.id3.ID3FileType",
    "WavPack": "mutagen.wavpack.WavPack", "Musepack": "mutagen.musepack.Musepack",
    "MonkeysAudio": "mutagen.monkeysaudio.MonkeysAudio", "OptimFROG": "mutagen.optimfrog.OptimFROG", "TAK": "mutagen.tak.TAK",
    "APEv2File": "mutagen.apev2.APEv2File",
    "OggVorbis": "mutagen.oggvorbis.OggVorbis", "OggOpus": "mutagen.oggopus.OggOpus", "OggSpeex": "mutagen.oggspeex.OggSpeex",
    "OggTheora": "mutagen.oggtheora.OggTheora", "OggFLAC": "mutagen.oggflac.OggFLAC",
    "FLAC": "mutagen.flac.FLAC", "ASF": "mutagen.asf.ASF", "MP4": "mutagen.mp4.MP4", "AAC": "mutagen.aac.AAC", "AC3": "mutagen.ac3.AC3",
    "AIFF": "mutagen.aiff.AIFF", "DSDIFF": "mutagen.dsdiff.DSDIFF", "WAVE": "mutagen.wave.WAVE", "DSF": "mutagen.dsf.DSF",
    "SMF": "mutagen.smf.SMF",
}
ID3_KINDS = ("MP3", "TrueAudio", "AIFF", "WAVE", "DSF", "DSDIFF")
APE_KINDS = ("WavPack", "Musepack", "MonkeysAudio", "OptimFROG", "TAK")
GEN_KIND = {"TTA": "TrueAudio", "APE": "MonkeysAudio", "APE_OLD": "MonkeysAudio", "MPC_SV7": "Musepack", "MPC_SV8": "Musepack",
            "MP4_AAC": "MP4", "MP4_ALAC": "MP4", "MP4_AC3": "MP4", "AAC_ADTS": "AAC", "EAC3": "AC3"}


def cls_of(kind):
    mod, name = CLASSES[kind].rsplit(".", 1)
    return getattr(importlib.import_module(mod), name)


def classify(exc):
    from mutagen import MutagenError
    if isinstance(exc, MutagenError):
        return "err:mutagen"
    return "err:" + {"ValueError": "value", "IndexError": "index", "error": "struct", "KeyError": "key", "AssertionError": "assertion",
                     "OverflowError": "overflow", "TypeError": "type", "MemoryError": "memory", "UnicodeEncodeError": "unicode",
                     "UnicodeDecodeError": "unicode", "NotImplementedError": "notimplemented", "EOFError": "eof",
                     "AttributeError": "attribute", "ZeroDivisionError": "zerodiv", "OSError": "io"}.get(type(exc).__name__, type(exc).__name__)


# ---------------------------------------------------------------- hand-made tag pieces

def syncsafe(n):
    return bytes([(n >> 21) & 127, (n >> 14) & 127, (n >> 7) & 127, n & 127])


def id3v2_frames(vmaj, n=1):
    out = b""
    for i in range(n):
        body = b"\x03title %d" % i
        if vmaj == 2:
            out += b"TT2" + struct.pack(">I", len(body))[1:] + body
        elif vmaj == 3:
            out += b"TIT2" + struct.pack(">I", len(body)) + b"\0\0" + body
        else:
            out += b"TIT2" + syncsafe(len(body)) + b"\0\0" + body
    return out


def id3v2_variants(rng):
    """(label, bytes) of ID3v2 tags: well-formed and damaged"""
    out = []
    for vmaj in (2, 3, 4):
        fr = id3v2_frames(vmaj, rng.randrange(0, 3))
        pad = b"\0" * rng.choice([0, 10, 100])
        body = fr + pad
        out.append(("v2.%d" % vmaj, b"ID3" + bytes([vmaj, 0, 0]) + syncsafe(len(body)) + body))
    fr = id3v2_frames(4, 1)
    out.append(("v2.5", b"ID3" + bytes([5, 0, 0]) + syncsafe(len(fr)) + fr))
    out.append(("v2.1", b"ID3" + bytes([1, 0, 0]) + syncsafe(len(fr)) + fr))
    out.append(("size>file", b"ID3" + bytes([4, 0, 0]) + syncsafe(len(fr) + rng.choice([1, 1000, 2 ** 27])) + fr))
    out.append(("size-not-syncsafe", b"ID3" + bytes([4, 0, 0]) + bytes([0, 0, 0x80, 5]) + fr))
    out.append(("rev-ff", b"ID3" + bytes([4, 0xff, 0]) + syncsafe(len(fr)) + fr))
    out.append(("flags-low", b"ID3" + bytes([4, 0, rng.choice([1, 2, 4, 8, 15])]) + syncsafe(len(fr)) + fr))
    out.append(("flags-low-v3", b"ID3" + bytes([3, 0, rng.choice([1, 16, 31])]) + syncsafe(len(fr)) + fr))
    # extended headers
    ext4 = syncsafe(6) + b"\x01\x00"
    out.append(("ext-v4", b"ID3" + bytes([4, 0, 0x40]) + syncsafe(len(ext4) + len(fr)) + ext4 + fr))
    ext3 = struct.pack(">I", 6) + b"\0\0\0\0\0\0"
    fr3 = id3v2_frames(3, 1)
    out.append(("ext-v3", b"ID3" + bytes([3, 0, 0x40]) + syncsafe(len(ext3) + len(fr3)) + ext3 + fr3))
    out.append(("ext-flag-but-frame", b"ID3" + bytes([4, 0, 0x40]) + syncsafe(len(fr)) + fr))
    out.append(("ext-size<4", b"ID3" + bytes([4, 0, 0x40]) + syncsafe(10) + syncsafe(rng.choice([0, 3])) + b"\0" * 6))
    out.append(("ext-size-huge", b"ID3" + bytes([4, 0, 0x40]) + syncsafe(10) + syncsafe(2 ** 20) + b"\0" * 6))
    out.append(("ext-size-not-syncsafe", b"ID3" + bytes([4, 0, 0x40]) + syncsafe(10) + b"\x80\0\0\x06" + b"\0" * 6))
    out.append(("ext-exceeds-tag", b"ID3" + bytes([3, 0, 0x40]) + syncsafe(6) + struct.pack(">I", 6) + b"\0" * 6))
    out.append(("ext-v3-huge", b"ID3" + bytes([3, 0, 0x40]) + syncsafe(20) + struct.pack(">I", 2 ** 31) + b"\0" * 16))
    out.append(("ext-short", b"ID3" + bytes([4, 0, 0x40]) + syncsafe(2) + b"\0\0"))
    out.append(("header-only", b"ID3" + bytes([4, 0, 0]) + syncsafe(0)))
    out.append(("short-header", b"ID3" + bytes([4, 0, 0])))
    out.append(("unsynch-v3", b"ID3" + bytes([3, 0, 0x80]) + syncsafe(len(fr3) + 2) + fr3 + b"\xff\x00"))
    out.append(("junk-frames", b"ID3" + bytes([4, 0, 0]) + syncsafe(40) + bytes(rng.randrange(256) for _ in range(40))))
    return out


def id3v1_variants(rng):
    full = b"TAG" + b"title".ljust(30, b"\0") + b"artist".ljust(30, b"\0") + b"album".ljust(30, b"\0") + b"2001" + b"c".ljust(28, b"\0") + b"\0\x05\x11"
    assert len(full) == 128
    return [("v1-128", full), ("v1-125", full[:125]), ("v1-124", full[:124]), ("v1-123", full[:123]), ("v1-100", full[:100]),
            ("v1+3", full + b"xyz"), ("v1+1", full + b"x"), ("TAGTAG", full[:64] + b"TAG" + full[67:]),
            ("v1-genre-ff", full[:127] + b"\xff"), ("v1-latin", b"TAG" + bytes(rng.randrange(1, 256) for _ in range(125)))]


def ape_item(key, value, kind=0):
    return struct.pack("<II", len(value), kind << 1) + key + b"\0" + value


def ape_tag(items, count=None, header=True, footer=True, size_delta=0, version=2000, hdr_flag=None):
    body = b"".join(items)
    count = len(items) if count is None else count
    size = len(body) + 32 + size_delta
    hflag = (1 << 31) if header else 0
    if hdr_flag is not None:
        hflag = hdr_flag
    out = b""
    if header:
        out += b"APETAGEX" + struct.pack("<IIII", version, size & 0xffffffff, count, hflag | (1 << 29)) + b"\0" * 8
    out += body
    if footer:
        out += b"APETAGEX" + struct.pack("<IIII", version, size & 0xffffffff, count, hflag) + b"\0" * 8
    return out


def ape_variants(rng):
    good = [ape_item(b"Title", b"x"), ape_item(b"Artist", "Ünï".encode("utf-8")), ape_item(b"Cover", b"\xff\xfe\x00", 1),
            ape_item(b"Link", b"http://x", 2)]
    out = [("ape-good", ape_tag(good)), ("ape-no-header", ape_tag(good, header=False)), ("ape-empty", ape_tag([])),
           ("ape-empty-noheader", ape_tag([], header=False)),
           ("ape-count+", ape_tag(good, count=len(good) + rng.choice([1, 100]))), ("ape-count-", ape_tag(good, count=1)),
           ("ape-count0", ape_tag(good, count=0)),
           ("ape-kind3", ape_tag([ape_item(b"Title", b"x", 3)])),
           ("ape-key1", ape_tag([ape_item(b"T", b"x")])), ("ape-key-empty", ape_tag([ape_item(b"", b"x")])),
           ("ape-key-ID3", ape_tag([ape_item(b"ID3", b"x")])), ("ape-key-OggS", ape_tag([ape_item(b"OggS", b"x")])),
           ("ape-key-ctrl", ape_tag([ape_item(b"Ti\x01tle", b"x")])), ("ape-key-8bit", ape_tag([ape_item(b"Ti\xe9tle", b"x")])),
           ("ape-key-tilde", ape_tag([ape_item(b"~~", b"x")])), ("ape-key-del", ape_tag([ape_item(b"a\x7f", b"x")])),
           ("ape-key-256", ape_tag([ape_item(b"k" * 256, b"x")])), ("ape-key-255", ape_tag([ape_item(b"k" * 255, b"x")])),
           ("ape-bad-utf8", ape_tag([ape_item(b"Title", b"\xff\xfe")])), ("ape-bad-utf8-ext", ape_tag([ape_item(b"Title", b"\xc0\x80", 2)])),
           ("ape-surrogate", ape_tag([ape_item(b"Title", b"\xed\xa0\x80")])),
           ("ape-bad-utf8-binary", ape_tag([ape_item(b"Title", b"\xff\xfe", 1)])),
           ("ape-value-short", ape_tag([struct.pack("<II", 50, 0) + b"Title\0abc"])),
           ("ape-no-nul", ape_tag([struct.pack("<II", 1, 0) + b"Title"])),
           ("ape-item-short", ape_tag(good + [b"\x01\x00\x00"], count=5)),
           ("ape-size+", ape_tag(good, size_delta=rng.choice([1, 24, 1000, 2 ** 31]))),
           ("ape-size-", ape_tag(good, size_delta=-rng.choice([1, 8, 30]))),
           ("ape-size<32", ape_tag([], size_delta=-rng.choice([1, 20, 32]))),
           ("ape-footer-says-no-header", ape_tag(good, hdr_flag=0)),
           ("ape-only-header", ape_tag(good, footer=False)),
           ("ape-dup-key", ape_tag([ape_item(b"Title", b"x"), ape_item(b"TITLE", b"y")])),
           ("ape-magic-only", b"APETAGEX"), ("ape-magic-short", b"APETAGEX" + b"\xd0\x07\0\0" + b"\x20\0\0")]
    # size fields below the 32 bytes of the footer on real items, footer-only tags, and headers (for the front of a file) whose
    # small size makes `__fill_missing` find a "footer" at offset `size`: the header itself (0), its reserved bytes (24)
    out.append(("ape-size<32-items", ape_tag(good, size_delta=-(len(b"".join(good)) + rng.choice([1, 8, 24, 32])))))
    out.append(("ape-size<32-noheader", ape_tag(good, header=False, size_delta=-(len(b"".join(good)) + rng.choice([1, 20, 32])))))
    out.append(("ape-size=32", ape_tag(good, size_delta=-len(b"".join(good)))))
    hdr = ape_tag(good, footer=False)[:32]
    out.append(("ape-hdr-size0", hdr[:12] + struct.pack("<I", 0) + hdr[16:]))
    out.append(("ape-hdr-size24-magic-in-reserved", hdr[:12] + struct.pack("<I", 24) + hdr[16:24] + b"APETAGEX"))
    out.append(("ape-hdr-size24", hdr[:12] + struct.pack("<I", 24) + hdr[16:]))
    out.append(("ape-hdr-size40-footer", hdr[:12] + struct.pack("<I", 40) + hdr[16:] + b"12345678" + b"APETAGEX" + b"\0" * 24))
    return out


from fobj import BufferedLike


# ---------------------------------------------------------------- inputs

def real_tagged(kind, data, rng):
    """the same file with tags written by the real library; None when it cannot"""
    cls = cls_of(kind)

    def go():
        f = io.BytesIO(data)
        o = cls(f)
        if o.tags is None:
            o.add_tags()
        if kind in ID3_KINDS:
            from mutagen import id3 as I
            o.tags.add(I.TIT2(encoding=3, text=["t" * rng.choice([1, 40])]))
            f.seek(0)
            o.save(f, **({"v2_version": rng.choice([3, 4])} if kind != "MP3" else {"v2_version": rng.choice([3, 4]), "v1": rng.choice([0, 2])}))
        else:
            o["Title"] = "x" * rng.choice([1, 30])
            f.seek(0)
            o.save(f)
        return f.getvalue()
    k, r = timed(go, 20)
    return r if k == "ok" else None


def damage(rng, data, focus=None):
    """one damaged variant: (label, bytes)"""
    n = len(data)
    if n == 0:
        return "empty", data
    how = rng.choice(["trunc", "trunc-head", "flip-head", "flip-head", "flip-focus", "flip-tail", "zero", "ff", "trunc-tail"])
    lo, hi = focus if focus else (0, min(n, 256))
    hi = max(hi, lo + 1)
    if how == "trunc":
        return how, data[:rng.randrange(n)]
    if how == "trunc-head":
        return how, data[:rng.randrange(min(n, 300))]
    if how == "trunc-tail":
        return how, data[:max(0, n - rng.randrange(1, min(n, 200) + 1))]
    b = bytearray(data)
    if how == "flip-head":
        for _ in range(rng.choice([1, 1, 2, 4])):
            b[rng.randrange(min(n, 128))] = rng.choice([0, 1, 0x7f, 0x80, 0xff, rng.randrange(256)])
    elif how == "flip-focus":
        for _ in range(rng.choice([1, 1, 2, 4])):
            b[min(n - 1, rng.randrange(lo, hi))] = rng.choice([0, 1, 0x7f, 0x80, 0xff, rng.randrange(256)])
    elif how == "flip-tail":
        for _ in range(rng.choice([1, 2, 4])):
            b[n - 1 - rng.randrange(min(n, 200))] = rng.choice([0, 0xff, rng.randrange(256)])
    else:
        p = rng.randrange(lo, hi)
        w = rng.choice([1, 2, 4, 8])
        b[p:p + w] = (b"\0" if how == "zero" else b"\xff") * len(b[p:p + w])
    return how, bytes(b)


def inputs(ctx):
    """-> list of (kind, label, data)"""
    from gen import headers_more as H
    rng = ctx.rng
    out = []
    bases = {}
    for fmt in F.FORMATS:
        for s in fmt.samples:
            d = F.sample_bytes(ctx.repo, s)
            if len(d) > MAXLEN:
                d = d[:MAXLEN]
                s += "[:%d]" % MAXLEN
            out.append((fmt.kind, "sample:" + s, d))
            bases.setdefault(fmt.kind, []).append(("sample:" + s, d))
    per_kind = {}
    for kind, params, data, expect in H.cases(rng, False):
        k = GEN_KIND.get(kind, kind)
        if k not in CLASSES or len(data) > MAXLEN:
            continue
        per_kind.setdefault(k, []).append(("gen:" + kind, data))
    want = ctx.budget(6, 40)
    for k, lst in sorted(per_kind.items()):
        for lab, d in (lst if len(lst) <= want else rng.sample(lst, want)):
            out.append((k, lab, d))
            bases.setdefault(k, []).append((lab, d))
    v2s, v1s, apes = id3v2_variants(rng), id3v1_variants(rng), ape_variants(rng)
    nb = ctx.budget(2, 6)
    nd = ctx.budget(6, 40)
    for kind in sorted(bases):
        lst = bases[kind]
        pick = lst if len(lst) <= nb else rng.sample(lst, nb)
        for lab, d in pick:
            small = d if len(d) <= 40000 else d[:40000]
            # tags by the real library
            if kind in ID3_KINDS or kind in APE_KINDS:
                t = real_tagged(kind, d, rng)
                if t is not None and len(t) <= MAXLEN:
                    out.append((kind, lab + "+real-tags", t))
                    # where the tag is: difference region
                    i = 0
                    while i < min(len(d), len(t)) and d[i] == t[i]:
                        i += 1
                    focus = (i if i < len(t) else 0, min(len(t), i + 64))
                    for _ in range(nd // 2):
                        how, x = damage(rng, t, focus)
                        out.append((kind, lab + "+real-tags+" + how, x))
            # hand-made pieces
            if kind in ("MP3", "TrueAudio", "FLAC", "AAC", "AC3", "ID3FileType") or rng.random() < 0.15:
                for l2, v2 in v2s:
                    out.append((kind, lab + "+front:" + l2, v2 + small))
            if kind in ID3_KINDS or rng.random() < 0.15:
                for l1, v1 in v1s:
                    out.append((kind, lab + "+back:" + l1, small + v1))
            if kind in APE_KINDS or kind == "MP3" or rng.random() < 0.15:
                for la, a in apes:
                    out.append((kind, lab + "+back:" + la, small + a))
                for la, a in rng.sample(apes, 4) + [x for x in apes if x[0].startswith("ape-hdr-")]:
                    out.append((kind, lab + "+front:" + la, a + small))
                la, a = rng.choice(apes)
                l1, v1 = rng.choice(v1s)
                out.append((kind, lab + "+back:" + la + "+" + l1, small + a + v1))
            for _ in range(nd):
                how, x = damage(rng, d)
                out.append((kind, lab + "+" + how, x))
    # the bare tag classes of File's options, and tags alone
    for l2, v2 in v2s:
        out.append(("ID3FileType", "alone:" + l2, v2))
        out.append(("ID3FileType", "alone:" + l2 + "+v1", v2 + v1s[0][1]))
        out.append(("MP3", "alone:" + l2, v2))
    for l1, v1 in v1s:
        out.append(("ID3FileType", "alone:" + l1, v1))
        out.append(("ID3FileType", "pad+" + l1, b"\0" * 200 + v1))
    for la, a in apes:
        out.append(("APEv2File", "alone:" + la, a))
        out.append(("APEv2File", "pad+" + la, b"\1" * 300 + a))
        out.append(("APEv2File", "pad+" + la + "+v1", b"\1" * 300 + a + v1s[0][1]))
        if la.startswith("ape-hdr-") or la in ("ape-good", "ape-size<32", "ape-only-header"):
            out.append(("APEv2File", "front:" + la, a + b"\1" * 300))
    out.append(("MP3", "empty", b""))
    # IFF / DSF with hand-made ID3 chunks
    for lab, d in bases.get("AIFF", [])[:2]:
        for l2, v2 in v2s:
            ck = b"ID3 " + struct.pack(">I", len(v2)) + v2 + (b"\0" if len(v2) % 2 else b"")
            x = d + ck
            x = x[:4] + struct.pack(">I", len(x) - 8) + x[8:]
            out.append(("AIFF", lab + "+chunk:" + l2, x))
            out.append(("AIFF", lab + "+chunk:" + l2 + "+v1", x + v1s[0][1]))
    for lab, d in bases.get("WAVE", [])[:2]:
        d = d if len(d) <= 70000 else None
        if d is None:
            continue
        for l2, v2 in v2s:
            for cid in (b"id3 ", b"ID3 "):
                ck = cid + struct.pack("<I", len(v2)) + v2 + (b"\0" if len(v2) % 2 else b"")
                x = d + ck
                x = x[:4] + struct.pack("<I", len(x) - 8) + x[8:]
                out.append(("WAVE", lab + "+chunk:" + l2, x))
    for lab, d in bases.get("DSDIFF", [])[:2]:
        for l2, v2 in v2s:
            ck = b"ID3 " + struct.pack(">Q", len(v2)) + v2 + (b"\0" if len(v2) % 2 else b"")
            x = d + ck
            x = x[:4] + struct.pack(">Q", len(x) - 12) + x[12:]
            out.append(("DSDIFF", lab + "+chunk:" + l2, x))
    for lab, d in bases.get("DSF", [])[:3]:
        if len(d) < 28:
            continue
        for l2, v2 in v2s:
            x = d + v2
            x = x[:12] + struct.pack("<Q", len(x)) + struct.pack("<Q", len(d)) + x[28:]
            out.append(("DSF", lab + "+meta:" + l2, x))
            out.append(("DSF", lab + "+meta:" + l2 + "+v1", x + v1s[0][1]))
        for ptr in (1, 27, len(d) - 1, len(d), len(d) + 5, 2 ** 40):
            out.append(("DSF", lab + "+ptr=%d" % ptr, d[:20] + struct.pack("<Q", ptr) + d[28:]))
    return out


def run(ctx):
    """returns the number of cases"""
    import mutagen
    rng = ctx.rng
    ins = inputs(ctx)
    kinds = sorted(CLASSES)
    jobs = []          # (target class, source kind, label, data)
    for kind, label, data in ins:
        jobs.append((kind, kind, label, data))
        # cross-type: the same bytes to other classes
        for other in rng.sample(kinds, ctx.budget(1, 3)):
            if other != kind:
                jobs.append((other, kind, label, data))
    lines = ["ftype kind=%s data=%s" % (t, hx(d)) for t, _, _, d in jobs]
    # File(): a sample of the inputs with names
    fjobs = []
    for kind, label, data in ins:
        if rng.random() < (0.15 if ctx.quick else 0.5):
            fmt = F.BY_KIND.get(kind)
            nm = rng.choice(["", "x" + rng.choice(fmt.exts) if fmt and fmt.exts else "", "x.bin", "x.mp3"])
            fjobs.append((kind, label, data, nm))
    flines = ["fload name=%s data=%s" % (hx(nm.encode()), hx(d)) for _, _, d, nm in fjobs]
    model = None
    if ctx.model_ok():
        model = []
        allreq = lines + flines
        for i in range(0, len(allreq), 300):
            model.extend(ctx.driver.ask(allreq[i:i + 300]))
    ncases = 0
    for i, (target, kind, label, data) in enumerate(jobs):
        case = dict(cls=target, source=kind, input=label, data=hx(data) if len(data) < 1200 else "len=%d" % len(data))
        ctx.case(key=("ftype", target, data), sample=case if i % 211 == 7 else None)
        ncases += 1
        ctx.hist["ftype:" + target] += 1
        cls = cls_of(target)
        k, r = timed(lambda: cls(io.BytesIO(data)), 30)
        if k == "hang":
            ctx.violation("ftype:%s:hang" % target, "%s(fileobj) does not return within 30 s" % target, case)
            continue
        real = "ok" if k == "ok" else classify(r)
        ctx.hist["outcome:" + real.split(":")[-1]] += 1
        if real not in ("ok", "err:mutagen"):
            ctx.violation("ftype:%s:%s" % (target, type(r).__name__),
                          "%s(fileobj) raises %s (%s), not a MutagenError" % (target, type(r).__name__, str(r)[:80]), case)
            continue
        # the same bytes through an object with the semantics of a file opened by name (read(n < -1) raises ValueError, a seek
        # before the start raises OSError): what the caller of Type(path) gets
        kb, rb = timed(lambda: cls(BufferedLike(data)), 30)
        realb = "hang" if kb == "hang" else ("ok" if kb == "ok" else classify(rb))
        ctx.hist["as-real-file:" + ("same" if realb == real else "differs:%s-vs-%s" % (realb.split(":")[-1], real.split(":")[-1]))] += 1
        if "ape-" in label:
            ctx.hist["ape-buffered-like:" + ("same" if realb == real else "differs")] += 1
        if realb != real and realb in ("ok", "err:mutagen"):
            # path and stream must behave the same (clean for all classes since apev2._seek_back)
            ctx.violation("ftype:%s:differs-as-real-file" % target, "%s(fileobj) on an object with the semantics of a file opened by name: %s; "
                          "on io.BytesIO: %s (%s) [%s]" % (target, realb, real, str(r)[:80] if k != "ok" else (str(rb)[:80] if kb == "exc" else ""), label), case)
        if realb not in ("ok", "err:mutagen"):
            ctx.violation("ftype:%s:as-real-file:%s" % (target, realb.split(":")[-1]), "%s(fileobj) on an object with the semantics of a file opened by "
                          "name: %s (%s); on io.BytesIO: %s" % (target, realb, str(rb)[:60] if kb == "exc" else "", real), case)
        if model is None:
            continue
        ctx.traces_validated += 1
        st, fld = parse_fields(model[i])
        if st != real:
            ctx.disagree("ftype:%s outcome" % target, case, model=model[i], impl=real + (" " + str(r)[:80] if k != "ok" else ""))
        elif real == "ok" and fld.get("tags", "-") != "-":
            has = "0" if r.tags is None else "1"
            if has != fld["tags"]:
                ctx.disagree("ftype:%s tags is None" % target, case, model=model[i], impl="tags=" + has)
    for j, (kind, label, data, nm) in enumerate(fjobs):
        case = dict(source=kind, input=label, name=nm, data=hx(data) if len(data) < 1200 else "len=%d" % len(data))
        ctx.case(key=("fload", nm, data), sample=case if j % 97 == 3 else None)
        ncases += 1
        ctx.hist["File"] += 1
        k, r = timed(lambda: mutagen.File(F.NamedBytesIO(data, nm if nm else None)), 30)
        if k == "hang":
            ctx.violation("File:hang", "File(fileobj) does not return within 30 s", case)
            continue
        real = "ok" if k == "ok" else classify(r)
        if real not in ("ok", "err:mutagen"):
            ctx.violation("File:%s" % type(r).__name__, "File(fileobj) raises %s (%s), not a MutagenError" % (type(r).__name__, str(r)[:80]), case)
            continue
        if model is None:
            continue
        m = model[len(lines) + j]
        st, fld = parse_fields(m)
        ctx.traces_validated += 1
        if st != real:
            ctx.disagree("File outcome", case, model=m, impl=real + (" " + str(r)[:80] if k != "ok" else ""))
        elif real == "ok":
            got = "None" if r is None else type(r).__name__
            if got != fld.get("pick"):
                ctx.disagree("File class", case, model=m, impl=got)
    return ncases
